#!/bin/sh
# Build the whole framework offline from files on disk: translator output, Coq development (full .vo),
# extracted model driver, Rust harness (debug + release) against /repo's working tree with hooks on.
set -e
cd "$(dirname "$0")"
export CARGO_NET_OFFLINE=true
python3 - <<'PY'
import sys
sys.path.insert(0, '.')
from checks import common as C
ok, msg = C.regenerate()
print('translator:', ok, msg)
if not ok: sys.exit(1)
ok, log = C.coq_build(None, timeout=3000)
print(log[-3000:])
if not ok: sys.exit(1)
ok, log = C.build_driver()
print('driver:', ok, log[-2000:] if not ok else '')
if not ok: sys.exit(1)
ok, log, b = C.build_harness(False)
print('harness debug:', ok, log[-2000:] if not ok else '')
if not ok: sys.exit(1)
ok, log, b = C.build_harness(True)
print('harness release:', ok, log[-2000:] if not ok else '')
if not ok: sys.exit(1)
PY
