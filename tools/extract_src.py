#!/usr/bin/env python3
"""Translator: /repo/src -> coq/theories/Generated/{Consts,Pure}.v

Regenerated on every check run, so the theorems that `Require` these files are re-checked
against what the code says *now*.

* Consts.v : every constant the theorems depend on (magic bytes, versions, sizes, hasher-key rule,
  field order of the on-disk structs).
* Pure.v   : a whitelisted set of small pure integer functions, translated expression by
  expression. Rust fixed-width arithmetic is written out explicitly as `mod 2^w` (release-build
  wrap-around semantics; debug-build overflow panics are not modelled here).

Supported syntax (deliberately tiny; this is not a Rust semantics): `let x = e;`, integer literals
with `_` and type suffix, `+ - * / % << >> & | ^`, comparisons, `as T`, `if c { e } else { e }`,
tuples, `Self::CONST`, `CONST`, `size_of::<T>()`, `.wrapping_add/.wrapping_mul/.wrapping_sub/
.rotate_left/.saturating_sub`. Anything else raises TranslateError, which the check reports as a
broken tie (see DESIGN.md 1.5).
"""
import re, sys, os, json

class TranslateError(Exception):
    pass

WIDTH = {'u8': 8, 'u16': 16, 'u32': 32, 'u64': 64, 'u128': 128, 'usize': 64, 'bool': 1}

def read(repo, rel):
    with open(os.path.join(repo, rel)) as f:
        return f.read()

def strip_comments(src):
    src = re.sub(r'//[^\n]*', '', src)
    src = re.sub(r'/\*.*?\*/', '', src, flags=re.S)
    return src

def find_const(src, name):
    m = re.search(r'const\s+' + re.escape(name) + r'\s*:\s*([A-Za-z0-9_\[\]; ]+?)\s*=\s*([^;]+);', src)
    if not m:
        raise TranslateError('constant %s not found' % name)
    return m.group(1).strip(), m.group(2).strip()

def int_lit(s):
    s = s.strip()
    m = re.fullmatch(r'(0x[0-9a-fA-F_]+|[0-9_]+)(u8|u16|u32|u64|u128|usize)?', s)
    if not m:
        raise TranslateError('not an integer literal: %r' % s)
    return int(m.group(1).replace('_', ''), 0)

def find_fn(src, name):
    m = re.search(r'fn\s+' + re.escape(name) + r'\s*(?:<[^>]*>)?\s*\(([^)]*)\)\s*(?:->\s*([^{]+?))?\s*\{', src)
    if not m:
        raise TranslateError('function %s not found' % name)
    i = m.end()
    depth = 1
    j = i
    while depth > 0:
        if j >= len(src):
            raise TranslateError('unbalanced braces in %s' % name)
        if src[j] == '{': depth += 1
        elif src[j] == '}': depth -= 1
        j += 1
    return m.group(1), (m.group(2) or '').strip(), src[i:j-1]

TOK = re.compile(r'\s*(?:(0x[0-9a-fA-F_]+(?:u8|u16|u32|u64|u128|usize)?|[0-9][0-9_]*(?:u8|u16|u32|u64|u128|usize)?)|'
                 r'([A-Za-z_][A-Za-z0-9_]*)|(<<|>>|==|!=|<=|>=|&&|\|\||::|->|[-+*/%&|^!<>=(){},;.:]))')

def tokenize(s):
    toks = []
    pos = 0
    s = s.rstrip()
    while pos < len(s):
        m = TOK.match(s, pos)
        if not m or m.end() == pos:
            if s[pos:].strip() == '':
                break
            raise TranslateError('cannot tokenize at: %r' % s[pos:pos+30])
        if m.group(1): toks.append(('int', m.group(1)))
        elif m.group(2): toks.append(('id', m.group(2)))
        else: toks.append(('op', m.group(3)))
        pos = m.end()
    return toks

class Parser:
    """Produces (coq_expr, type) pairs. type is 'u8'...'usize', 'bool', or ('tuple', [types])."""
    def __init__(self, toks, env, consts):
        self.t = toks; self.i = 0; self.env = dict(env); self.consts = consts
    def peek(self, k=0):
        return self.t[self.i+k] if self.i+k < len(self.t) else ('eof', '')
    def eat(self, kind=None, val=None):
        tk = self.peek()
        if (kind and tk[0] != kind) or (val is not None and tk[1] != val):
            raise TranslateError('expected %s %s, got %s' % (kind, val, tk))
        self.i += 1
        return tk
    def block(self):
        # sequence of let statements followed by an expression
        lets = []
        while self.peek() == ('id', 'let'):
            self.eat()
            if self.peek() == ('id', 'mut'): raise TranslateError('let mut not supported')
            name = self.eat('id')[1]
            if self.peek() == ('op', ':'):
                self.eat(); self.eat('id')
            self.eat('op', '=')
            e, ty = self.expr()
            self.eat('op', ';')
            self.env[name] = ty
            lets.append((name, e))
        e, ty = self.expr()
        for name, le in reversed(lets):
            e = '(let %s := %s in %s)' % (name, le, e)
        return e, ty
    PREC = [['||'], ['&&'], ['==', '!=', '<', '>', '<=', '>='], ['|'], ['^'], ['&'], ['<<', '>>'], ['+', '-'], ['*', '/', '%']]
    def expr(self, level=0):
        if level == len(self.PREC):
            return self.cast()
        l, lt = self.expr(level+1)
        while self.peek()[0] == 'op' and self.peek()[1] in self.PREC[level]:
            op = self.eat()[1]
            r, rt = self.expr(level+1)
            l, lt = self.binop(op, l, lt, r, rt)
        return l, lt
    def binop(self, op, l, lt, r, rt):
        if op in ('==', '!=', '<', '>', '<=', '>='):
            m = {'==': '(%s =? %s)', '!=': '(negb (%s =? %s))', '<': '(%s <? %s)', '>': '(%s <? %s)',
                 '<=': '(%s <=? %s)', '>=': '(%s <=? %s)'}[op]
            if op in ('>', '>='): l, r = r, l
            return m % (l, r), 'bool'
        if op in ('&&', '||'):
            return ('(%s && %s)' if op == '&&' else '(%s || %s)') % (l, r), 'bool'
        if lt == 'lit': lt = rt
        if lt == 'lit': lt = 'usize'
        w = WIDTH.get(lt)
        if w is None: raise TranslateError('arithmetic on %s' % (lt,))
        P = '(2^%d)' % w
        if op == '+': return '((%s + %s) mod %s)' % (l, r, P), lt
        if op == '-': return '((%s + %s - %s) mod %s)' % (l, P, r, P), lt
        if op == '*': return '((%s * %s) mod %s)' % (l, r, P), lt
        if op == '/': return '(%s / %s)' % (l, r), lt
        if op == '%': return '(%s mod %s)' % (l, r), lt
        if op == '<<': return '((N.shiftl %s %s) mod %s)' % (l, r, P), lt
        if op == '>>': return '(N.shiftr %s %s)' % (l, r), lt
        if op == '&': return '(N.land %s %s)' % (l, r), lt
        if op == '|': return '(N.lor %s %s)' % (l, r), lt
        if op == '^': return '(N.lxor %s %s)' % (l, r), lt
        raise TranslateError('operator %s' % op)
    def cast(self):
        e, ty = self.postfix()
        while self.peek() == ('id', 'as'):
            self.eat(); t = self.eat('id')[1]
            if t not in WIDTH: raise TranslateError('cast to %s' % t)
            if ty == 'lit' or WIDTH.get(ty, 999) <= WIDTH[t]:
                ty = t
            else:
                e = '(%s mod (2^%d))' % (e, WIDTH[t]); ty = t
        return e, ty
    def postfix(self):
        e, ty = self.atom()
        while self.peek() == ('op', '.'):
            self.eat(); meth = self.eat('id')[1]
            self.eat('op', '(')
            args = []
            while self.peek() != ('op', ')'):
                args.append(self.expr())
                if self.peek() == ('op', ','): self.eat()
            self.eat('op', ')')
            w = WIDTH.get(ty)
            if w is None: raise TranslateError('method on %s' % (ty,))
            P = '(2^%d)' % w
            a = args[0][0] if args else None
            if meth == 'wrapping_add': e = '((%s + %s) mod %s)' % (e, a, P)
            elif meth == 'wrapping_mul': e = '((%s * %s) mod %s)' % (e, a, P)
            elif meth == 'wrapping_sub': e = '((%s + %s - %s) mod %s)' % (e, P, a, P)
            elif meth == 'saturating_sub': e = '(%s - %s)' % (e, a)
            elif meth == 'rotate_left': e = '(N.lor ((N.shiftl %s %s) mod %s) (N.shiftr %s (%d - %s)))' % (e, a, P, e, w, a)
            else: raise TranslateError('method %s' % meth)
        return e, ty
    def atom(self):
        k, v = self.peek()
        if k == 'int':
            self.eat()
            m = re.search(r'(u8|u16|u32|u64|u128|usize)$', v)
            return '%d' % int_lit(v), (m.group(1) if m else 'lit')
        if (k, v) == ('op', '('):
            self.eat()
            items = [self.expr()]
            while self.peek() == ('op', ','):
                self.eat(); items.append(self.expr())
            self.eat('op', ')')
            if len(items) == 1: return '(%s)' % items[0][0], items[0][1]
            return '(%s)' % ', '.join(i[0] for i in items), ('tuple', [i[1] for i in items])
        if (k, v) == ('op', '!'):
            self.eat(); e, ty = self.cast()
            if ty == 'bool': return '(negb %s)' % e, ty
            w = WIDTH[ty]
            return '(N.lxor %s (2^%d - 1))' % (e, w), ty
        if (k, v) == ('id', 'if'):
            self.eat(); c, _ = self.expr(); self.eat('op', '{'); a, at = self.block(); self.eat('op', '}')
            self.eat('id', 'else'); self.eat('op', '{'); b, bt = self.block(); self.eat('op', '}')
            return '(if %s then %s else %s)' % (c, a, b), (at if at != 'lit' else bt)
        if k == 'id':
            self.eat()
            if v in ('true', 'false'): return v, 'bool'
            name = v
            while self.peek() == ('op', '::'):
                self.eat()
                if self.peek() == ('op', '<'):   # size_of::<u64>()
                    self.eat(); t = self.eat('id')[1]; self.eat('op', '>'); self.eat('op', '('); self.eat('op', ')')
                    if name.split('::')[-1] != 'size_of': raise TranslateError('generic call %s' % name)
                    return '%d' % (WIDTH[t] // 8), 'usize'
                name = name + '::' + self.eat('id')[1]
            base = name.split('::')[-1]
            if name in self.env: return name, self.env[name]
            if base in self.consts: return '%d' % self.consts[base][0], self.consts[base][1]
            raise TranslateError('unknown identifier %s' % name)
        raise TranslateError('unexpected token %s %s' % (k, v))

def translate_fn(src, rust_name, coq_name, consts, subst=()):
    args, ret, body = find_fn(src, rust_name)
    for pat, rep in subst:
        body = re.sub(pat, rep, body)
    env = {}
    coq_args = []
    for a in [x.strip() for x in args.split(',') if x.strip()]:
        if a in ('&self', 'self', '&mut self'): raise TranslateError('method with self: %s' % rust_name)
        n, t = [x.strip() for x in a.split(':')]
        if t not in WIDTH: raise TranslateError('argument type %s' % t)
        env[n] = t; coq_args.append('(%s : N)' % n)
    p = Parser(tokenize(body), env, consts)
    e, ty = p.block()
    if p.peek()[0] != 'eof': raise TranslateError('trailing tokens in %s: %s' % (rust_name, p.peek(),))
    return 'Definition %s %s := %s.' % (coq_name, ' '.join(coq_args), e)

def const_int(repo, rel, name, consts_env=None):
    ty, val = find_const(strip_comments(read(repo, rel)), name)
    val = val.strip()
    # allow simple products like 4 * 1024 and references to other constants
    p = Parser(tokenize(val), {}, consts_env or {})
    e, _ = p.expr()
    # evaluate the Coq-ish expression numerically (only literals, + * and mod 2^w appear)
    py = e.replace('mod', '%').replace('^', '**')
    return int(eval(py, {'__builtins__': {}})), ty

def struct_fields(src, name):
    m = re.search(r'struct\s+' + re.escape(name) + r'\s*(?:<[^>]*>)?\s*(?:where[^{]*)?\{(.*?)\n\}', src, flags=re.S)
    if not m: raise TranslateError('struct %s not found' % name)
    body = re.sub(r'#\[[^\]]*\]', '', m.group(1))
    out = []
    for line in body.split(','):
        line = line.strip()
        if not line: continue
        mm = re.match(r'(?:pub(?:\([a-z]+\))?\s+)?([A-Za-z_][A-Za-z0-9_]*)\s*:\s*(.+)$', line, flags=re.S)
        if not mm: raise TranslateError('cannot parse field %r of %s' % (line, name))
        out.append((mm.group(1), re.sub(r'\s+', '', mm.group(2))))
    return out

def generate(repo):
    S = lambda rel: strip_comments(read(repo, rel))
    consts = {}
    def C(rel, name, coqname=None):
        v, ty = const_int(repo, rel, name, consts)
        consts[name] = (v, ty)
        return (coqname or name, v, ty, rel)
    rows = [
        C('src/blob/header.rs', 'BLOB_VERSION'),
        C('src/blob/header.rs', 'BLOB_MAGIC_BYTE'),
        C('src/blob/index/core.rs', 'HEADER_VERSION'),
        C('src/blob/index/core.rs', 'INDEX_HEADER_MAGIC_BYTE'),
        C('src/blob/index/tools.rs', 'HASH_LENGTH'),
        C('src/blob/index/bptree/core.rs', 'BLOCK_SIZE'),
        C('src/record/record.rs', 'RECORD_MAGIC_BYTE'),
        C('src/record/record.rs', 'DELETE_FLAG'),
        C('src/record/record.rs', 'MAX_SINGLE_PASS_DATA_SIZE'),
        C('src/io/unix/sync.rs', 'MAX_SYNC_OPERATION_SIZE'),
        C('src/storage/observer.rs', 'OBSERVER_CHANNEL_SIZE_LIMIT'),
        C('src/filter/ahash/fallback_hash.rs', 'MULTIPLE', 'AHASH_MULTIPLE'),
        C('src/filter/ahash/fallback_hash.rs', 'ROT', 'AHASH_ROT'),
        C('src/filter/atomic_bitvec.rs', 'ITEM_BYTES_SIZE'),
        C('src/filter/atomic_bitvec.rs', 'ITEM_BITS_SIZE'),
    ]
    out = ['(* GENERATED by tools/extract_src.py from /repo/src -- do not edit *)',
           'From Coq Require Import NArith List String.', 'Import ListNotations.', 'Open Scope N_scope.', '']
    for name, v, ty, rel in rows:
        out.append('Definition %s : N := %d. (* %s : %s *)' % (name, v, rel, ty))
    # aHash PI constants
    src = S('src/filter/ahash/mod.rs')
    m = re.search(r'const\s+PI\s*:\s*\[u64;\s*4\]\s*=\s*\[(.*?)\];', src, flags=re.S)
    if not m: raise TranslateError('PI not found')
    pis = [int_lit(x) for x in m.group(1).split(',') if x.strip()]
    out.append('Definition AHASH_PI : list N := [%s].' % '; '.join(str(x) for x in pis))
    # hasher key rule of Bloom::hashers: AHasher::new_with_keys((i + a) as u128, (i + b) as u128)
    src = S('src/filter/bloom.rs')
    m = re.search(r'new_with_keys\(\s*\(i\s*\+\s*(\d+)\)\s*as\s*u128\s*,\s*\(i\s*\+\s*(\d+)\)\s*as\s*u128\s*\)', src)
    if not m: raise TranslateError('Bloom::hashers key rule not recognised')
    out.append('Definition BLOOM_HASHER_KEY1_ADD : N := %s.' % m.group(1))
    out.append('Definition BLOOM_HASHER_KEY2_ADD : N := %s.' % m.group(2))
    # field order of on-disk structs
    def fields(rel, st, coq):
        fs = struct_fields(S(rel), st)
        out.append('Definition %s : list string := [%s]%%string. (* %s *)' % (
            coq, '; '.join('"%s:%s"' % f for f in fs), st))
        return fs
    layout = {}
    layout['record::Header'] = fields('src/record/record.rs', 'Header', 'FIELDS_RECORD_HEADER')
    layout['blob::Header'] = fields('src/blob/header.rs', 'Header', 'FIELDS_BLOB_HEADER')
    layout['IndexHeader'] = fields('src/blob/index/header.rs', 'IndexHeader', 'FIELDS_INDEX_HEADER')
    layout['TreeMeta'] = fields('src/blob/index/bptree/meta.rs', 'TreeMeta', 'FIELDS_TREE_META')
    layout['bloom::Save'] = fields('src/filter/bloom.rs', 'Save', 'FIELDS_BLOOM_SAVE')
    layout['bloom::Config'] = fields('src/filter/bloom.rs', 'Config', 'FIELDS_BLOOM_CONFIG')
    layout['RangeFilterInner'] = fields('src/filter/range.rs', 'RangeFilterInner', 'FIELDS_RANGE')
    consts_v = '\n'.join(out) + '\n'

    pure = ['(* GENERATED by tools/extract_src.py from /repo/src -- do not edit *)',
            'From Coq Require Import NArith Bool.', 'Open Scope N_scope.', '']
    abv = S('src/filter/atomic_bitvec.rs')
    for rn, cn in [('offset_and_mask_u8', 'offset_and_mask_u8'), ('get_bit_u8', 'get_bit_u8'),
                   ('offset_and_mask', 'offset_and_mask'), ('items_count', 'items_count')]:
        pure.append('(* src/filter/atomic_bitvec.rs fn %s *)' % rn)
        pure.append(translate_fn(abv, rn, cn, consts))
    # B+tree serializer arithmetic; NodeMeta is { size: u64 }, whose bincode size is 8 (checked below)
    nm = struct_fields(S('src/blob/index/bptree/meta.rs'), 'NodeMeta')
    if [t for _, t in nm] != ['u64']:
        raise TranslateError('NodeMeta is no longer a single u64: %s' % nm)
    node_subst = [(r'NodeMeta::serialized_size_default\(\)\s*(\.expect\("[^"]*"\)|\?)?', '8u64'),
                  (r'\bOk\(', '('), (r'std::mem::size_of', 'size_of')]
    ser = S('src/blob/index/bptree/serializer.rs')
    nod = S('src/blob/index/bptree/node.rs')
    rec = S('src/record/record.rs')
    pure.append('(* src/blob/index/bptree/serializer.rs fn max_nonleaf_node_capacity *)')
    pure.append(translate_fn(ser, 'max_nonleaf_node_capacity', 'max_nonleaf_node_capacity', consts, node_subst))
    pure.append('(* src/blob/index/bptree/node.rs fn serialized_size_with_keys *)')
    pure.append(translate_fn(nod, 'serialized_size_with_keys', 'serialized_size_with_keys', consts, node_subst))
    pure.append('(* src/record/record.rs fn blob_offset_offset / checksum_offset *)')
    pure.append(translate_fn(rec, 'blob_offset_offset', 'blob_offset_offset', consts))
    pure.append(translate_fn(rec, 'checksum_offset', 'checksum_offset', consts))
    pure_v = '\n'.join(pure) + '\n'
    return consts_v, pure_v, {'consts': {r[0]: r[1] for r in rows}, 'layout': layout}

# ---------------------------------------------------------------------------------------------------
# Structural facts: the hand-written models of the fault / cancellation / lock-protocol layers assume a
# few ORDERINGS inside specific functions (what is done before what, which call may suspend, whether an
# error is propagated or logged). They are re-extracted on every run; each is a boolean in
# Generated/Facts.v, and the property files state `fact = true` by reflexivity, so that a change of the
# code that invalidates an assumption breaks a proof obligation of the properties that rely on it.
# The analysis is deliberately shallow (ordered substring search inside one function body, comments
# stripped): a refactoring can defeat it, which is then reported as a broken tie, not as a violation.
def fn_bodies(src, name):
    out = []
    for m in re.finditer(r'fn\s+' + re.escape(name) + r'\s*(?:<[^>]*>)?\s*\(', src):
        k = src.find('{', m.end())
        # skip to the body brace of THIS function (the parameter list and return type contain no '{')
        i = k + 1
        depth = 1
        j = i
        while depth > 0 and j < len(src):
            if src[j] == '{': depth += 1
            elif src[j] == '}': depth -= 1
            j += 1
        out.append(src[i:j - 1])
    return out

def body_with(src, name, must_contain):
    for b in fn_bodies(src, name):
        if all(x in b for x in must_contain):
            return b
    raise TranslateError('function %s containing %s not found' % (name, must_contain))

def pos(body, needle, what):
    i = body.find(needle)
    if i < 0:
        raise TranslateError('%s: `%s` not found' % (what, needle))
    return i

def before(body, a, b, what):
    return pos(body, a, what) < pos(body, b, what)

def no_await_between(body, a, b, what):
    i = pos(body, a, what); j = body.find(b, i)
    if j < 0:
        raise TranslateError('%s: `%s` not found after `%s`' % (what, b, a))
    return '.await' not in body[i + len(a):j]

class Lazy(str):
    """a function body fetched on first use (so that a missing function only fails the facts that need it)"""
    def __new__(cls, thunk):
        o = str.__new__(cls, '')
        o._thunk = thunk; o._val = None
        return o
    def _get(self):
        if self._val is None:
            self._val = self._thunk()
        return self._val
    def find(self, *a): return self._get().find(*a)
    def count(self, *a): return self._get().count(*a)
    def __contains__(self, x): return x in self._get()
    def __getitem__(self, k): return self._get()[k]
    def __str__(self): return self._get()


def generate_facts(repo):
    S = lambda rel: strip_comments(read(repo, rel)).replace('\r', '')
    facts = []
    def F(name, value, where, meaning):
        # value is a thunk: a function that can no longer be analysed makes its fact false (only the properties
        # that state the fact are affected), it does not stop the translator
        try:
            v = bool(value())
        except TranslateError as e:
            v = False
            meaning = meaning + ' [NOT RECOGNISED: %s]' % e
        facts.append((name, v, where, meaning))
    obs = S('src/storage/observer.rs')
    def hints():
        ok = True
        for fn in ('try_update_active_blob', 'try_fsync_data', 'defer_dump_old_blob_indexes'):
            b = body_with(obs, fn, ['Msg::new'])
            ok = ok and ('send_hint(' in b) and ('send_msg(' not in b)
        sh = body_with(obs, 'send_hint', ['sender'])
        return ok and ('try_send(' in sh) and ('.await' not in sh)
    F('HINTS_NEVER_WAIT', lambda: (hints()), 'src/storage/observer.rs',
      'the three requests sent by write/delete under the storage lock use try_send and never suspend')
    core = S('src/storage/core.rs')
    w = Lazy(lambda: body_with(core, 'write_with_optional_meta', ['contains_with']))
    F('WRITE_DUPCHECK_BEFORE_LOCK', lambda: (before(w, 'contains_with(', '.safe.read().await', 'write_with_optional_meta')), 'src/storage/core.rs',
      'write: the duplicate check (which takes the storage lock itself) runs before the write takes the lock')
    c = Lazy(lambda: body_with(core, 'close_active_blob', ['active_blob.take()']))
    F('CLOSE_SYNCS_BEFORE_TAKE', lambda: (before(c, 'fsyncdata()', 'active_blob.take()', 'close_active_blob') and
      no_await_between(c, 'active_blob.take()', '.push(', 'close_active_blob')), 'src/storage/core.rs',
      'close_active_blob: the blob is synced while still active; no suspension between taking it out and pushing it')
    F('CLOSE_SYNCS_UNDER_EXCLUSIVE_LOCK', lambda: (before(c, 'self.safe.write().await', 'fsyncdata()', 'close_active_blob') and 'self.safe.read().await' not in c), 'src/storage/core.rs',
      'close_active_blob: the exclusive storage lock is taken before the blob is synced and is not given up in between (no writer can append after the sync)')
    r = Lazy(lambda: body_with(core, 'restore_active_blob', ['.pop()']))
    F('RESTORE_LOADS_BEFORE_POP', lambda: (before(r, 'load_index()', '.pop()', 'restore_active_blob') and
      no_await_between(r, '.pop()', 'active_blob = Some(', 'restore_active_blob')), 'src/storage/core.rs',
      'restore_active_blob: the index is loaded before the blob leaves the closed blobs; no suspension between pop and install')
    fs = Lazy(lambda: body_with(core, 'fsyncdata', ['fsync_in_progress']))
    F('FSYNC_FLAG_IS_A_GUARD', lambda: ('let _flag = ResetableFlag' in fs and 'fsync_in_progress.store(false' not in fs), 'src/storage/core.rs',
      'Inner::fsyncdata: the in-progress flag is reset by a drop guard on every exit path')
    def looks_again():
        b = str(fs)
        i_loop = pos(b, 'loop {', 'Inner::fsyncdata')
        i_cas = pos(b, 'compare_exchange(false, true, Ordering::SeqCst, Ordering::SeqCst)', 'Inner::fsyncdata')
        i_guard = pos(b, 'let _flag = ResetableFlag', 'Inner::fsyncdata')
        i_sync = pos(b, 'safe.fsyncdata().await?', 'Inner::fsyncdata')
        # the look after the guard's scope: second call of the dirty-bytes test, followed by the only `return Ok(())` behind it
        i_first = pos(b, 'too_many_dirty_bytes_in_active_blob(', 'Inner::fsyncdata')
        i_second = b.find('too_many_dirty_bytes_in_active_blob(', i_sync)
        if i_second < 0:
            raise TranslateError('Inner::fsyncdata: no look at the dirty bytes after the sync')
        scope_closed = b.count('{', i_guard, i_second) < b.count('}', i_guard, i_second) + 1 and b.count('}', i_sync, i_second) >= 2
        negated = b[i_second - 20:i_second].strip().endswith('!self.') or '!self.too_many_dirty_bytes_in_active_blob(' in b[i_sync:]
        return (i_loop < i_cas < i_guard < i_first < i_sync < i_second and scope_closed and negated and
                'return Ok(())' in b[i_second:] and '.await' not in b[i_guard:i_first].replace('self.safe.read().await', '').replace('ablob.read().await', ''))
    F('BACKGROUND_SYNC_LOOKS_AGAIN', lambda: (looks_again()), 'src/storage/core.rs',
      'Inner::fsyncdata: a loop; the flag is taken by a SeqCst compare-exchange, lowered by the guard at the end of an inner scope, and AFTER that the dirty bytes are looked at again; the function returns only when they are within the limit (Conc/SyncHint.v steps T0..T5)')
    stf = Lazy(lambda: body_with(core, 'should_try_fsync', ['too_many_dirty_bytes']))
    fip = Lazy(lambda: body_with(core, 'fsync_in_progress', ['load']))
    rf = Lazy(lambda: body_with(core, 'drop', ['self.flag.store']))
    F('FSYNC_FLAG_IS_SEQCST', lambda: ('!self.fsync_in_progress()' in stf and 'fsync_in_progress.load(Ordering::SeqCst)' in fip and
      'self.flag.store(false, Ordering::SeqCst)' in rf and core.count('fsync_in_progress.') == core.count('fsync_in_progress.load(Ordering::SeqCst)') +
      core.count('fsync_in_progress.compare_exchange(false, true, Ordering::SeqCst, Ordering::SeqCst)')), 'src/storage/core.rs',
      'every access to the in-progress flag is SeqCst (a write either is seen by the look after the flag went down or sees the flag down), and a writer asks for a sync only when it sees the flag down')
    ow = S('src/storage/observer_worker.rs')
    trf = Lazy(lambda: body_with(ow, 'try_run_fsync_task', ['fsync_task']))
    F('WORKER_REPLACES_TASK_PAST_ITS_LAST_LOOK', lambda: (re.search(r'!task\.is_finished\(\)\)\s*&&\s*self\.inner\.fsync_in_progress\(\)\s*\{[^}]*return false;', str(trf), re.S) is not None and
      before(trf, 'return false;', 'complete_task(&mut self.fsync_task', 'try_run_fsync_task') and
      before(trf, 'complete_task(&mut self.fsync_task', 'tokio::spawn(', 'try_run_fsync_task') and str(trf).count('return false;') == 1), 'src/storage/observer_worker.rs',
      'try_run_fsync_task: a sync request is dropped only while a task exists AND the flag is up; otherwise the old task is awaited and a new one is spawned (Conc/SyncHint.v worker gate K2a/K2b)')
    blobcore = S('src/blob/core.rs')
    rg = Lazy(lambda: body_with(blobcore, 'try_regenerate_index', ['raw_records']))
    F('REGENERATION_KEEPS_SCAN_ORDER', lambda: (before(rg, 'raw_r.load()', 'for header in headers', 'try_regenerate_index') and
      before(rg, 'for header in headers', 'self.index.push(&key, header)', 'try_regenerate_index') and
      re.search(r'headers\s*\.\s*(sort|reverse|dedup|retain|rev\(\))', str(rg)) is None and 'sort' not in str(rg)), 'src/blob/core.rs',
      'try_regenerate_index: the headers are pushed into the index in the order of the scan (equal timestamps of a key are ranked by their order in the blob: Storage/Model.v regenerate)')
    dc = Lazy(lambda: body_with(core, 'delete_core', ['delete_in_active']))
    F('DELETE_ACTIVE_BEFORE_CLOSED', lambda: (re.search(r'delete_in_active\([^;]*\)\s*\.await\s*\?\s*;', str(dc), re.S) is not None and
      before(dc, 'delete_in_active(', 'delete_in_closed(', 'delete_core') and 'join!' not in str(dc) and 'try_join' not in str(dc)), 'src/storage/core.rs',
      'delete_core: the active blob first; its failure ends the delete before any closed blob is touched (Storage/Fault.v delete_faulty)')
    hf = S('src/filter/hierarchical.rs')
    ac = Lazy(lambda: body_with(hf, 'add_child', ['init_filter_from_cow']))
    F('GROUP_FILTER_INITIALISED_ONLY_WHEN_EMPTY', lambda: (re.search(r'if\s+node\.children\.is_empty\(\)\s*\{\s*Self::init_filter_from_cow', str(ac)) is not None and
      str(ac).count('init_filter_from_cow') == 1), 'src/filter/hierarchical.rs',
      'HierarchicalFilters::add_child: a group filter is (re)initialised from a child only when the group has no child yet; a filter that was given up (None) stays None (Filter/Hier.v push)')
    ixc = S('src/blob/index/core.rs')
    lim = Lazy(lambda: body_with(ixc, 'load_in_memory', ['get_records_headers']))
    F('INDEX_LOAD_REPLACES_RECORDS_AND_FILTERS_TOGETHER', lambda: (before(lim, 'get_records_headers(', 'self.inner = State::InMemory', 'load_in_memory') and
      before(lim, 'read_meta().await', 'self.inner = State::InMemory', 'load_in_memory') and
      before(lim, 'deserialize_filters(', 'self.inner = State::InMemory', 'load_in_memory') and
      no_await_between(lim, 'self.inner = State::InMemory', 'self.filter = ', 'load_in_memory') and
      '?' not in str(lim)[str(lim).index('self.inner = State::InMemory'):]), 'src/blob/index/core.rs',
      'IndexStruct::load_in_memory: records and filters are read first and replaced together, with no suspension point and no early return in between (the load is one step of Storage/Cancel.v and Storage/Fault.v)')
    pm = Lazy(lambda: body_with(ow, 'process_msg', ['OperationType::CloseActiveBlob']))
    logged = all(re.search(x + r'\s*\.await\s*\?', str(pm)) is None for x in
                 (r'close_active_blob\(\)', r'create_active_blob\(\)', r'restore_active_blob\(\)', r'update_active_blob\(&self\.inner\)', r'try_update_active_blob\(\)'))
    F('BACKGROUND_FAILURES_ARE_LOGGED', lambda: (logged), 'src/storage/observer_worker.rs',
      'process_msg: a failing background close/create/restore/update request does not propagate to the worker loop')
    idx = S('src/blob/index/core.rs')
    d = Lazy(lambda: body_with(idx, 'dump_in_memory', ['mem::take']))
    F('DUMP_PUTS_HEADERS_BACK', lambda: (('impl' in d and 'Drop for' in d and 'data.take()' in d) and before(d, 'from_records(', 'taken.data = None', 'dump_in_memory')), 'src/blob/index/core.rs',
      'dump_in_memory: the headers taken out of the index go back unless the file was written')
    sy = S('src/io/unix/sync.rs')
    a = Lazy(lambda: body_with(sy, 'write_append_writable_data', ['reserve(']))
    rsv = Lazy(lambda: body_with(sy, 'reserve', ['fetch_add']))
    F('APPEND_RESERVES_THEN_WRITES', lambda: (before(a, 'AppendInFlight::reserve(', 'write_data(', 'write_append_writable_data') and
      a.count('resync_size_after_failed_append(') == a.count('write_data(') and
      before(rsv, 'appends_in_flight.fetch_add(1', 'size.fetch_add(len', 'AppendInFlight::reserve') and 'size.fetch_add(' not in a), 'src/io/unix/sync.rs',
      'record append: the append is counted as in flight, then its offset is reserved, then it writes; after a failed write the size falls back to the file length')
    fd = Lazy(lambda: body_with(sy, 'fsyncdata', ['sync_all']))
    F('SYNCED_SIZE_CAPTURED_BEFORE_SYNC', lambda: (before(fd, 'let size = self.inner.written_size.load(', 'sync_all()', 'File::fsyncdata') and 'synced_size.fetch_max(size' in fd
      and 'self.size()' not in fd and 'size.load' not in str(fd).replace('written_size.load', '')), 'src/io/unix/sync.rs',
      'File::fsyncdata: what is recorded as synced is `written_size` (not `size`) as read before the sync started (Conc/SyncAcct.v step S1)')
    dr = Lazy(lambda: body_with(sy, 'drop', ['appends_in_flight']))
    F('WRITTEN_SIZE_ADVANCES_ONLY_WHEN_QUIET', lambda: (before(dr, 'size.load(', 'appends_in_flight.fetch_sub(1', 'AppendInFlight::drop') and
      re.search(r'appends_in_flight\.fetch_sub\(1,\s*Ordering::SeqCst\)\s*==\s*1', str(dr)) is not None and
      before(dr, '== 1', 'written_size.fetch_max(size', 'AppendInFlight::drop') and
      sy.count('written_size.fetch_max(') + sy.count('written_size.store(') + sy.count('written_size.fetch_add(') == 1), 'src/io/unix/sync.rs',
      'end of an append: `size` is read BEFORE the in-flight counter is decremented and `written_size` is raised to it only by the append that was the last one in flight (Conc/SyncAcct.v steps A4, A5)')
    waa = Lazy(lambda: body_with(sy, 'write_append_all', ['reserve(']))
    wfi = Lazy(lambda: body_with(sy, 'wait_for_appends_in_flight', ['appends_in_flight']))
    F('APPEND_WAITS_FOR_APPENDS_IN_FLIGHT', lambda: (before(a, 'self.wait_for_appends_in_flight().await', 'AppendInFlight::reserve(', 'write_append_writable_data') and
      before(waa, 'self.wait_for_appends_in_flight().await', 'AppendInFlight::reserve(', 'write_append_all') and
      re.search(r'while\s+self\.inner\.appends_in_flight\.load\(Ordering::SeqCst\)\s*>\s*0', str(wfi)) is not None), 'src/io/unix/sync.rs',
      'an append starts only when no other append to the file is in flight (an append whose caller was dropped keeps running): the single-writer discipline `sstep` of Conc/SyncAcct.v')
    bc = S('src/blob/core.rs')
    rc = Lazy(lambda: body_with(bc, 'read_current_record', ['meta_size']))
    F('SCAN_CHECKS_RECORD_END', lambda: (before(rc, '+= header.meta_size()', '> self.file.size()', 'read_current_record') and
      before(rc, '> self.file.size()', 'if read_data', 'read_current_record') and 'saturating_add(header.data_size())' in rc), 'src/blob/core.rs',
      'blob scan: after the meta size is added the whole record must end inside the file, checked before the data is (or is not) read')
    F('SCAN_MAPS_EOF_TO_BINCODE', lambda: (rc.count('into_bincode_if_unexpected_eof') >= 2), 'src/blob/core.rs',
      'blob scan: a short read of a record header or of record data is reported as the Bincode error class (= quarantine), not as a plain I/O error (= init fails)')
    ssc = Lazy(lambda: body_with(core, 'should_save_corrupted_blob', ['ErrorKind']))
    F('QUARANTINE_RULE', lambda: (re.search(r'ErrorKind::Bincode\(_\)\s*=>\s*true', str(ssc)) is not None and
                                  re.search(r'!matches!\(\s*kind\s*,\s*ValidationErrorKind::BlobVersion\s*\)', str(ssc)) is not None and
                                  re.search(r'_\s*=>\s*false', str(ssc)) is not None), 'src/storage/core.rs',
      'read_blobs: a blob that fails with a Bincode error or a validation error other than the blob version is moved to the corrupted directory; a version error makes init fail (Blob/Scan.v dispose)')
    bp = S('src/blob/index/bptree/core.rs')
    v = Lazy(lambda: body_with(bp, 'validate', ['blob_size']))
    F('INDEX_BLOB_SIZE_MUST_BE_EQUAL', lambda: (re.search(r'self\.header\.blob_size\(\)\s*!=\s*blob_size', str(v)) is not None), 'src/blob/index/bptree/core.rs',
      'index validation: the recorded blob size must EQUAL the blob file size')
    ff = Lazy(lambda: body_with(bp, 'from_file', ['read_tree_meta']))
    F('INDEX_LENGTH_IS_CHECKED', lambda: (before(ff, 'read_tree_meta(', 'file.size() < expected_size', 'from_file') and
      before(ff, 'file.size() < expected_size', 'read_root(', 'from_file') and 'leaves_offset.saturating_add(' in ff), 'src/blob/index/bptree/core.rs',
      'index open: the file must reach leaves_offset + records_count * record_header_size before anything is read from the tree')
    st = S('src/storage/core.rs')
    ie = Lazy(lambda: body_with(st, 'init_from_existing', ['read_blobs']))
    F('QUARANTINED_IDS_COUNT_FOR_NEXT_ID', lambda: ('max_blob_id.max(max_corrupted_id)' in ie and 'fetch_max(' in ie), 'src/storage/core.rs',
      'init: next_blob_id is above the ids of the blobs in the corrupted directory and is never lowered afterwards')
    out = ['(* GENERATED by tools/extract_src.py from /repo/src -- do not edit *)',
           '(* structural facts about the code that the hand-written fault / cancellation / protocol models assume *)', '']
    for name, val, where, meaning in facts:
        out.append('(* %s: %s *)' % (where, meaning))
        out.append('Definition %s : bool := %s.' % (name, 'true' if val else 'false'))
    return '\n'.join(out) + '\n', {n: v for n, v, _, _ in facts}

def main():
    repo = sys.argv[1] if len(sys.argv) > 1 else '/repo'
    outdir = sys.argv[2] if len(sys.argv) > 2 else os.path.join(os.path.dirname(__file__), '..', 'coq', 'theories', 'Generated')
    try:
        consts_v, pure_v, info = generate(repo)
        facts_v, facts = generate_facts(repo)
        info['facts'] = facts
    except TranslateError as e:
        print('TRANSLATE-ERROR: %s' % e)
        sys.exit(2)
    os.makedirs(outdir, exist_ok=True)
    changed = False
    for fn, content in (('Consts.v', consts_v), ('Pure.v', pure_v), ('Facts.v', facts_v)):
        p = os.path.join(outdir, fn)
        old = open(p).read() if os.path.exists(p) else None
        if old != content:
            with open(p, 'w') as f: f.write(content)
            changed = True
    with open(os.path.join(outdir, 'info.json'), 'w') as f:
        json.dump(info, f, indent=1, sort_keys=True)
    print('generated (changed=%s)' % changed)

if __name__ == '__main__':
    main()
