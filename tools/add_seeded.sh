#!/bin/bash
# usage: add_seeded.sh <id e.g. C01_3> <dir with patch.diff demo.rs notes.md>
# saves a sub-agent's change under seeded/<id>, confirms it in a scratch worktree, runs the targeted check against it
set -u
ID=$1; SRC=$2; P=${ID%%_*}
V=/verif
mkdir -p $V/seeded/$ID && cp $SRC/patch.diff $SRC/demo.rs $SRC/notes.md $V/seeded/$ID/
python3 - <<PY
import json
m={"id":"$ID","breaks_property":"$P","source":"independent sub-agent given only the property text and a scratch worktree",
   "needs_to_manifest":"see notes.md","confirmed_on":"repaired tree","caught_by":None,
   "confirmed_by_me":{"demo_passes_on_HEAD":None,"demo_fails_with_patch":None,"existing_76_tests_pass_with_patch":None,
                      "builds_with_and_without_cfg_pearl_verif":None,"how":"tools/confirm_mutant.sh in a scratch worktree (removed afterwards)"}}
json.dump(m,open("$V/seeded/$ID/meta.json","w"),indent=1)
PY
R=$($V/tools/confirm_mutant.sh $V/seeded/$ID $ID 2>&1 | tail -1)
echo "$R" | cut -c1-400
python3 - <<PY
import json,re
r='''$R'''
m=json.load(open("$V/seeded/$ID/meta.json"))
c=m['confirmed_by_me']
c['demo_passes_on_HEAD']=bool(re.search(r'base=\[test result: ok', r))
c['demo_fails_with_patch']=bool(re.search(r'mutated=\[test result: FAILED', r))
c['builds_with_and_without_cfg_pearl_verif']='build_err=0/0' in r
c['existing_76_tests_pass_with_patch']=('FAILED' not in r.split('suite=')[1]) if 'suite=' in r else False
json.dump(m,open("$V/seeded/$ID/meta.json","w"),indent=1)
print(c)
PY
git -C /repo worktree remove --force /tmp/confirm_wt 2>/dev/null; rm -rf /tmp/confirm_target* /tmp/confirm_tmp
python3 $V/tools/run_seeded.py $ID 2>&1 | cut -c1-300
