#!/usr/bin/env python3
"""Apply each seeded change to /repo, run the given checks (quick tier), undo the change.
usage: run_seeded.py [mutant ids...] [--checks C01,C02]  (default: the property the mutant targets)
Writes seeded/<id>/meta.json['caught_by'] and prints a table. Evidence files are restored afterwards."""
import sys, os, json, subprocess, shutil, time
V = os.path.dirname(os.path.dirname(os.path.abspath(__file__)))
REPO = os.environ.get('VERIF_REPO', '/repo')
args = [a for a in sys.argv[1:] if not a.startswith('--')]
checks_override = None
for a in sys.argv[1:]:
    if a.startswith('--checks='):
        checks_override = a.split('=')[1].split(',')
ids = args or sorted(os.listdir(os.path.join(V, 'seeded')))
bak = os.path.join(V, '.cache', 'evidence_bak')
shutil.rmtree(bak, ignore_errors=True)
shutil.copytree(os.path.join(V, 'evidence'), bak)
assert subprocess.run(['git', '-C', REPO, 'status', '--porcelain', '--untracked-files=no'], capture_output=True).stdout.strip() == b'', 'repo not clean'
try:
    for mid in ids:
        d = os.path.join(V, 'seeded', mid)
        meta = json.load(open(os.path.join(d, 'meta.json')))
        if meta.get('outside_quantifier') and not args:
            print(mid, 'skipped: outside the quantifier of its property'); continue
        if meta.get('neutralised_by') and not args:
            print(mid, 'skipped: neutralised by', meta['neutralised_by']); continue
        checks = checks_override or meta.get('run_checks') or [meta['breaks_property']]
        r = subprocess.run(['git', '-C', REPO, 'apply', os.path.join(d, 'patch.diff')], capture_output=True)
        if r.returncode != 0:
            print(mid, 'PATCH FAILED', r.stderr.decode()[:200]); continue
        res = {}
        try:
            for c in checks:
                t = time.time()
                p = subprocess.run([os.path.join(V, 'check'), c, '--tier', 'quick'], capture_output=True, cwd=V, timeout=3600)
                out = p.stdout.decode()
                viol = [l for l in out.split('\n') if l.startswith('VIOLATION')]
                res[c] = {'exit': p.returncode, 'violations': len(viol), 'first': viol[0][:300] if viol else '', 'secs': round(time.time() - t)}
        finally:
            subprocess.run(['git', '-C', REPO, 'checkout', '--', '.'])
        meta['caught_by'] = {c: v for c, v in res.items() if v['exit'] != 0}
        meta['not_caught_by'] = [c for c, v in res.items() if v['exit'] == 0]
        json.dump(meta, open(os.path.join(d, 'meta.json'), 'w'), indent=1)
        print(mid, {c: (v['exit'], v['secs'], v['first'][:140]) for c, v in res.items()}, flush=True)
finally:
    subprocess.run(['git', '-C', REPO, 'checkout', '--', '.'])
    shutil.rmtree(os.path.join(V, 'evidence'), ignore_errors=True)
    shutil.copytree(bak, os.path.join(V, 'evidence'))
