#!/usr/bin/env python3
"""Generates /verif/corpus from the tree currently in /repo (run ONCE on the pinned release = commit 8fcb7aa plus the
cfg-gated hook commits, which do not change behaviour). Each entry: gen.txt (the history), dir/ (the directory the
pinned code wrote), query.txt + expected.txt (queries and the answers the pinned code gave)."""
import os, sys, random, subprocess, shutil, struct
V = os.path.dirname(os.path.dirname(os.path.abspath(__file__)))
sys.path.insert(0, V)
from checks import common as C
from checks.gen_storage import key_hex, bloom_cfg_hex

def entry(name, K, bloom, ops_end, rng):
    d = os.path.join(V, 'corpus', name)
    shutil.rmtree(d, ignore_errors=True)
    os.makedirs(d)
    keys = [key_hex(K, i) for i in range(4)]
    cfg = 'cfg K=%d dup=1 group=2 bloom=%s init=eager runtime=mt' % (K, bloom_cfg_hex() if bloom else 'none')
    L = [cfg + ' savedir=%s' % os.path.join(d, 'dir'), 'open']
    seed = 0
    for b in range(3):
        for j in range(rng.randrange(2, 6)):
            seed += 1
            x = rng.random()
            if x < 0.75:
                ln = rng.choice([0, 1, 5, 40, 300, 5000])
                L.append('W %s %d %s %d %d' % (rng.choice(keys), rng.choice([5, 7, 9]), rng.choice(['-', 'm0', 'm1', 'm3']), ln, 0 if ln == 0 else seed))
            else:
                L.append('D %s %d %s %d' % (rng.choice(keys), rng.choice([5, 7, 9]), rng.choice(['-', 'm1']), rng.choice([0, 1])))
        if b < 2:
            L.append('close_active')
    L.append(ops_end)
    gen = '\n'.join(L) + '\n'
    open(os.path.join(d, 'gen.txt'), 'w').write(gen)
    hb = os.path.join(C.TARGET, 'debug', 'pearl_harness')
    subprocess.run([hb, os.path.join(d, 'gen.txt'), os.path.join(d, 'gen.out')], check=True)
    # queries, recorded with the same (pinned) code on a copy of the directory
    Q = [cfg + ' usedir=%s' % os.path.join(d, 'dir')]
    for l in L[1:]:
        Q.append('model: ' + l)
    if ops_end == 'drop':
        pass
    Q.append('open')
    written = [l.split() for l in L if l.startswith('W ')]
    for t in written:
        if int(t[4]) > 0:
            Q.append('know %s %s' % (t[4], t[5]))
    for k in keys + [key_hex(K, 4)]:
        Q += ['R %s' % k, 'C %s' % k, 'RD %s' % k, 'RA %s' % k, 'RW %s m1' % k, 'CF %s' % k]
    Q += ['counts', 'ls', 'filehex blob 0', 'filehex blob 1', 'filehex blob 2']
    open(os.path.join(d, 'query.txt'), 'w').write('\n'.join(Q) + '\n')
    subprocess.run([hb, os.path.join(d, 'query.txt'), os.path.join(d, 'expected.txt')], check=True)
    os.remove(os.path.join(d, 'gen.out'))
    print(name, 'files:', sorted(os.listdir(os.path.join(d, 'dir'))))

def entry_wide(name, K, bloom, ops_end, rng, hb):
    """Blobs with 70..200 records each: index files with several leaves under a root node (and, for long keys, several
    inner nodes), most keys with two or three versions. Generated with a harness built against the pinned tree
    (commit 8fcb7aa + the cfg-gated hook commits only) in a scratch worktree."""
    d = os.path.join(V, 'corpus', name)
    shutil.rmtree(d, ignore_errors=True)
    os.makedirs(d)
    nkeys = rng.choice([60, 90])
    keys = sorted(set([(3 * i + 1).to_bytes(K, 'big').hex() for i in range(nkeys - 5)] + [key_hex(K, i) for i in range(5)]))
    cfg = 'cfg K=%d dup=1 group=2 bloom=%s init=eager runtime=mt' % (K, bloom_cfg_hex() if bloom else 'none')
    L = [cfg + ' savedir=%s' % os.path.join(d, 'dir'), 'open']
    seed = 0
    for b in range(2):
        ops = []
        for k in keys:
            for _ in range(rng.choice([1, 2, 2, 3])):
                seed += 1
                if rng.random() < 0.05:
                    ops.append('D %s %d - 0' % (k, rng.choice([5, 7, 9])))
                else:
                    ln = rng.choice([5, 9, 40])     # long enough to identify the payload (the harness names a payload by length and checksum)
                    ops.append('W %s %d %s %d %d' % (k, rng.choice([5, 7, 9]), rng.choice(['-', 'm1']), ln, seed))
        rng.shuffle(ops)
        L += ops
        if b < 1:
            L.append('close_active')
    L.append(ops_end)
    open(os.path.join(d, 'gen.txt'), 'w').write('\n'.join(L) + '\n')
    subprocess.run([hb, os.path.join(d, 'gen.txt'), os.path.join(d, 'gen.out')], check=True)
    Q = [cfg + ' usedir=%s' % os.path.join(d, 'dir')]
    for l in L[1:]:
        Q.append('model: ' + l)
    Q.append('open')
    for t in (l.split() for l in L if l.startswith('W ')):
        if int(t[4]) > 0:
            Q.append('know %s %s' % (t[4], t[5]))
    for k in keys + [(3 * nkeys + 2).to_bytes(K, 'big').hex()]:
        Q += ['R %s' % k, 'C %s' % k, 'RD %s' % k]
    Q += ['counts', 'ls']
    open(os.path.join(d, 'query.txt'), 'w').write('\n'.join(Q) + '\n')
    subprocess.run([hb, os.path.join(d, 'query.txt'), os.path.join(d, 'expected.txt')], check=True)
    os.remove(os.path.join(d, 'gen.out'))
    print(name, 'files:', sorted(os.listdir(os.path.join(d, 'dir'))))


if __name__ == '__main__' and len(sys.argv) > 2 and sys.argv[1] == 'wide':
    # usage: gen_corpus.py wide <harness binary built against the pinned tree>
    rng = random.Random(9)
    for K in (4, 32):
        for bloom in (False, True):
            entry_wide('wide_k%d_%s_%s' % (K, 'bloom' if bloom else 'nobloom', 'close' if bloom else 'drop'), K, bloom, 'close' if bloom else 'drop', rng, sys.argv[2])
    sys.exit(0)

if __name__ == '__main__':
    rng = random.Random(8)
    i = 0
    for K in (4, 8, 32):
        for bloom in (False, True):
            for end in ('close', 'drop'):
                entry('k%d_%s_%s' % (K, 'bloom' if bloom else 'nobloom', end), K, bloom, end, rng)
