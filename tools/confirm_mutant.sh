#!/bin/bash
# usage: confirm_mutant.sh <dir with patch.diff demo.rs> <name>
# Confirms in a scratch worktree: demo passes on HEAD, patch applies, builds (with and without hooks),
# full test suite passes with the patch, demo fails with the patch. Prints a one-line verdict.
set -u
SRC=$1; NAME=$2
WT=/tmp/confirm_wt
export CARGO_NET_OFFLINE=true CARGO_TARGET_DIR=/tmp/confirm_target TMPDIR=/tmp/confirm_tmp
mkdir -p $TMPDIR
if [ ! -d $WT ]; then git -C /repo worktree add -q --detach $WT HEAD; fi
cd $WT && git checkout -q -- . && git clean -qfd tests/ src/ >/dev/null 2>&1
git checkout -q --detach $(git -C /repo rev-parse HEAD) 2>/dev/null
cp $SRC/demo.rs tests/demo_$NAME.rs
# a demonstration that uses the I/O tap / failpoints is built with the hooks on
if grep -q "verif_io\|pearl_verif\|pearl::verif" $SRC/demo.rs; then DEMOENV="env RUSTFLAGS=--cfg=pearl_verif CARGO_TARGET_DIR=/tmp/confirm_target_v"; else DEMOENV=""; fi
base=$($DEMOENV timeout 900 cargo test --offline --test demo_$NAME 2>&1 | grep -E "^test result" | tail -1)
if ! git apply --check $SRC/patch.diff 2>/dev/null; then echo "$NAME: PATCH-DOES-NOT-APPLY"; exit 1; fi
git apply $SRC/patch.diff
b1=$(cargo build --offline 2>&1 | grep -cE "^error")
b2=$(RUSTFLAGS="--cfg pearl_verif" CARGO_TARGET_DIR=/tmp/confirm_target_v cargo build --offline 2>&1 | grep -cE "^error")
mut=$($DEMOENV timeout 900 cargo test --offline --test demo_$NAME 2>&1 | grep -E "^test result" | tail -1)
rm tests/demo_$NAME.rs
suite=$(timeout 1800 cargo test --workspace --no-fail-fast --offline 2>&1 | grep -E "^test result" | tr '\n' ';')
git checkout -q -- . && git clean -qfd tests/ >/dev/null 2>&1
echo "$NAME: base=[$base] build_err=$b1/$b2 mutated=[$mut] suite=[$suite]"
