#!/usr/bin/env python3
"""Regenerates MANIFEST.json from the table below (claimed checks) + properties.jsonl."""
import json, os
V = os.path.dirname(os.path.dirname(os.path.abspath(__file__)))
props = [json.loads(l) for l in open(os.path.join(V, 'properties.jsonl'))]
TECH = 'machine-checked proof in Coq 8.16 over an executable Gallina model; model tied to the crate by differential correspondence (extracted OCaml model vs Rust harness) and a translator for constants/pure integer functions'
NOTE = ('Coq 8.16.1 kernel (vm_compute used, no native_compute); development declares no axioms (Print Assumptions parsed on every run); '
        'translator tools/extract_src.py; extraction ExtrOcamlBasic only; OCaml driver; Rust harness with --cfg pearl_verif; '
        'the hand-written model itself (DESIGN.md section 2 lists what is modelled, not verified)')
CLAIMED = json.load(open(os.path.join(V, 'tools', 'claims.json')))
def chk(pid):
    return {"property_id": pid, "quick_cmd": "./check %s --tier quick" % pid, "thorough_cmd": "./check %s --tier thorough" % pid,
            "evidence_file": "/verif/evidence/%s.json" % pid, "replay_cmd_template": "./check %s --replay {path}" % pid,
            "engine": "coq-model+correspondence",
            "level_claimed": {"category": "proof", "text": CLAIMED[pid], "design_ref": "DESIGN.md section 3 %s" % pid},
            "level_note": NOTE, "technique": TECH}
hooks_commits = os.popen("git -C /repo log --format=%h --grep='verif hook'").read().split()
m = {"version": 1, "setup_cmd": "./setup.sh",
     "hooks": {"guard": "pearl_verif", "enable": "RUSTFLAGS=\"--cfg pearl_verif\" (set by checks/common.py when building /verif/harness against /repo)",
               "baseline_off_cmd": "cd /repo && cargo test --workspace --no-fail-fast --offline",
               "source_commits": hooks_commits, "add_only": True},
     "engines": [{"name": "coq-model+correspondence", "path": "/verif/check", "serves_properties": sorted(CLAIMED),
                  "kind_free_text": "Coq 8.16 theorems over a hand-written executable Gallina model; translator for constants and pure integer functions; OCaml-extracted model vs Rust harness differential runs; Coq Spec as the search oracle"}],
     "checks": [chk(p) for p in sorted(CLAIMED)],
     "notes": "See DESIGN.md. Properties move from not_applicable to checks as their model, theorems and correspondence are built.",
     "not_applicable": [{"property_id": p['id'], "reason": "check not built yet in this round (planned: DESIGN.md section 3); not claimed"} for p in props if p['id'] not in CLAIMED]}
json.dump(m, open(os.path.join(V, 'MANIFEST.json'), 'w'), indent=1)
print('claimed', sorted(CLAIMED))
