#!/usr/bin/env python3
"""Regenerates MANIFEST.json from the table below (claimed checks) + properties.jsonl."""
import json, os
V = os.path.dirname(os.path.dirname(os.path.abspath(__file__)))
props = [json.loads(l) for l in open(os.path.join(V, 'properties.jsonl'))]
TECH = 'machine-checked proof in Coq 8.16 over an executable Gallina model; model tied to the crate by differential correspondence (extracted OCaml model vs Rust harness) and a translator for constants/pure integer functions'
NOTE = ('Coq 8.16.1 kernel (vm_compute used, no native_compute); development declares no axioms (Print Assumptions parsed on every run); '
        'translator tools/extract_src.py; extraction ExtrOcamlBasic only; OCaml driver; Rust harness with --cfg pearl_verif; '
        'the hand-written model itself (DESIGN.md section 2 lists what is modelled, not verified)')
CLAIMED = {
 'C01': 'Theorems (Properties/C01.v): after EVERY history of the L3 storage model (writes/deletes with arbitrary timestamps, lifecycle and background requests, restarts, index removal; any key length and config) read/contains = top-ranked record of the log (greatest timestamp, then newest blob, then newest append), unless the known class F2 was hit (ghost flag; refutation witness included). Model = code by differential runs: every read/contains after every op on generated histories, compared with the model AND with the Coq spec.',
 'C04': 'Theorems (Properties/C04.v): every non-data operation (lifecycle, background requests in any state, force_update, free_excess, dumps at quiescence, close/drop/open, index removal) leaves the log untouched after every history, hence reads unchanged; invariant kept by every operation; "keeps accepting writes" is refuted by the faithful model (F2 witness by vm_compute). Correspondence: maintenance op between data ops with p=1/2, all queries after every op.',
 'C05': 'Theorems (Properties/C05.v): bytes appended = header++meta++data with offset/CRC patched, independent of the single-pass threshold; Entry::load round trip for every key/meta/data length; header codec round trip; CRC-32C detects every error burst of <= 32 bits at every position and length (proved from scratch on the bit-serial model), byte-level corollaries; data with a different checksum is never returned. Correspondence: blob files byte-exact (incl. CRCs, thresholds 4096/81920), reads after 1-bit/1-byte/burst damage with index in memory, on disk, regenerated; debug and release builds.',
 'C02': 'Theorems (Properties/C02.v): for every state whose indexes describe their blobs (established after every history), read_all_with_deletion_marker = all records of the key in rank order cut after the first marker (the per-blob cut + stable re-sort + global cut of the code is proved equal to one global sort and cut, any number of blobs); read_all = that without the marker; read_with(meta) = first listed record with that meta, else Deleted if the list ends in a marker, else NotFound (per-blob lookup merged by latest proved equal to the global lookup). delete return values and duplicate-write acknowledgements are tied by correspondence with the model (both policies).',
 'C09': 'PARTIAL. Model of the B+tree serializer and reader (Index/BPTree.v: leaf packing, node layering with byte offsets, descent, in-leaf search, left/right expansion, load) tied to the crate by byte-exact comparison of index files and of every lookup (hook H2) over shapes up to 3 node levels for K in {1,4,32,250,1000}; theorem so far: bounded sweep proved by kernel computation (all key counts 1..120, three version distributions, small block size exercising deep trees). The unbounded equivalence theorem is in progress (DESIGN.md C09).',
 'C13': 'Theorems (Properties/C13.v) on the worker part of the L3 model: every operation in every state keeps the worker alive except a background create/close/restore request made when it cannot apply -- which kills it silently and for good (refutation = finding F1, proved for all states); with a live worker an overflow of an aged active blob switches to a fresh blob, requested dumps complete at the quiescence point, close returns. Correspondence + oracle: bg requests in every active-blob state, then a real overflow past max_data_in_blob with sleeps beyond the 200 ms debounce, dump request, close.',
 'C15': 'Theorems (Properties/C15.v): counters = spec_counts (records physically appended per blob incl. markers, blobs that exist) in every state satisfying the per-blob invariant (kept after every history) provided no closed-list slot was vacated; index count = number of records; ids strictly increasing and next_blob_id above all after every history; blobs_count refuted after close+restore (F3 witness by computation). Correspondence + oracle: counts / disk_used / directory listing after every op of generated histories; F3 and F14 are listed known findings.',
 'C10': 'Theorems (Properties/C10.v) over the model of AtomicBitVec/Bloom: no false negative for every hash family, bit count and key sequence; off-loaded file probe = in-memory probe through the bincode layout; merge keeps keys. The bit-index functions the proofs unfold are regenerated from the Rust source on every run; the rest is tied by byte-exact differential runs (Bloom::to_raw with the aHash model, probes).',
}
def chk(pid):
    return {"property_id": pid, "quick_cmd": "./check %s --tier quick" % pid, "thorough_cmd": "./check %s --tier thorough" % pid,
            "evidence_file": "/verif/evidence/%s.json" % pid, "replay_cmd_template": "./check %s --replay {path}" % pid,
            "engine": "coq-model+correspondence",
            "level_claimed": {"category": "proof", "text": CLAIMED[pid], "design_ref": "DESIGN.md section 3 %s" % pid},
            "level_note": NOTE, "technique": TECH}
hooks_commits = os.popen("git -C /repo log --format=%h --grep='verif hook'").read().split()
m = {"version": 1, "setup_cmd": "./setup.sh",
     "hooks": {"guard": "pearl_verif", "enable": "RUSTFLAGS=\"--cfg pearl_verif\" (set by checks/common.py when building /verif/harness against /repo)",
               "baseline_off_cmd": "cd /repo && cargo test --workspace --no-fail-fast --offline",
               "source_commits": hooks_commits, "add_only": True},
     "engines": [{"name": "coq-model+correspondence", "path": "/verif/check", "serves_properties": sorted(CLAIMED),
                  "kind_free_text": "Coq 8.16 theorems over a hand-written executable Gallina model; translator for constants and pure integer functions; OCaml-extracted model vs Rust harness differential runs; Coq Spec as the search oracle"}],
     "checks": [chk(p) for p in sorted(CLAIMED)],
     "notes": "See DESIGN.md. Properties move from not_applicable to checks as their model, theorems and correspondence are built.",
     "not_applicable": [{"property_id": p['id'], "reason": "check not built yet in this round (planned: DESIGN.md section 3); not claimed"} for p in props if p['id'] not in CLAIMED]}
json.dump(m, open(os.path.join(V, 'MANIFEST.json'), 'w'), indent=1)
print('claimed', sorted(CLAIMED))
