"""C09 On-disk B+tree index answers exactly like the in-memory index it was built from."""
from . import common as C

ALSO_RELEASE = True
RULE = ('index probe (hook H2): K in {1,4,32,138,250,503,1000} (fan-out 454..5; 138 and 503 make a full node end exactly at the block end), key counts around every leaf/fan-out/min-fill '
        'boundary up to 3 node levels, deep trees with 3 and 4 inner levels (K=1000: 76..400 keys, K=503: 450..900 keys), version runs longer than a block and ending exactly at block boundaries, '
        'timestamp ties and deletion markers, pushes in random order; every present key and absent keys below/between/'
        'above queried in memory, on disk, after load; index file bytes compared with the Coq serialiser (hash masked); '
        'distinct by (K, number of keys, number of leaves class, max run class)')
ASSUMPTIONS = ['SHA-256 of the index file is not modelled (hash field masked in the byte comparison)']

FANOUT = lambda K: (4096 - 16) // (K + 8) + 1
PER_LEAF = lambda K: 4096 // (57 + K)


ORDER = 'big'     # byte order of the key values of the script being generated ('little': cfg order=le)


def key_of(K, i):
    v = 2 * i + 2
    return v.to_bytes(K, ORDER).hex() if K > 1 else bytes([v % 256]).hex()


def gen_script(rng, tier, big, deep=False):
    K = rng.choice([1, 4, 32, 138, 250, 503, 1000] if not big else [250, 503, 503, 138, 1000, 1000])
    if deep:
        K = rng.choice([1000, 1000, 503])
    per = PER_LEAF(K)
    fan = FANOUT(K)
    # a quarter of the scripts use a key type whose order is NOT the order of its bytes (the Key trait leaves the order
    # to the user): N bytes compared as a little-endian number. The model works with the key's rank; only the byte image
    # of the file is not compared then.
    global ORDER
    ORDER = 'little' if (K > 1 and not deep and rng.random() < 0.25) else 'big'
    # number of keys: around interesting boundaries
    maxkeys = 120 if K == 1 else (400 if K <= 32 else (700 if K == 138 else (260 if K == 250 else 120)))
    if deep:
        # three and four inner levels: more leaves than fan-out squared / cubed (long keys make that cheap)
        L2, L3 = fan * fan, fan * fan * fan
        nk = rng.choice([L2 * per + 1, L2 * per + per, (L2 + fan) * per + 2, 2 * L2 * per] + ([L3 * per + 1] if K == 1000 else []))
    elif big:
        # exactly `fan` leaves (a completely full node), one more, fan+min_fill, two full nodes ...
        nk = rng.choice([fan * per + 1, fan * per, fan * per - per + 1, (fan + 1) * per, (fan + fan // 2 + 1) * per, 2 * fan * per + 3, 3 * per * fan])
        nk = min(nk, maxkeys if K != 1000 else 110)
    else:
        cands = [1, 2, per - 1, per, per + 1, 2 * per, 2 * per + 1, rng.randrange(1, 4 * per + 2),
                 per * (fan // 2), per * fan // 3, per * fan, per * fan - per + 1]
        nk = max(1, min(rng.choice(cands), maxkeys))
    # versions per key
    style = rng.choice(['one', 'few', 'longrun', 'boundary'])
    vers = []
    for i in range(nk):
        if style == 'one':
            v = 1
        elif style == 'few':
            v = rng.choice([1, 1, 2, 3, 5, 6])
        elif style == 'longrun':
            v = rng.choice([1, 1, 2]) if rng.random() < 0.9 else rng.choice([per, per + 1, 2 * per + 3, 3 * per])
        else:
            v = 1
        vers.append(v)
    if style == 'boundary' and nk >= 2:
        # make a run end exactly at a block boundary: records before key j + its versions = multiple of per
        j = rng.randrange(nk)
        before = sum(vers[:j])
        need = (per - before % per)
        vers[j] = need if need > 0 else per
        if rng.random() < 0.5 and j + 1 < nk:
            vers[j + 1] = per   # and a full-block run right after
    total = sum(vers)
    if total > 1500:
        # keep scripts bounded
        scale = 1500.0 / total
        vers = [max(1, int(v * scale)) for v in vers]
    L = ['cfg K=%d%s' % (K, ' order=le' if ORDER == 'little' else ''), 'idx new 0 none']
    pushes = []
    off = 20
    for i, v in enumerate(vers):
        tss = [rng.choice([5, 7, 9]) if rng.random() < 0.7 else rng.randrange(0, 40) for _ in range(v)]
        for t in tss:
            dele = 1 if rng.random() < 0.04 else 0
            pushes.append((i, t, dele))
    rng.shuffle(pushes)
    for (i, t, dele) in pushes:
        L.append('idx push 0 %s %d %d 8 %d %d' % (key_of(K, i), t, dele, 0 if dele else 5, off))
        off += 57 + K + 8 + (0 if dele else 5)
    bsize = off
    # query set: every present key (sampled when many) + absent below/between/above
    present = list(range(nk))
    if len(present) > 60:
        present = sorted(set(rng.sample(present, 50) + [0, 1, nk - 1, nk - 2] + [j for j in range(nk) if vers[j] > 3][:10]))
    absent = []
    if K > 1 or nk < 120:
        absent = [(-1, None)]
    qkeys = [key_of(K, i) for i in present]
    # absent: odd values between present keys, below the first and above the last
    def absent_hex(v):
        if K == 1:
            return bytes([v % 256]).hex() if 0 <= v < 256 else None
        return v.to_bytes(K, ORDER).hex()
    for v in [1, 3, 2 * (nk // 2) + 3, 2 * nk + 1, 2 * nk + 3, 2 * nk + 101]:
        h = absent_hex(v)
        if h is not None and (v % 2 == 1):
            qkeys.append(h)
    def queries():
        for kx in qkeys:
            L.append('idx latest 0 %s' % kx)
            L.append('idx all 0 %s' % kx)
        L.append('idx count 0')
    L.append('#PHASE mem')
    queries()
    L.append('idx dump 0 %d' % bsize)
    L.append('idx filehex 0')
    L.append('#PHASE disk')
    queries()
    L.append('idx load 0 %d' % bsize)
    L.append('#PHASE loaded')
    queries()
    L.append('idx drop 0')
    return '\n'.join(L) + '\n'


def gen(tier, rng):
    n = 140 if tier == 'quick' else 2500
    out = []
    for i in range(n):
        out.append(('shape%05d' % i, gen_script(rng, tier, big=(i % 10 == 0), deep=(i % 20 == 7))))
    return out


def oracle(lines, io, spec=None):
    """The property itself on the implementation alone: answers on disk and after load equal the in-memory answers."""
    fails = []
    qpos = [i for i, l in enumerate(lines) if l.startswith('idx latest') or l.startswith('idx all') or l.startswith('idx count')]
    # three phases with identical query lists
    dump_i = next((i for i, l in enumerate(lines) if l.startswith('idx dump')), None)
    load_i = next((i for i, l in enumerate(lines) if l.startswith('idx load')), None)
    if dump_i is None or load_i is None:
        return fails
    mem = [i for i in qpos if i < dump_i]
    disk = [i for i in qpos if dump_i < i < load_i]
    loaded = [i for i in qpos if i > load_i]
    if not (len(mem) == len(disk) == len(loaded)):
        return fails
    for a, b, c in zip(mem, disk, loaded):
        if a >= len(io) or b >= len(io) or c >= len(io):
            fails.append('script did not run to completion (crash / timeout) near line %d: %s' % (min(a, b, c), lines[min(b, len(lines) - 1)]))
            break
        x, y, z = io[a], io[b], io[c]
        if lines[a].startswith('idx count'):
            x, y, z = x.split()[2], y.split()[2], z.split()[2]
        if y != x:
            fails.append('line %d `%s`: on-disk answer `%s` differs from in-memory answer `%s`' % (b, lines[b], y, x))
        if z != x:
            fails.append('line %d `%s`: answer after load `%s` differs from the original in-memory answer `%s`' % (c, lines[c], z, x))
    if dump_i >= len(io):
        fails.append('script did not run to the dump (crash / unsupported)')
    elif io[dump_i].startswith('idx dump Err') or (load_i < len(io) and io[load_i] != 'idx load ok'):
        fails.append('dump/load failed: %s / %s' % (io[dump_i], io[load_i] if load_i < len(io) else '?'))
    return fails[:6]


classify = C.default_classify


def signature(lines, io):
    K = lines[0]
    npush = sum(1 for l in lines if l.startswith('idx push'))
    keys = len(set(l.split()[3] for l in lines if l.startswith('idx push')))
    from collections import Counter
    c = Counter(l.split()[3] for l in lines if l.startswith('idx push'))
    maxrun = max(c.values()) if c else 0
    return hash((K, keys, npush // 10, min(maxrun, 200) // 5))
