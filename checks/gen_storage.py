"""Structured generator of storage-level histories (shared by C01, C02, C03, C04, C15)."""
import struct

METAS = ['-', 'm0', 'm1', 'm2']
KSIZES = [1, 4, 8, 32]


def key_hex(K, i):
    # keys differ in first, last or middle byte so that ordering and range filters are exercised
    b = bytearray(K)
    if K == 1:
        b[0] = [3, 200, 77, 0, 255][i % 5]
    else:
        pat = i % 5
        if pat == 0: b[K - 1] = 1
        elif pat == 1: b[0] = 1
        elif pat == 2: b[K - 1] = 2
        elif pat == 3: b[K // 2] = 9; b[K - 1] = 7
        else:
            for j in range(K): b[j] = 255
    return bytes(b).hex()


def bloom_cfg_hex(elements=50, hashers=2, maxbits=512, step=4, fpr=0.001):
    return struct.pack('<QQQQd', elements, hashers, maxbits, step, fpr).hex()


def bloom_bits(elements=50, hashers=2, maxbits=512, fpr=0.001):
    """the bit count Bloom::new chooses (float formula of src/filter/bloom.rs; an INPUT of the Coq model, checked
    against the implementation's own answer by the C10 bloom stream)"""
    from .c10 import bits_from_formula
    return bits_from_formula(elements, hashers, maxbits, fpr)


class Gen:
    def __init__(self, rng, K=None, dup=None, nkeys=None, maint=0.2, restart=0.04, bg=0.0, deletes=0.15,
                 metas=True, queries=('R', 'C', 'RD'), counts=False, lazy=None, group=None, bloom=None,
                 runtime=None, nops=None, ts_pool=None, extra_cfg=''):
        self.rng = rng
        self.K = K if K is not None else rng.choice(KSIZES)
        self.dup = dup if dup is not None else rng.choice([0, 1, 1])
        self.nkeys = nkeys or rng.choice([2, 3, 4])
        self.keys = [key_hex(self.K, i) for i in range(self.nkeys)]
        self.maint, self.restart, self.bg, self.deletes = maint, restart, bg, deletes
        self.metas = metas
        self.queries = queries
        self.counts = counts
        self.lazy = lazy if lazy is not None else (rng.random() < 0.3)
        self.group = group or rng.choice([2, 3, 8])
        self.bloom = bloom if bloom is not None else (rng.random() < 0.5)
        self.runtime = runtime or rng.choice(['mt', 'mt', 'ct'])
        self.nops = nops or rng.randrange(6, 26)
        self.ts_pool = ts_pool or [5, 7, 9]
        self.extra_cfg = extra_cfg
        self.seed_ctr = 0
        self.lines = []
        self.is_open = False

    def cfg_line(self):
        return 'cfg K=%d dup=%d group=%d bloom=%s init=%s runtime=%s%s%s' % (
            self.K, self.dup, self.group, bloom_cfg_hex() if self.bloom else 'none',
            'lazy' if self.lazy else 'eager', self.runtime, (' bloombits=%d' % bloom_bits()) if self.bloom else '',
            (' ' + self.extra_cfg) if self.extra_cfg else '')

    def ts(self):
        r = self.rng
        return r.choice(self.ts_pool) if r.random() < 0.85 else r.randrange(0, 12)

    def meta(self):
        if not self.metas:
            return '-'
        return self.rng.choice(['-', '-', 'm0', 'm1', 'm1', 'm2'])

    def emit(self, l):
        self.lines.append(l)

    def query_all(self):
        for k in self.keys:
            for q in self.queries:
                if q == 'RW':
                    for m in ('m0', 'm1', 'm2'):
                        self.emit('RW %s %s' % (k, m))
                else:
                    self.emit('%s %s' % (q, k))
        if self.counts:
            self.emit('counts')

    def write(self):
        r = self.rng
        self.seed_ctr += 1
        ln = r.choice([0, 1, 5, 5, 40, 300])
        seed = 0 if ln == 0 else self.seed_ctr
        self.emit('W %s %d %s %d %d' % (r.choice(self.keys), self.ts(), self.meta(), ln, seed))

    def delete(self):
        r = self.rng
        self.emit('D %s %d %s %d' % (r.choice(self.keys), self.ts(), r.choice(['-', '-', 'm1']) if self.metas else '-', r.choice([0, 1])))

    def maintenance(self):
        r = self.rng
        if self.bloom and r.random() < 0.2:
            # filters only: the bloom buffers of closed blobs (level 0) and of the group nodes (level >= 1) are dropped
            self.emit('offload %d %d' % (r.choice([1, 1000000]), r.choice([0, 1, 2])))
            return
        if r.random() < 0.04:
            self.emit('fsync')
            return
        x = r.random()
        if x < 0.3: self.emit('close_active')
        elif x < 0.45: self.emit('create_active')
        elif x < 0.6: self.emit('restore_active')
        elif x < 0.8: self.emit('force_update %s' % r.choice(['always', 'always', 'never', 'some', 'nonempty']))
        else: self.emit('free_excess')

    def background(self):
        self.emit(self.rng.choice(['bg_close', 'bg_create', 'bg_restore']))
        self.emit('quiesce')

    def restart_ops(self):
        r = self.rng
        self.emit('close' if r.random() < 0.8 else 'drop')
        self.emit('open')

    def build(self):
        r = self.rng
        self.emit(self.cfg_line())
        self.emit('open')
        for _ in range(self.nops):
            x = r.random()
            if x < self.restart:
                self.restart_ops()
            elif x < self.restart + self.maint:
                self.maintenance()
            elif x < self.restart + self.maint + self.bg:
                self.background()
            elif x < self.restart + self.maint + self.bg + self.deletes:
                self.delete()
            else:
                self.write()
            self.query_all()
        return '\n'.join(self.lines) + '\n'
