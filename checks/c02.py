"""C02 Version history, metadata lookup, deletion and duplicate-write semantics."""
from .gen_storage import Gen
from . import common as C

RULE = ('as C01 plus metas {none,m0,m1,m2}, several markers per key, both duplicate policies; after every op: '
        'read_all_with_deletion_marker, read_all, read_with for each meta; delete return values and write acks compared '
        'with the model; distinct by (cfg line, multiset of (op, outcome class))')
ASSUMPTIONS = ['entries are compared as (timestamp, deleted flag, meta, data length, data identity) after Entry::load']


def gen(tier, rng):
    n = 220 if tier == 'quick' else 5000
    out = []
    for i in range(n):
        g = Gen(rng, queries=('RD', 'RA', 'RW'), deletes=0.25, nops=rng.randrange(6, 20))
        out.append(('hist%05d' % i, g.build()))
    return out


def oracle(lines, io, spec=None):
    return C.spec_oracle(lines, io, spec, ('RD', 'RA', 'RW'))


classify = C.default_classify
signature = C.ops_signature
