"""C04 Representation transparency: lifecycle and maintenance never change answers."""
from .gen_storage import Gen
from . import common as C

RULE = ('histories with a maintenance op (close/create/restore active, force_update with 4 predicates, free_excess, offload_buffer(needed, level), fsyncdata, '
        'bg_* requests, restart) between data ops with probability 1/2, quiescence after each; every query (read, '
        'contains, read_all_with_deletion_marker, read_with) after every op; writes and deletes after each; '
        'distinct by (cfg line, multiset of (op, outcome class))')
ASSUMPTIONS = ['index dumps complete at the quiescence points forced by hook H3 (explicit events in the model)',
               'offload_buffer/fsyncdata are no-ops of the storage model (filters and durability only): any change of an answer after them is a divergence']


def gen_offload_script(rng):
    """Many closed blobs with one or two keys each under small filter groups (3, 4), bloom filters on, and
    offload_buffer(needed, level) between the closes: group filters lose their buffers, later merges into them fail, and
    the answers for the keys of the OLDER blobs of a group must stay what they were."""
    from .gen_storage import bloom_cfg_hex, bloom_bits
    K = rng.choice([4, 8])
    L = ['cfg K=%d dup=1 group=%d bloom=%s init=%s runtime=%s bloombits=%d' % (K, rng.choice([3, 3, 4, 2]), bloom_cfg_hex(), rng.choice(['eager', 'lazy']), rng.choice(['mt', 'ct']), bloom_bits()), 'open']
    keys = []
    seed = 0
    def queries():
        for k in keys:
            L.append('R %s' % k)
            L.append('C %s' % k)
    for b in range(rng.randrange(5, 10)):
        for _ in range(rng.choice([1, 1, 2])):
            seed += 1
            k = (seed * 7 + 1).to_bytes(K, 'big').hex()
            keys.append(k)
            L.append('W %s %d - 5 %d' % (k, rng.choice([5, 7]), seed))
        L.append('close_active')
        if rng.random() < 0.5:
            L.append('offload %d %d' % (rng.choice([1, 1000000, 18446744073709551615]), rng.choice([0, 1, 1, 2, 100])))
        queries()
    if rng.random() < 0.4:
        L += ['close', 'open']
        queries()
    L.append('close')
    return '\n'.join(L) + '\n'


def gen_longrun_script(rng):
    """One key with 140..300 versions in one blob (more than two 4 KiB blocks of headers in the index file) beside a few
    other keys: the all-versions queries (read_all, read_with) must answer the same while the index is in memory, after
    the blob was closed and its index dumped, and after it was loaded back (restore)."""
    K = 4
    L = ['cfg K=4 dup=1 group=2 bloom=none init=eager runtime=%s' % rng.choice(['mt', 'ct']), 'open']
    big = (7).to_bytes(K, 'big').hex()
    others = [(i).to_bytes(K, 'big').hex() for i in (3, 9, 200)]
    n = rng.choice([140, 200, 300])
    ops = []
    seed = 0
    for _ in range(n):
        seed += 1
        ops.append('W %s %d %s 5 %d' % (big, rng.choice([5, 7, 9]), rng.choice(['-', '-', 'm1']), seed))
    for k in others:
        for _ in range(rng.choice([1, 2, 5])):
            seed += 1
            ops.append('W %s %d - 5 %d' % (k, rng.choice([5, 7]), seed))
    if rng.random() < 0.5:
        ops.append('D %s 6 - 0' % big)
    rng.shuffle(ops)
    L += ops
    qs = []
    for k in [big] + others:
        qs += ['R %s' % k, 'RD %s' % k, 'RW %s m1' % k]
    L += qs
    L += ['close_active', 'quiesce']
    L += qs
    L += [rng.choice(['restore_active', 'nop'])]
    L += qs
    L.append('close')
    return '\n'.join(L) + '\n'


def gen(tier, rng):
    n = 220 if tier == 'quick' else 5000
    out = [('offload%05d' % i, gen_offload_script(rng)) for i in range(n // 8)] + [('longrun%05d' % i, gen_longrun_script(rng)) for i in range(max(3, n // 40))]
    for i in range(n):
        # small filter groups and 3-5 keys spread over the key space: closing blobs merges ranges that grow on both sides
        g = Gen(rng, queries=('R', 'C', 'RD', 'RW'), counts=True, maint=0.45, restart=0.05, bg=0.03, deletes=0.15,
                nops=rng.randrange(8, 26), group=rng.choice([2, 2, 2, 3, 8]), nkeys=rng.choice([3, 4, 5]))
        out.append(('hist%05d' % i, g.build()))
    return out


def oracle(lines, io, spec=None):
    # the counters are queries too: moving an index between memory and disk must not change them
    fails = C.spec_oracle(lines, io, spec, ('R', 'C', 'RD', 'RW', 'counts'))
    # the storage keeps accepting writes and deletes
    restored = False
    for i, (l, o) in enumerate(zip(lines, io)):
        t = l.split()
        if t[0] in ('restore_active', 'bg_restore'):
            restored = True
        if t[0] in ('close', 'drop'):
            restored = False
        if t[0] in ('W', 'D') and ' Err ' in o:
            tag = '[F2] ' if (o.endswith('Err Index') and restored) else ''
            fails.append('%sline %d `%s`: a mutator failed after a maintenance operation: %s' % (tag, i, l, o))
    return fails


classify = C.default_classify
signature = C.ops_signature
