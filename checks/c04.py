"""C04 Representation transparency: lifecycle and maintenance never change answers."""
from .gen_storage import Gen
from . import common as C

RULE = ('histories with a maintenance op (close/create/restore active, force_update with 4 predicates, free_excess, offload_buffer(needed, level), fsyncdata, '
        'bg_* requests, restart) between data ops with probability 1/2, quiescence after each; every query (read, '
        'contains, read_all_with_deletion_marker, read_with) after every op; writes and deletes after each; '
        'distinct by (cfg line, multiset of (op, outcome class))')
ASSUMPTIONS = ['index dumps complete at the quiescence points forced by hook H3 (explicit events in the model)',
               'offload_buffer/fsyncdata are no-ops of the storage model (filters and durability only): any change of an answer after them is a divergence']


def gen(tier, rng):
    n = 220 if tier == 'quick' else 5000
    out = []
    for i in range(n):
        # small filter groups and 3-5 keys spread over the key space: closing blobs merges ranges that grow on both sides
        g = Gen(rng, queries=('R', 'C', 'RD', 'RW'), maint=0.45, restart=0.05, bg=0.03, deletes=0.15,
                nops=rng.randrange(8, 26), group=rng.choice([2, 2, 2, 3, 8]), nkeys=rng.choice([3, 4, 5]))
        out.append(('hist%05d' % i, g.build()))
    return out


def oracle(lines, io, spec=None):
    fails = C.spec_oracle(lines, io, spec, ('R', 'C', 'RD', 'RW'))
    # the storage keeps accepting writes and deletes
    restored = False
    for i, (l, o) in enumerate(zip(lines, io)):
        t = l.split()
        if t[0] in ('restore_active', 'bg_restore'):
            restored = True
        if t[0] in ('close', 'drop'):
            restored = False
        if t[0] in ('W', 'D') and ' Err ' in o:
            tag = '[F2] ' if (o.endswith('Err Index') and restored) else ''
            fails.append('%sline %d `%s`: a mutator failed after a maintenance operation: %s' % (tag, i, l, o))
    return fails


classify = C.default_classify
signature = C.ops_signature
