"""C13 Background maintenance stays alive: rotation continues and close terminates."""
from .gen_storage import Gen, key_hex
from . import common as C

TIMEOUT = 1200
RULE = ('every *_in_background request in every active-blob state (active / none with closed blobs / none at all), '
        'sequences of up to 4 requests mixed with data operations and force_update with 5 predicates (one of them panics); then an overflow '
        'of the active blob past max_data_in_blob (writes separated by sleeps longer than the 200 ms debounce), a dump '
        'request, and close; checked: worker alive at every quiescence point, next_blob_id grows on overflow, close '
        'returns; spaced stream: dump requests (close / free_excess) each issued after the previous dump task finished with '
        'the worker idle and no message in between (no quiescence probe): the index file of every closed blob must appear; '
        'deferred stream: deletes in a closed blob spaced closer than deferred_min_time, then silence in real time: the '
        'postponed re-dump of its index must still happen; '
        'distinct by (multiset of (op, outcome class))')
ASSUMPTIONS = ['real time only enters through the debounce interval: scripts sleep 250 ms before each overflow write; '
               'tokio task scheduling is not modelled']


def gen_script(rng):
    K = 4
    maxrec = rng.choice([2, 3])
    L = ['cfg K=4 dup=1 group=%d bloom=none init=%s runtime=%s maxrec=%d' % (
        rng.choice([2, 8]), rng.choice(['eager', 'lazy']), rng.choice(['mt', 'ct']), maxrec), 'open']
    keys = [key_hex(K, i) for i in range(3)]
    seed = [0]
    def w():
        seed[0] += 1
        return 'W %s %d - 5 %d' % (rng.choice(keys), rng.choice([5, 7, 9]), seed[0])
    # put the storage into one of the states
    state = rng.choice(['active', 'noactive_closed', 'noactive_none', 'active_closed'])
    if state == 'noactive_closed':
        L += [w(), 'close_active']
    elif state == 'noactive_none':
        L += ['close_active', 'restore_active', 'close_active'] if rng.random() < 0.3 else ['close_active']
    elif state == 'active_closed':
        L += [w(), 'close_active', 'create_active']
    L.append('counts')
    first = True
    for _ in range(rng.randrange(1, 5)):
        x = rng.random()
        if first and state.startswith('noactive') and rng.random() < 0.35:
            x = 0.6      # a forced update while there is no active blob
        first = False
        if x < 0.55:
            L.append(rng.choice(['bg_close', 'bg_create', 'bg_restore']))
        elif x < 0.7:
            # (`panics`: the predicate is code of the caller; when it fails the request is dropped -- F38)
            L.append('force_update %s' % rng.choice(['always', 'always', 'never', 'some', 'nonempty', 'panics']))
        elif x < 0.8:
            L.append('D %s 7 - %d' % (rng.choice(keys), rng.choice([0, 1])))
        elif x < 0.9:
            L.append('free_excess')
        else:
            L.append(rng.choice(['close_active', 'create_active', 'restore_active']))
        L.append('quiesce')
        L.append('counts')
    # overflow: enough writes to exceed the record limit at least once, each after the debounce interval
    L.append('#OVERFLOW')
    L.append('counts')
    for _ in range(maxrec + 2):
        L.append('sleep 250')
        L.append(w())
        L.append('quiesce')
    L.append('counts')
    L.append('free_excess')
    L.append('quiesce')
    L.append('ls')
    L.append('close')
    return '\n'.join(L) + '\n'


def gen_spaced_script(rng):
    """Dump requests spaced so that the previous dump task has FINISHED while the worker was idle (no message in
    between, in particular no quiescence probe): every requested index dump must still complete. `nop dumped=i`
    marks the points where the index file of blob i must exist in the listing that follows."""
    L = ['cfg K=4 dup=1 group=%d bloom=none init=eager runtime=%s' % (rng.choice([2, 8]), rng.choice(['mt', 'ct'])), 'open', 'autoquiesce 0']
    seed = 0
    bid = 0
    for rnd in range(rng.choice([2, 3, 4])):
        for _ in range(rng.randrange(1, 3)):
            seed += 1
            L.append('W %s 5 - 5 %d' % ((seed % 3 + 1).to_bytes(4, 'big').hex(), seed))
        how = rng.choice(['close_active', 'close_active', 'free_excess'])
        if how == 'close_active':
            L += ['close_active', 'sleep %d' % rng.choice([150, 300]), 'nop dumped=%d' % bid, 'ls', 'create_active']
            bid += 1
        else:
            L += ['free_excess', 'sleep 150', 'ls']
    L += ['autoquiesce 1', 'quiesce', 'counts', 'close']
    return '\n'.join(L) + '\n'


def gen_deferred_script(rng):
    """The deferred index dump after deletes in closed blobs, in REAL time (no quiescence probe, which would force
    it): deletes spaced closer than deferred_min_time, then silence; the re-dump of the closed blob's index must
    still happen (its index file grows by the deletion markers). `nop redump=<id> <minimum growth>` marks the
    listing that must show it, relative to the listing after the blob was closed."""
    K = 4
    dmin = rng.choice([300, 400])
    L = ['cfg K=4 dup=1 group=%d bloom=none init=eager runtime=%s defer=%d:%d' % (rng.choice([2, 8]), rng.choice(['mt', 'ct']), dmin, rng.choice([3000, 20000])), 'open']
    nk = rng.choice([3, 4, 5])
    for i in range(nk):
        L.append('W %s 5 - 5 %d' % ((i + 1).to_bytes(K, 'big').hex(), i + 1))
    L += ['close_active', 'quiesce', 'nop base', 'ls', 'create_active', 'autoquiesce 0']
    nd = rng.choice([1, 2, 2, 3])
    for j in range(nd):
        L.append('D %s %d - 1' % ((j + 1).to_bytes(K, 'big').hex(), 50 + j))
        if j < nd - 1:
            L.append('sleep %d' % rng.choice([dmin // 3, dmin // 2]))
    if rng.random() < 0.3:
        L += ['W %s 6 - 5 99' % (9).to_bytes(K, 'big').hex()]
    L.append('sleep %d' % (dmin * 3 + 400))
    L += ['nop redump=0 %d' % (nd * (57 + K)), 'ls', 'autoquiesce 1', 'quiesce', 'counts', 'close']
    return '\n'.join(L) + '\n'


def gen_busy_deferred_script(rng):
    """Deletes in a closed blob keep arriving more often than deferred_min_time for longer than deferred_max_time: the
    re-dump of its index must happen about max after the FIRST of them, while the stream is still going on (the maximum
    defer time bounds the postponement; a dump that is re-postponed by every event never happens under load)."""
    K = 4
    dmin, dmax = rng.choice([(150, 700), (200, 800)])
    L = ['cfg K=4 dup=1 group=%d bloom=none init=eager runtime=%s defer=%d:%d' % (rng.choice([2, 8]), rng.choice(['mt', 'ct']), dmin, dmax), 'open']
    nk = 30
    for i in range(nk):
        L.append('W %s 5 - 5 %d' % ((i + 1).to_bytes(K, 'big').hex(), i + 1))
    L += ['close_active', 'quiesce', 'nop base', 'ls', 'create_active', 'autoquiesce 0']
    gap = dmin // 3
    n_before = (dmax + 600) // gap + 1
    for j in range(min(n_before, nk - 3)):
        L.append('D %s %d - 1' % ((j + 1).to_bytes(K, 'big').hex(), 50 + j))
        L.append('sleep %d' % gap)
    L += ['nop redump=0 %d' % (57 + K), 'ls']
    for j in range(min(n_before, nk - 3), nk):
        L.append('D %s %d - 1' % ((j + 1).to_bytes(K, 'big').hex(), 50 + j))
        L.append('sleep %d' % gap)
    L += ['autoquiesce 1', 'quiesce', 'counts', 'close']
    return '\n'.join(L) + '\n'


def gen_quantum_script(rng):
    """One delete reaches every closed blob; the index dump task that follows is slowed down (failpoint delays on the
    blob syncs of some of the dumps) so that it needs several of its 200 ms time quanta: EVERY blob's index must have been
    dumped again when the task is done -- also the blob at which a quantum ended."""
    K = 4
    nb = rng.choice([4, 6, 8])
    L = ['cfg K=4 dup=1 group=%d bloom=none init=eager runtime=%s defer=5:10 nomodel=1' % (rng.choice([2, 8]), rng.choice(['mt', 'ct'])), 'open']
    k1 = (1).to_bytes(K, 'big').hex()
    seed = 0
    for b in range(nb):
        seed += 1
        L.append('W %s 5 - 5 %d' % (k1, seed))
        seed += 1
        L.append('W %s 5 - 5 %d' % ((b + 2).to_bytes(K, 'big').hex(), seed))
        L.append('close_active')
    L += ['quiesce', 'nop base', 'ls', 'create_active', 'autoquiesce 0']
    for n in sorted(rng.sample(range(nb), rng.choice([1, 2]))):
        L.append('fail sync .blob %d delay:%d' % (n, rng.choice([250, 300])))
    L.append('D %s 50 - 1' % k1)
    L.append('sleep %d' % (1500 + 400 * nb // 2))
    L.append('clearfail')
    for i in range(nb):
        L += ['nop redump=%d %d' % (i, 57 + K), 'ls']
    L += ['autoquiesce 1', 'quiesce', 'counts', 'close']
    return '\n'.join(L) + '\n'


def gen_close_pending_script(rng):
    """close() while an index dump is deferred far into the future (the default times are 60 s / 180 s): the worker has to
    stop when its channel is closed, not when the deferred dump comes due."""
    K = 4
    L = ['cfg K=4 dup=1 group=%d bloom=none init=eager runtime=%s defer=%s nomodel=1' % (rng.choice([2, 8]), rng.choice(['mt', 'ct']), rng.choice(['60000:180000', '30000:max', '40000:40000'])), 'open']
    for i in range(rng.choice([1, 3])):
        L.append('W %s 5 - 5 %d' % ((i + 1).to_bytes(K, 'big').hex(), i + 1))
    L += ['close_active', 'create_active', 'autoquiesce 0']
    L.append('D %s 9 - 1' % (1).to_bytes(K, 'big').hex())
    if rng.random() < 0.5:
        L.append('sleep %d' % rng.choice([10, 200]))
    L.append('close')
    return '\n'.join(L) + '\n'


def gen_rotation_script(rng):
    """Rotation after a rotation request that came to nothing: the switch asked for by an overflowing write FAILS (the
    file of the next blob cannot be created) or has become MOOT when the worker gets to it (the full blob was closed by
    the client in the meantime). Filling the next active blob must still lead to a switch."""
    maxrec = rng.choice([2, 3])
    L = ['cfg K=4 dup=1 group=%d bloom=none init=eager runtime=%s maxrec=%d nomodel=1' % (rng.choice([2, 8]), rng.choice(['mt', 'ct']), maxrec), 'open']
    keys = [key_hex(4, i) for i in range(3)]
    seed = [0]
    def w():
        seed[0] += 1
        return 'W %s %d - 5 %d' % (rng.choice(keys), rng.choice([5, 7, 9]), seed[0])
    for _ in range(maxrec):
        L.append(w())
    mode = rng.choice(['failed', 'failed', 'moot'])
    if mode == 'failed':
        L.append('fail %s .blob 0 %s' % (rng.choice(['create', 'create', 'append', 'sync']), rng.choice(['EIO', 'ENOSPC'])))
        for _ in range(rng.choice([1, 2])):
            L.append('sleep 250')
            L.append(w())
            L.append('quiesce')
        L.append('clearfail')
    else:
        L.append('autoquiesce 0')
        L.append('sleep 250')
        L.append(w())                 # asks for the switch ...
        L.append('close_active')      # ... and takes the full blob away before the worker gets to it
        L.append('autoquiesce 1')
        L.append('quiesce')
        L.append(rng.choice(['create_active', 'nop']))
    L.append('quiesce')
    L.append('#OVERFLOW')
    L.append('counts')
    for _ in range(2 * maxrec + 2):
        L.append('sleep 250')
        L.append(w())
        L.append('quiesce')
    L.append('counts')
    L.append('close')
    return '\n'.join(L) + '\n'


def gen(tier, rng):
    n = 96 if tier == 'quick' else 1500
    return [('bg%05d' % i, gen_script(rng)) for i in range(n)] + [('spaced%05d' % i, gen_spaced_script(rng)) for i in range(n // 4)] + \
           [('deferred%05d' % i, gen_deferred_script(rng)) for i in range(n // 6)] + [('rotation%05d' % i, gen_rotation_script(rng)) for i in range(n // 4)] + [('busy%05d' % i, gen_busy_deferred_script(rng)) for i in range(n // 10)] + [('quantum%05d' % i, gen_quantum_script(rng)) for i in range(n // 10)] + [('closepending%05d' % i, gen_close_pending_script(rng)) for i in range(n // 10)]


def next_of(line):
    for kv in line.split()[1:]:
        if kv.startswith('next='):
            return int(kv[5:])
    return None


def oracle(lines, io, spec=None):
    fails = []
    bad_bg = False
    # was an inapplicable background request made? (state tracked from the implementation's own counters)
    has_active = None
    closed_present = None
    base_ls = None
    for i, (l, o) in enumerate(zip(lines, io)):
        t = l.split()[0]
        if t == 'open' and o == 'open ok' and has_active is None:
            # a fresh directory: eager init creates the active blob, lazy init leaves none
            has_active = 'init=eager' in lines[0]
            closed_present = False
        if t == 'counts' and o.startswith('counts'):
            kv = dict(x.split('=') for x in o.split()[1:])
            has_active = kv['has_active'] == '1'
            det = [x for x in kv['detailed'].strip('[]').split(',') if x]
            closed_present = len(det) - (1 if has_active else 0) > 0
        if t in ('bg_close', 'bg_create', 'bg_restore') and has_active is not None:
            inapplicable = (t == 'bg_create' and has_active) or (t == 'bg_close' and not has_active) or \
                           (t == 'bg_restore' and (has_active or not closed_present))
            bad_bg = bad_bg or inapplicable
        if l == 'nop base' and i + 1 < len(io) and lines[i + 1] == 'ls':
            base_ls = io[i + 1]
        if t.startswith('nop') and 'redump=' in l and i + 1 < len(io) and lines[i + 1] == 'ls':
            import re as _re
            bid = l.split('redump=')[1].split()[0]
            grow = int(l.split()[-1])
            m0 = _re.search(r't\.%s\.index:(\d+)' % bid, base_ls or '')
            m1 = _re.search(r't\.%s\.index:(\d+)' % bid, io[i + 1])
            if m0 and (not m1 or int(m1.group(1)) < int(m0.group(1)) + grow):
                fails.append('line %d: the deferred index dump of closed blob %s did not happen (index file %s bytes after closing, %s bytes %s after the last delete; worker idle, no error)' % (
                    i, bid, m0.group(1), m1.group(1) if m1 else 'absent', 'long'))
        if t.startswith('nop') and 'dumped=' in l and i + 1 < len(io) and lines[i + 1] == 'ls':
            bid = l.split('dumped=')[1]
            if ('t.%s.index:' % bid) not in io[i + 1]:
                fails.append('line %d: the index dump requested by closing blob %s did not complete (worker idle, no error): %s' % (i, bid, io[i + 1][:200]))
        if t == 'quiesce' and o == 'quiesce dead':
            # F1 is the class "an INAPPLICABLE *_in_background request kills the worker"; a death without one is not it
            tag = '[F1] ' if bad_bg else ''
            fails.append('%sline %d: background maintenance worker is dead after `%s`' % (tag, i, ' ; '.join(lines[max(0, i - 3):i])))
            break
        if o.endswith('Timeout'):
            fails.append('line %d `%s`: operation did not return' % (i, l))
    # overflow must switch blobs: next_blob_id grows between the two `counts` around the overflow phase
    cs = [i for i, l in enumerate(lines) if l == 'counts']
    if len(cs) >= 2 and not any('worker is dead' in f for f in fails):
        a, b = cs[-2], cs[-1]
        if a < len(io) and b < len(io) and io[a].startswith('counts') and io[b].startswith('counts'):
            if next_of(io[b]) <= next_of(io[a]):
                tag = '[F2] ' if any(o == 'W Err Index' for o in io[a:b]) else ''
                fails.append(tag + 'overflow of the active blob did not lead to a switch: next_blob_id %s -> %s' % (next_of(io[a]), next_of(io[b])))
    if lines[-1] == 'close' and (len(io) < len(lines) or io[len(lines) - 1] != 'close ok'):
        fails.append('close did not return ok: %s' % (io[len(lines) - 1] if len(io) >= len(lines) else '<missing>'))
    return fails


classify = C.default_classify
signature = C.ops_signature
