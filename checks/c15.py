"""C15 Accounting: counts, ids and sizes always match the operation history."""
import itertools, re
from .gen_storage import Gen
from . import common as C

RULE = ('storage histories (as C01/C04: deletes into closed blobs, manual close/restore/create, force_update, restarts '
        'with and without close) with `counts`, `disk` and a directory listing after every op; counters compared with '
        'the model and with the Coq spec_counts; disk_used compared with the sum of file sizes in the directory; '
        'quarantine stream: restarts with some or all blob files unreadable, eager/lazy init: corrupted_blobs_count = files in the '
        'corrupted directory, blobs_count = blob files in the work directory, next_blob_id above every id ever seen; '
        'distinct by (cfg line, multiset of (op, outcome class))')
ASSUMPTIONS = ['memory estimates are not part of the property']


def gen(tier, rng):
    n = 200 if tier == 'quick' else 4000
    out = []
    for i in range(n):
        g = Gen(rng, queries=(), counts=False, maint=0.35, restart=0.08, deletes=0.2, nops=rng.randrange(6, 22))
        text = g.build()
        lines = []
        for l in text.strip().split('\n'):
            lines.append(l)
            if l.split()[0] not in ('cfg', 'close', 'drop'):
                lines += ['counts', 'disk', 'ls']
        out.append(('acct%05d' % i, '\n'.join(lines) + '\n'))
    for i in range(n // 4):
        out.append(('quar%05d' % i, gen_quarantine_script(rng)))
    out += [('calledoff%05d' % i, gen_called_off_switch_script(rng)) for i in range(max(4, len(out) // 12))]
    return out


def gen_called_off_switch_script(rng):
    """A switch of the full active blob that is called off (the client closes the blob before the worker gets to the
    request) must leave no trace: no blob file the storage does not know, no burnt id, disk_used = the directory."""
    maxrec = rng.choice([2, 3])
    L = ['cfg K=4 dup=1 group=2 bloom=none init=eager runtime=%s maxrec=%d nomodel=1' % (rng.choice(['mt', 'ct']), maxrec), 'open', 'nop files']
    seed = 0
    def w():
        nonlocal seed
        seed += 1
        L.append('W %s 5 - 5 %d' % ((seed % 3 + 1).to_bytes(4, 'big').hex(), seed))
    for _ in range(maxrec - 1):
        w()
    L += ['autoquiesce 0', 'sleep 250']
    w()                          # fills the blob and asks the worker for the switch ...
    L.append('close_active')     # ... which finds no active blob any more
    L += ['autoquiesce 1', 'quiesce', 'counts', 'ls', 'disk', 'ls']
    L.append(rng.choice(['create_active', 'nop']))
    for _ in range(rng.randrange(1, 4)):
        w()
    L += ['quiesce', 'counts', 'ls', 'disk', 'ls', 'close', 'open', 'counts', 'ls', 'disk', 'ls', 'close']
    return '\n'.join(L) + '\n'


def gen_quarantine_script(rng):
    """corrupted_blobs_count / blobs_count / next_blob_id across restarts in which some or ALL blob files are
    unreadable (cut inside the header or the first record), eager and lazy init, with and without new data in between:
    the counter must equal the number of blob files in the corrupted directory at every start."""
    K = 4
    # with its index file removed first, a damaged blob is inside the crash model (Storage/Model.v OCut): the model
    # predicts every counter after the restart; a blob damaged below what its index file describes is not (wildcards)
    modelled = rng.random() < 0.7
    # the name of the quarantine directory is configuration (listings print it as `corrupted/` whatever it is)
    # with `ignore_corrupted` an unreadable blob stays where it is and is not loaded: its id is taken all the same
    ign = rng.random() < 0.25
    L = ['cfg K=4 dup=1 group=2 bloom=none init=%s runtime=%s%s%s' % (rng.choice(['eager', 'lazy']), rng.choice(['mt', 'ct']), rng.choice(['', '', ' corrdir=bad.blobs', ' corrdir=q']), ' ignore=1' if ign else ''), 'open']
    if ign:
        L.append('nop ignore')
    seed = 0
    nb = rng.choice([1, 1, 2, 3])
    for b in range(nb):
        for _ in range(rng.randrange(1, 3)):
            seed += 1
            L.append('W %s 5 - %d %d' % ((seed % 5 + 1).to_bytes(K, 'big').hex(), rng.choice([5, 40]), seed))
        if b < nb - 1:
            L.append('close_active')
    L += ['counts', 'ls', 'close']
    ids = list(range(nb))
    for rnd in range(rng.choice([1, 2, 2, 3])):
        victims = ids if rng.random() < 0.5 else rng.sample(ids, rng.randrange(0, len(ids) + 1)) if ids else []
        for v in victims:
            if modelled:
                L.append('rmindex %d' % v)
            L.append('trunc blob %d %s' % (v, rng.choice(['0', '10', '19', '25', '-3'])))
        L.append('cfgnext init=%s' % rng.choice(['eager', 'lazy', 'lazy']))
        L += ['open', 'counts', 'ls', 'disk', 'ls']      # a quarantined blob takes its index file with it: disk_used = what is left
        if rng.random() < 0.4:
            seed += 1
            L.append('W %s 6 - 5 %d' % ((seed % 5 + 1).to_bytes(K, 'big').hex(), seed))
            L += ['counts', 'ls']
        L.append('close')
        ids = list(range(nb + rnd + 2))
    L += ['cfgnext init=eager', 'open', 'counts', 'ls', 'disk', 'ls']
    return '\n'.join(L) + '\n'


def tagger(lines, io, i, want, got):
    """counts mismatch: F3 if only the slot-derived figures differ and a restore succeeded earlier in the session"""
    if not lines[i].startswith('counts'):
        return ''
    def parse(x):
        return dict(kv.split('=') for kv in x.split()[1:])
    try:
        w, g = parse(want), parse(got)
    except Exception:
        return ''
    restored = False
    for j in range(i):
        t = lines[j].split()[0]
        if t in ('restore_active', 'bg_restore') and ('ok' in io[j] or 'sent' in io[j]):
            restored = True
        if t in ('close', 'drop'):
            restored = False
    same_but_slots = all(w[k] == g[k] for k in ('records', 'active', 'next', 'corrupted', 'has_active'))
    wd, gd = w['detailed'].strip('[]').split(','), g['detailed'].strip('[]').split(',')
    det_counts_same = [x.split(':')[-1] for x in wd] == [x.split(':')[-1] for x in gd]
    closed_same = wd[:-1] == gd[:-1] if g['has_active'] == '1' else wd == gd
    if restored and same_but_slots and det_counts_same and closed_same:
        return '[F3] '
    return ''


def oracle(lines, io, spec=None):
    fails = C.spec_oracle(lines, io, spec, ('counts',), tagger)
    if any(l.startswith('trunc blob') or l == 'nop files' for l in lines):
        seen_ids = set()
        for i, l in enumerate(lines):
            if l == 'counts' and i + 1 < len(io) and lines[i + 1] == 'ls' and io[i].startswith('counts ') and io[i + 1].startswith('ls'):
                c = dict(kv.split('=') for kv in io[i].split()[1:])
                names = [x.rsplit(':', 1)[0] for x in io[i + 1].split()[1:]]
                quar = [n for n in names if n.startswith('corrupted/') and n.endswith('.blob')]
                work = [n for n in names if '/' not in n and n.endswith('.blob')]
                for n in quar + work:
                    seen_ids.add(int(n.split('.')[-2]))
                if int(c['corrupted']) != len(quar):
                    fails.append('line %d: corrupted_blobs_count = %s but %d blob files are in the corrupted directory (%s)' % (i, c['corrupted'], len(quar), io[i + 1][:160]))
                if int(c['blobs']) != len(work) and 'nop ignore' not in lines:
                    fails.append('line %d: blobs_count = %s but %d blob files are in the work directory' % (i, c['blobs'], len(work)))
                if seen_ids and int(c['next']) <= max(seen_ids):
                    fails.append('line %d: next_blob_id = %s is not above every id ever present (%d)' % (i, c['next'], max(seen_ids)))
    # disk_used = sum of the sizes of the blob and index files in the work dir
    for i, l in enumerate(lines):
        if l == 'disk' and i + 1 < len(io) and lines[i + 1] == 'ls' and io[i].startswith('disk ') and io[i + 1].startswith('ls') and 'nop ignore' not in lines:
            try:
                used = int(io[i].split()[1])
            except ValueError:
                continue
            files = [x.rsplit(':', 1) for x in io[i + 1].split()[1:]]
            top = [(n, int(s)) for n, s in files if '/' not in n and (n.endswith('.blob') or n.endswith('.index'))]
            total = sum(s for _, s in top)
            if used != total:
                tag = ''        # (the class F14 that used to be recognised here is repaired)
                fails.append('%sline %d: disk_used reports %d but the files in the directory occupy %d (%s)' % (tag, i, used, total, io[i + 1][:160]))
    return fails


classify = C.default_classify
signature = C.ops_signature
