"""C15 Accounting: counts, ids and sizes always match the operation history."""
import itertools, re
from .gen_storage import Gen
from . import common as C

RULE = ('storage histories (as C01/C04: deletes into closed blobs, manual close/restore/create, force_update, restarts '
        'with and without close) with `counts`, `disk` and a directory listing after every op; counters compared with '
        'the model and with the Coq spec_counts; disk_used compared with the sum of file sizes in the directory; '
        'distinct by (cfg line, multiset of (op, outcome class))')
ASSUMPTIONS = ['memory estimates are not part of the property', 'quarantine accounting (corrupted_blobs_count after damage) is exercised by C06']


def gen(tier, rng):
    n = 200 if tier == 'quick' else 4000
    out = []
    for i in range(n):
        g = Gen(rng, queries=(), counts=False, maint=0.35, restart=0.08, deletes=0.2, nops=rng.randrange(6, 22))
        text = g.build()
        lines = []
        for l in text.strip().split('\n'):
            lines.append(l)
            if l.split()[0] not in ('cfg', 'close', 'drop'):
                lines += ['counts', 'disk', 'ls']
        out.append(('acct%05d' % i, '\n'.join(lines) + '\n'))
    return out


def tagger(lines, io, i, want, got):
    """counts mismatch: F3 if only the slot-derived figures differ and a restore succeeded earlier in the session"""
    if not lines[i].startswith('counts'):
        return ''
    def parse(x):
        return dict(kv.split('=') for kv in x.split()[1:])
    try:
        w, g = parse(want), parse(got)
    except Exception:
        return ''
    restored = False
    for j in range(i):
        t = lines[j].split()[0]
        if t in ('restore_active', 'bg_restore') and ('ok' in io[j] or 'sent' in io[j]):
            restored = True
        if t in ('close', 'drop'):
            restored = False
    same_but_slots = all(w[k] == g[k] for k in ('records', 'active', 'next', 'corrupted', 'has_active'))
    wd, gd = w['detailed'].strip('[]').split(','), g['detailed'].strip('[]').split(',')
    det_counts_same = [x.split(':')[-1] for x in wd] == [x.split(':')[-1] for x in gd]
    closed_same = wd[:-1] == gd[:-1] if g['has_active'] == '1' else wd == gd
    if restored and same_but_slots and det_counts_same and closed_same:
        return '[F3] '
    return ''


def oracle(lines, io, spec=None):
    fails = C.spec_oracle(lines, io, spec, ('counts',), tagger)
    # disk_used = sum of the sizes of the blob and index files in the work dir
    for i, l in enumerate(lines):
        if l == 'disk' and i + 1 < len(io) and lines[i + 1] == 'ls' and io[i].startswith('disk ') and io[i + 1].startswith('ls'):
            try:
                used = int(io[i].split()[1])
            except ValueError:
                continue
            files = [x.rsplit(':', 1) for x in io[i + 1].split()[1:]]
            top = [(n, int(s)) for n, s in files if '/' not in n and (n.endswith('.blob') or n.endswith('.index'))]
            total = sum(s for _, s in top)
            if used != total:
                idx = [s for n, s in top if n.endswith('.index')]
                tag = ''
                if used < total:
                    for r in range(1, len(idx) + 1):
                        if any(sum(c) == total - used for c in itertools.combinations(idx, r)):
                            tag = '[F14] '
                            break
                fails.append('%sline %d: disk_used reports %d but the files in the directory occupy %d (%s)' % (tag, i, used, total, io[i + 1][:160]))
    return fails


classify = C.default_classify
signature = C.ops_signature
