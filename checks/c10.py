"""C10 Filters never give a false negative. Script generators + implementation-side oracle."""
import math, struct, random

RULE = ('bloom/hier/storage scripts from one PRNG: bit counts {0,1,63,64,65,100,1000,64(max=0)}, 0-4 hashers, '
        'key lengths 1..40 (all aHash length branches), adds, probes of every stored key + absent keys, to_raw, '
        'file probes, off-load, merge, clear; hier stream: HierarchicalFilters<_, CombinedFilter, _> driven directly '
        '(group 2..8, children with equal / disagreeing / absent / zero-bit blooms, push/pop/remove, '
        'offload(needed in {0,1,8,..,max}, level 0..2) with its early returns; forward+reverse iteration, fast and async '
        'check, root filter bytes and memory accounting compared with the Coq model Filter/Hier.v after every step); '
        'a case is distinct by (config, op-kind multiset, outcome multiset)')
ASSUMPTIONS = ['hash family is a parameter of the theorems; the aHash fallback model (Base/AHash.v) is tied to the '
               'crate by byte-exact comparison of Bloom::to_raw after adds',
               'float formula choosing the bit count is an input of the model (computed by the generator, '
               'checked against the implementation\'s own answer `bits n`)']


def bits_from_formula(elements, hashers, maxbits, fpr):
    if hashers == 0:
        return 0
    if maxbits == 0:
        return 64
    k = hashers
    n = float(elements)
    bits = int(n * k / math.log(2.0))
    try:
        m = -k * n / math.log(1.0 - fpr ** (1.0 / k))
        m = int(m) if m == m and m < 2**63 else (0 if m != m else 2**63)
        if m < 0:
            m = 0
    except (ValueError, ZeroDivisionError):
        m = 0
    return max(bits, min(maxbits, m))


# configs (elements, hashers, maxbits, step, fpr) with known small bit counts
CONFIGS = [
    (10, 0, 100, 4, 0.001),     # 0 hashers -> 0 bits
    (10, 2, 0, 4, 0.001),       # max 0 -> 64 bits
    (1, 1, 1, 4, 0.001),        # 1 bit
    (10, 2, 63, 4, 0.001),
    (10, 2, 64, 4, 0.001),
    (10, 2, 65, 4, 0.001),
    (10, 2, 100, 4, 0.001),
    (10, 3, 100, 4, 0.001),
    (10, 1, 100, 4, 0.001),
    (10, 4, 127, 4, 0.001),
    (100, 2, 1000, 4, 0.001),
    (10, 2, 128, 4, 0.001),
    (10, 2, 129, 4, 0.001),
]


def cfg_hex(c):
    return struct.pack('<QQQQd', c[0], c[1], c[2], c[3], c[4]).hex()


def rand_key(rng, length=None):
    if length is None:
        length = rng.choice([1, 2, 3, 4, 5, 7, 8, 9, 12, 15, 16, 17, 20, 31, 32, 33, 40])
    style = rng.random()
    if style < 0.2:
        return bytes([rng.choice([0, 255])] * length).hex()
    if style < 0.4:
        return bytes([(rng.randrange(256) if i == length - 1 else 0) for i in range(length)]).hex()
    return bytes(rng.randrange(256) for _ in range(length)).hex()


def gen_bloom_script(rng):
    L = ['cfg K=4']
    c0 = rng.choice(CONFIGS)
    c1 = c0 if rng.random() < 0.7 else rng.choice(CONFIGS)
    cfgs = {'b0': c0, 'b1': c1}
    for b in ('b0', 'b1'):
        c = cfgs[b]
        fb = bits_from_formula(c[0], c[1], c[2], c[4])
        if fb > 64 and c[1] > 0 and rng.random() < 0.3:
            # restored from a saved form whose bit count is not what today's formula gives (older versions sized the
            # buffer iteratively, within 1 % of the formula): the authoritative length is the saved one
            L.append('bloom newbits %s %s %d %d' % (b, cfg_hex(c), c[1], max(65, fb + rng.choice([-1, 1]) * rng.randrange(1, max(2, fb // 100)))))
        else:
            L.append('bloom new %s %s %d %d' % (b, cfg_hex(c), c[1], fb))
    keys = {'b0': [], 'b1': []}
    allkeys = []
    nops = rng.randrange(8, 40)
    for _ in range(nops):
        r = rng.random()
        b = rng.choice(['b0', 'b1'])
        if r < 0.35:
            k = rand_key(rng)
            L.append('bloom add %s %s' % (b, k)); keys[b].append(k); allkeys.append(k)
        elif r < 0.55:
            k = rng.choice(allkeys) if allkeys and rng.random() < 0.8 else rand_key(rng)
            L.append('bloom probe %s %s' % (b, k))
        elif r < 0.65:
            L.append('bloom raw %s' % b)
            for k in (keys[b][-6:] + [rand_key(rng)]):
                L.append('bloom fileprobe %s %s %s' % (b, b, k))
        elif r < 0.72:
            L.append('bloom raw %s' % b)
            L.append('bloom offload %s' % b)
            for k in keys[b][-8:] + [rand_key(rng), rand_key(rng)]:
                L.append('bloom fileprobe %s %s %s' % (b, b, k))
                L.append('bloom probe %s %s' % (b, k))
        elif r < 0.85:
            src = 'b1' if b == 'b0' else 'b0'
            L.append('bloom merge %s %s' % (b, src))
            for k in keys[src][-5:] + keys[b][-5:]:
                L.append('bloom probe %s %s' % (b, k))
        elif r < 0.9:
            L.append('bloom clear %s' % b)
        else:
            for k in keys[b]:
                L.append('bloom probe %s %s' % (b, k))
    for b in ('b0', 'b1'):
        for k in keys[b]:
            L.append('bloom probe %s %s' % (b, k))
        L.append('bloom raw %s' % b)
    return '\n'.join(L) + '\n'


def gen_storage_script(rng):
    """Storage-level: real blobs, hierarchy of merged filters (group 2/3/4), off-loading at levels 0..2,
    restarts (filters re-read from index files), deletes into closed blobs; every stored key and a few
    absent keys probed through check_filters / check_filter / read after every step."""
    from .gen_storage import Gen, key_hex, bloom_cfg_hex
    K = rng.choice([1, 4, 8, 32])
    g = Gen(rng, K=K, dup=1, nkeys=rng.choice([3, 4, 5]), group=rng.choice([2, 2, 3, 4]), bloom=True,
            queries=(), maint=0.0, restart=0.0, deletes=0.0, metas=False, nops=1)
    L = [g.cfg_line(), 'open']
    keys = g.keys
    absent = [key_hex(K, 4) if len(keys) < 5 else keys[0]]
    def probes():
        for k in keys + absent:
            L.append('CF %s' % k); L.append('CFS %s' % k); L.append('GF %s' % k); L.append('R %s' % k)
    seed = 0
    for step in range(rng.randrange(8, 30)):
        x = rng.random()
        if x < 0.35:
            seed += 1
            L.append('W %s %d - 5 %d' % (rng.choice(keys), rng.choice([5, 7, 9]), seed))
        elif x < 0.45:
            L.append('D %s %d - %d' % (rng.choice(keys), rng.choice([5, 7, 9]), rng.choice([0, 1])))
        elif x < 0.70:
            L.append(rng.choice(['close_active', 'close_active', 'force_update always', 'create_active']))
        elif x < 0.78:
            L.append('restore_active')
        elif x < 0.92:
            L.append('offload %d %d' % (rng.choice([1, 64, 100000]), rng.choice([0, 1, 2])))
        else:
            L.append('close'); L.append('open')
        probes()
    return '\n'.join(L) + '\n'


def gen_hier_script(rng):
    """HierarchicalFilters<ArrayKey<K>, CombinedFilter, Child> driven directly: push (children with bloom
    configs that may disagree, none, zero bits), pop, remove, offload(needed, level) with early returns,
    and after every step: forward / reverse iteration, fast and async check for member and absent keys,
    the root filter and the memory accounting."""
    K = rng.choice([1, 2, 4, 8])
    group = rng.choice([2, 2, 3, 4, 5, 8])
    L = ['cfg K=%d dup=1 group=%d bloom=none init=eager runtime=ct' % (K, group), 'hier new %d' % group]
    base = rng.choice(CONFIGS)
    def key():
        st = rng.random()
        if st < 0.5:
            return bytes([0] * (K - 1) + [rng.randrange(8)]).hex()
        if st < 0.7:
            return bytes([rng.choice([0, 255])] * K).hex()
        return bytes(rng.randrange(256) for _ in range(K)).hex()
    allkeys = []
    def probes():
        ks = set(rng.sample(allkeys, min(len(allkeys), 4))) if allkeys else set()
        ks.add(key())
        for k in sorted(ks):
            L.append('hier iter %s' % k)
            if rng.random() < 0.4:
                L.append('hier iterrev %s' % k)
            if rng.random() < 0.4:
                L.append('hier fast %s' % k)
            if rng.random() < 0.4:
                L.append('hier check %s' % k)
        if rng.random() < 0.5:
            L.append('hier root')
        if rng.random() < 0.5:
            L.append('hier mem')
    for step in range(rng.randrange(4, 26)):
        x = rng.random()
        if x < 0.55:
            y = rng.random()
            if y < 0.70:
                c = base
            elif y < 0.85:
                c = rng.choice(CONFIGS)
            else:
                c = None
            ks = [key() for _ in range(rng.choice([0, 1, 1, 2, 3, 5]))]
            allkeys.extend(ks)
            kl = ','.join(ks) if ks else '-'
            if rng.random() < 0.12:
                # a child that has no filter at all (get_filter() = None): it may hold any key
                L.append('hier pushnone')
            elif c is None:
                L.append('hier push none - - %s' % kl)
            else:
                L.append('hier push %s %d %d %s' % (cfg_hex(c), c[1], bits_from_formula(c[0], c[1], c[2], c[4]), kl))
        elif x < 0.65:
            L.append('hier pop')
        elif x < 0.77:
            L.append('hier remove %d' % rng.randrange(0, 12))
        elif x < 0.95:
            L.append('hier offload %s %d' % (rng.choice(['max', 'max', '0', '1', '8', '16', '24', '40', '100']), rng.choice([0, 1, 1, 2])))
        else:
            L.append('hier len')
        probes()
    return '\n'.join(L) + '\n'


def gen(tier, rng):
    n = 300 if tier == 'quick' else 6000
    out = []
    for i in range(n):
        out.append(('bloom%05d' % i, gen_bloom_script(rng)))
    for i in range(160 if tier == 'quick' else 4000):
        out.append(('stor%05d' % i, gen_storage_script(rng)))
    for i in range(300 if tier == 'quick' else 6000):
        out.append(('hier%05d' % i, gen_hier_script(rng)))
    return out


def oracle(lines, out, spec=None):
    """Property predicates evaluated on the implementation's observations alone."""
    from . import common as C
    fails = C.spec_oracle(lines, out, spec, ('R',))
    keys = {}        # bloom id -> set of keys certainly in it
    rawkeys = {}     # raw id -> set of keys in it when captured (None if capture failed)
    offl = set()
    hst = {'children': [], 'n': 0}
    stored = set()   # storage level: keys for which some record (marker included) was acknowledged
    for i, (l, o) in enumerate(zip(lines, out)):
        t = l.split()
        if t[0] == 'W' and o == 'W ok':
            stored.add(t[1])
        elif t[0] == 'D' and o.startswith('D ') and not o.startswith('D Err') and o != 'D 0':
            stored.add(t[1])
        elif t[0] == 'CF' and t[1] in stored and o == 'CF no':
            fails.append('line %d: check_filters says definitely-absent for stored key %s' % (i, t[1]))
        elif t[0] == 'CFS' and t[1] in stored and o == 'CFS no':
            fails.append('line %d: check_filter says definitely-absent for stored key %s' % (i, t[1]))
        elif t[0] == 'GF' and t[1] in stored and o == 'GF no':
            fails.append('line %d: the filter returned by Storage::get_filter says definitely-absent for stored key %s' % (i, t[1]))
        if t[0] == 'hier':
            hier_oracle(hst, i, t, o, fails)
            continue
        if t[0] != 'bloom':
            continue
        op = t[1]
        if op in ('new', 'newbits'):
            keys[t[2]] = set(); offl.discard(t[2])
            if o != 'bits %s' % t[5]:
                fails.append('line %d: bit count differs from the formula model: %s vs %s' % (i, o, t[5]))
        elif op == 'add':
            if o == 'add ok':
                keys[t[2]].add(t[3])
        elif op == 'probe':
            if t[3] in keys[t[2]] and o == 'mem No':
                fails.append('line %d: false negative (in memory) for key %s: %s' % (i, t[3], l))
        elif op == 'raw':
            rawkeys[t[2]] = set(keys[t[2]]) if o != 'raw none' else None
        elif op == 'fileprobe':
            rk = rawkeys.get(t[3])
            if rk is not None and t[4] in rk and o == 'file No':
                fails.append('line %d: false negative (file probe) for key %s: %s' % (i, t[4], l))
        elif op == 'merge':
            if o == 'merge true':
                keys[t[2]] |= keys[t[3]]
        elif op == 'clear':
            keys[t[2]] = set(); offl.discard(t[2])
        elif op == 'offload':
            offl.add(t[2])
    return fails


class _Everything(set):
    """the key set of a filterless child: it may hold any key"""
    def __contains__(self, x):
        return True


EVERYTHING = _Everything()


def hier_oracle(hst, i, t, o, fails):
    """children: list of key sets (None = vacated). A present child whose filter was built from a key must be
    yielded by both iterators for that key; fast/async checks must answer Maybe; vacated children are never yielded."""
    op = t[1]
    ch = hst['children']
    if op == 'new':
        hst['children'] = []
    elif op == 'push':
        ks = set() if t[5] == '-' else set(t[5].split(','))
        if o != 'hier push %d' % len(ch):
            fails.append('line %d: push returned %s, expected id %d' % (i, o, len(ch)))
        ch.append(ks)
    elif op == 'pushnone':
        if o != 'hier push %d' % len(ch):
            fails.append('line %d: push returned %s, expected id %d' % (i, o, len(ch)))
        ch.append(EVERYTHING)
    elif op == 'pop':
        idx = [j for j, c in enumerate(ch) if c is not None]
        if idx:
            ch[idx[-1]] = None
    elif op == 'remove':
        j = int(t[2])
        if j < len(ch):
            ch[j] = None
    elif op in ('iter', 'iterrev'):
        got = [] if o.split()[2] == '-' else [int(x) for x in o.split()[2].split(',')]
        for j, c in enumerate(ch):
            if c is not None and t[2] in c and j not in got:
                fails.append('line %d: child %d holds key %s but the hierarchy does not yield it (%s)' % (i, j, t[2], o))
        for j in got:
            if j >= len(ch) or ch[j] is None:
                fails.append('line %d: vacated or unknown child %d yielded' % (i, j))
        if got != sorted(got, reverse=(op == 'iterrev')):
            fails.append('line %d: iteration order %s' % (i, o))
    elif op in ('fast', 'check'):
        if any(c is not None and t[2] in c for c in ch) and o.endswith(' No'):
            fails.append('line %d: %s says definitely-absent for key %s held by a present child' % (i, op, t[2]))


def classify(known, lines, out, msg):
    return msg.startswith('[%s]' % known['id'])


def signature(lines, out):
    if len(lines) > 1 and lines[1] == 'open':
        from . import common as C
        return C.ops_signature(lines, out)
    if len(lines) > 1 and lines[1].startswith('hier new'):
        ops = {}
        for l, o in zip(lines, out):
            t = l.split()
            k = (t[1], t[2] if t[1] == 'offload' else '', t[3] if t[1] == 'offload' else '', o.split()[2] if t[1] in ('pop', 'remove', 'fast', 'check') else '')
            ops[k] = ops.get(k, 0) + 1
        return hash((lines[0], tuple(sorted(ops.items()))))
    cfgs = tuple(l.split()[3] for l in lines if l.startswith('bloom new'))
    ops = {}
    for l, o in zip(lines, out):
        t = l.split()
        k = (t[1], o.split()[1] if len(o.split()) > 1 and t[1] != 'raw' else '')
        ops[k] = ops.get(k, 0) + 1
    return hash((cfgs, tuple(sorted(ops.items()))))
