"""C01 Latest-version read. Storage-level histories; oracle = Coq Spec (spec_read) evaluated by the driver."""
from .gen_storage import Gen
from . import common as C

RULE = ('storage histories from one PRNG: 2-4 keys, timestamps from a 3-value pool (ties are the norm), writes with and '
        'without meta, deletes (both only_if_presented), close/create/restore/force_update/free_excess, restarts with and '
        'without close, key lengths 1/4/8/32, bloom on/off, group 2/3/8, eager/lazy, both runtimes; after EVERY op: read + '
        'contains of every key; distinct by (cfg line, multiset of (op, outcome class))')
ASSUMPTIONS = ['filters are outside the L3 model (their soundness is C10); the B+tree index is represented by the map it '
               'was built from (C09)', 'background dumps happen at the quiescence points the harness forces (hook H3)']


def gen(tier, rng):
    n = 260 if tier == 'quick' else 5000
    out = []
    for i in range(n):
        g = Gen(rng, queries=('R', 'C'), bg=0.02)
        out.append(('hist%05d' % i, g.build()))
    return out


def oracle(lines, io, spec=None):
    return C.spec_oracle(lines, io, spec, ('R', 'C'))


classify = C.default_classify
signature = C.ops_signature
