"""C01 Latest-version read. Storage-level histories; oracle = Coq Spec (spec_read) evaluated by the driver."""
from .gen_storage import Gen
from . import common as C

RULE = ('storage histories from one PRNG: 2-4 keys, timestamps from a 3-value pool (ties are the norm), writes with and '
        'without meta, deletes (both only_if_presented), close/create/restore/force_update/free_excess, restarts with and '
        'without close, key lengths 1/4/8/32, bloom on/off, group 2/3/8, eager/lazy, both runtimes; after EVERY op: read + '
        'contains of every key; distinct by (cfg line, multiset of (op, outcome class))')
ASSUMPTIONS = ['filters are outside the L3 model (their soundness is C10); the B+tree index is represented by the map it '
               'was built from (C09)', 'background dumps happen at the quiescence points the harness forces (hook H3)']


def gen_wide(rng):
    """Blobs whose index file has several leaves (more than 4096 / (57 + K) headers), most keys with two or three
    versions (ties and deletion markers among them), so that the versions of some keys straddle leaf boundaries; every
    key is read while the index is in memory, after the blob was closed and its index dumped, and after a restart."""
    K = rng.choice([4, 4, 8, 32, 503, 503, 138])
    per = 4096 // (57 + K)
    nkeys = rng.choice([per // 2 + 3, per - 5, per + 7, 2 * per - 3])
    if K >= 138:
        # long keys: a completely filled inner node of the index file (fan-out 8 for 503-byte keys, 28 for 138-byte keys,
        # where a full node ends exactly at the end of its 4 KiB block) and one leaf more
        fan = (4096 - 16) // (K + 8) + 1
        nkeys = rng.choice([per * fan // 2 + 1, per * fan // 2 + per, per * (fan + 1) // 2 + 3])
    L = ['cfg K=%d dup=1 group=%d bloom=%s init=%s runtime=%s' % (K, rng.choice([2, 8]), 'none', rng.choice(['eager', 'lazy']), rng.choice(['mt', 'ct'])), 'open']
    keys = [(i * 3 + 1).to_bytes(K, 'big').hex() for i in range(nkeys)]
    seed = 0
    ops = []
    for k in keys:
        for _ in range(rng.choice([1, 2, 2, 2, 3])):
            seed += 1
            if rng.random() < 0.06:
                ops.append('D %s %d - 0' % (k, rng.choice([5, 7, 9])))
            else:
                ops.append('W %s %d - %d %d' % (k, rng.choice([5, 7, 9]), rng.choice([5, 9]), seed))
    rng.shuffle(ops)
    qs = []
    for k in keys:
        qs += ['R %s' % k, 'C %s' % k]
    cut = rng.choice([len(ops), len(ops), len(ops) * 2 // 3])
    L += ops[:cut]
    L += qs
    L.append('close_active')
    L.append('quiesce')
    L += qs
    L += ops[cut:]
    L += qs
    L.append('close')
    L.append(rng.choice(['rmindex 0', 'nop']))
    L.append('open')
    L += qs
    L.append('close')
    return '\n'.join(L) + '\n'


def gen(tier, rng):
    n = 260 if tier == 'quick' else 5000
    out = []
    for i in range(n):
        g = Gen(rng, queries=('R', 'C'), bg=0.02)
        out.append(('hist%05d' % i, g.build()))
    out += [('wide%05d' % i, gen_wide(rng)) for i in range(n // 20)]
    return out


def oracle(lines, io, spec=None):
    return C.spec_oracle(lines, io, spec, ('R', 'C'))


classify = C.default_classify
signature = C.ops_signature
