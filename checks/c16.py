"""C16 Offline tools validate exactly well-formed files and recover without loss."""
from .gen_storage import key_hex
from . import common as C

RULE = ('blobs of 2-6 records (fresh key each, empty metadata, data lengths 0/5/40/300) written by the storage, closed; '
        'validate_blob / validate_index / read_index on the untouched files; then one damage: truncation at every class '
        'of length (record boundary, inside header/meta/data, blob header) or a flipped byte in a position class (magic, key, flags, each byte of blob_offset, timestamp, checksums, meta, data) of a '
        'chosen record (key, sizes, timestamp, checksums, meta, data, blob magic); validate must reject; recovery with '
        'and without skipping: output compared BYTE-EXACT with the Coq tools model (Blob/Scan.v tool_recover), must '
        'validate, is installed in place of the blob, the storage opens it and reads every record; distinct by '
        '(damage class, position class, record index, skip, outcome classes)')
ASSUMPTIONS = ['v0->v1 migration inputs cannot be produced (no v0 writer); migrate_blob is exercised as identity on v1 blobs only',
               'metadata decoding is modelled for the empty map only (scripts use empty metadata when the damage is in the meta)']


MS = {'-': 8, 'm1': 26}      # serialized size of the metadata map


def gen_script(rng):
    K = 4
    m = rng.randrange(2, 7)
    L = ['cfg K=4 dup=1 group=2 bloom=none init=eager runtime=mt validate=%d' % rng.choice([0, 1]), 'open']
    layout = []
    off = 20
    for i in range(m):
        ln = rng.choice([0, 5, 40, 300])
        key = (16 + i).to_bytes(K, 'big').hex()
        meta = rng.choice(['-', '-', 'm1'])
        L.append('W %s %d %s %d %d' % (key, 7, meta, ln, 0 if ln == 0 else i + 1))
        he = off + 61; me = he + MS[meta]; e = me + ln
        layout.append((key, ln, 0 if ln == 0 else i + 1, off, he, me, e))
        off = e
    L.append('close')
    L += ['tool validate_blob 0', 'tool validate_index 0', 'tool read_index 0', 'tool migrate 0 1', 'tool validate_out 0']
    kind = rng.choice(['trunc', 'flip', 'flip', 'flip'])
    j = rng.randrange(m)
    key, ln, seed, s, he, me, e = layout[j]
    if kind == 'trunc':
        cls = rng.choice(['boundary', 'hdr', 'meta', 'data', 'blobhdr'])
        if cls == 'boundary': n = rng.choice([x[6] for x in layout[:-1]] + [20])
        elif cls == 'hdr': n = rng.randrange(s + 1, he)
        elif cls == 'meta': n = rng.randrange(he, me)
        elif cls == 'data': n = rng.randrange(me, e) if e > me else rng.randrange(he, me)
        else: n = rng.choice([3, 19, 25, 35])
        L.append('#DAMAGE trunc %s rec=%d' % (cls, j))
        L.append('trunc blob 0 %d' % n)
    else:
        # header field offsets inside a record header (K=4): magic 0, klen 8, key 16, msize 20, dsize 28, flags 36,
        # off 37, ts 45, dcrc 53, hcrc 57
        cls = rng.choice(['magic', 'key', 'ts', 'dcrc', 'hcrc', 'flags', 'off', 'off', 'meta', 'data', 'blobmagic',
                          'blobversion', 'blobflags', 'klen', 'msize', 'dsize'])
        pos = {'magic': s + 2, 'key': s + 17, 'ts': s + 46, 'dcrc': s + 54, 'hcrc': s + 58, 'flags': s + 36,
               'off': s + 37 + rng.randrange(8), 'blobversion': 8 + rng.randrange(4), 'blobflags': 12 + rng.randrange(8),
               'klen': s + 8 + rng.randrange(8), 'msize': s + 20 + rng.randrange(8), 'dsize': s + 28 + rng.randrange(8),
               'meta': rng.randrange(he, me), 'data': me + (ln // 2) if ln > 0 else s + 46, 'blobmagic': 1}[cls]
        if cls == 'data' and ln == 0: cls = 'ts'
        L.append('#DAMAGE flip %s rec=%d' % (cls, j))
        L.append('flip blob 0 %d %02x' % (pos, 1 << rng.randrange(8)))
    L.append('tool validate_blob 0')
    skip = rng.choice([0, 1])
    L.append('tool recover 0 %d %d' % (rng.choice([0, 1, 2]), skip))
    L += ['tool validate_out 0', 'tool outhex 0', 'tool install 0', 'open']
    for (k2, l2, s2, *_r) in layout:
        L.append('R %s' % k2)
    L.append('counts')
    return '\n'.join(L) + '\n'


def gen_migrate_v0_script(rng):
    """"migration preserves every record": a blob of format version 0 (version 0 stored the key bytes in the opposite
    order; here the version field of a produced blob is set to 0) migrated to version 1 serves every record under its
    migrated key, with its original data."""
    K = 4
    L = ['cfg K=4 dup=1 group=2 bloom=none init=eager runtime=mt validate=%d nomodel=1' % rng.choice([0, 1]), 'open', 'nop migrate-v0']
    recs = []
    for i in range(rng.randrange(1, 6)):
        key = bytes([16 + i, rng.randrange(256), rng.randrange(256), 1 + i])
        ln = rng.choice([0, 5, 40, 300])
        L.append('W %s %d %s %d %d' % (key.hex(), 7, rng.choice(['-', 'm1']), ln, 0 if ln == 0 else i + 1))
        recs.append((key, ln, 0 if ln == 0 else i + 1))
    L += ['close', 'patch blob 0 8 00000000', 'tool migrate 0 1', 'tool validate_out 0', 'tool install 0', 'open']
    for (key, ln, sd) in recs:
        L.append('R %s' % key[::-1].hex())
    L += ['counts', 'close']
    return '\n'.join(L) + '\n'


def gen_two_damages_script(rng):
    """Two isolated damaged records of DIFFERENT classes in one blob (the metadata of an earlier record does not decode
    any more, the header checksum of a later one is wrong; the sizes in both headers are intact): recovery with
    skipping steps over both and keeps every other record."""
    m = rng.randrange(4, 9)
    L = ['cfg K=4 dup=1 group=2 bloom=none init=eager runtime=mt validate=%d' % rng.choice([0, 1]), 'open', 'nop two-damages']
    layout = []
    off = 20
    for i in range(m):
        ln = rng.choice([5, 40, 300, 5000])
        key = (16 + i).to_bytes(4, 'big').hex()
        L.append('W %s 7 m1 %d %d' % (key, ln, i + 1))
        layout.append((key, ln, i + 1, off))
        off += 61 + MS['m1'] + ln
    L.append('close')
    # isolated: at least one intact record between the two (a retry after a skipped record is not skipped again)
    a = rng.randrange(0, m - 2)
    b = rng.randrange(a + 2, m)
    if rng.random() < 0.2:
        a, b = b, a            # the header damage first, the metadata damage behind it
    L.append('flip blob 0 %d 01' % (layout[a][3] + 61))            # number of pairs 1 -> 0: the map no longer takes its bytes
    L.append('flip blob 0 %d %02x' % (layout[b][3] + 57 + rng.randrange(4), 1 << rng.randrange(8)))   # header checksum
    L.append('nop damaged=%s,%s' % (layout[a][0], layout[b][0]))
    L += ['tool recover 0 0 1', 'tool validate_out 0', 'tool install 0', 'open']
    for (k2, l2, s2, _o) in layout:
        L.append('R %s' % k2)
    L.append('counts')
    return '\n'.join(L) + '\n'


def gen(tier, rng):
    n = 240 if tier == 'quick' else 5000
    return [('tools%05d' % i, gen_script(rng)) for i in range(n)] + [('migv0%05d' % i, gen_migrate_v0_script(rng)) for i in range(n // 12)] + \
           [('twodmg%05d' % i, gen_two_damages_script(rng)) for i in range(n // 12)]


META_IMG = {'-': bytes(8), 'm1': (1).to_bytes(8, 'little') + (1).to_bytes(8, 'little') + b'v' + (1).to_bytes(8, 'little') + b'1'}


def py_meta_ok(b):
    """Format/Meta.v meta_ok: the bincode image of HashMap<String, Vec<u8>> decodes, takes exactly its bytes, no repeated key"""
    def u64(i):
        return (int.from_bytes(b[i:i + 8], 'little'), i + 8) if i + 8 <= len(b) else (None, i)
    n, i = u64(0)
    if n is None:
        return False
    keys = []
    for _ in range(n):
        kl, i = u64(i)
        if kl is None or i + kl > len(b):
            return False
        try:
            b[i:i + kl].decode('utf-8')
        except UnicodeDecodeError:
            return False
        keys.append(bytes(b[i:i + kl])); i += kl
        vl, i = u64(i)
        if vl is None or i + vl > len(b):
            return False
        i += vl
        if len(keys) > 64:
            return False
    return i == len(b) and len(set(keys)) == len(keys)


def meta_still_ok(lines, rec, pos, mask):
    """is `pos` inside the metadata of the record, and does the flipped image still satisfy meta_ok?"""
    key, ln, seed, s, he, me, e = rec
    if not (he <= pos < me):
        return False
    w = next(l.split() for l in lines if l.startswith('W %s ' % key))
    img = bytearray(META_IMG[w[3]])
    img[pos - he] ^= mask
    return py_meta_ok(bytes(img))


def oracle(lines, io, spec=None):
    fails = []
    K = 4
    if 'nop two-damages' in lines:
        dmg = next(l for l in lines if l.startswith('nop damaged=')).split('=')[1].split(',')
        for cmd, want in (('tool recover 0 0 1', 'tool recover ok'), ('tool validate_out 0', 'tool validate_out ok'), ('open', 'open ok')):
            i = [j for j, l in enumerate(lines) if l == cmd][-1]
            if i >= len(io) or not io[i].startswith(want):
                fails.append('`%s` after two isolated damaged records: %s' % (cmd, io[i] if i < len(io) else None))
                return fails
        for l in lines:
            if l.startswith('W ') and l.split()[1] not in dmg:
                t = l.split()
                i = [j for j, x in enumerate(lines) if x == 'R ' + t[1]][-1]
                if i < len(io) and io[i] != 'R Found %s %s' % (t[4], t[5]):
                    fails.append('intact record %s is not served with its original bytes from the recovered blob (damaged records: %s): %s' % (t[1], ','.join(dmg), io[i]))
        return fails[:3]
    if 'nop migrate-v0' in lines:
        ws = [l.split() for l in lines if l.startswith('W ')]
        for cmd, want in (('tool migrate 0 1', 'tool migrate ok'), ('tool validate_out 0', 'tool validate_out ok'), ('open', 'open ok')):
            idxs = [i for i, l in enumerate(lines) if l == cmd]
            i = idxs[-1] if idxs else None
            if i is None or i >= len(io) or io[i] != want:
                fails.append('`%s` on a version-0 blob: %s' % (cmd, io[i] if i is not None and i < len(io) else '-'))
                return fails
        oi = [i for i, l in enumerate(lines) if l == 'open'][-1]
        reads = {lines[i].split()[1]: io[i] for i in range(oi + 1, min(len(lines), len(io))) if lines[i].startswith('R ')}
        for t in ws:
            rk = bytes.fromhex(t[1])[::-1].hex()
            want = 'R Found %s %s' % (t[4], t[5])
            if reads.get(rk) != want:
                fails.append('the record of key %s is not served under its migrated key %s with its original data: %s' % (t[1], rk, reads.get(rk)))
                break
        return fails
    # layout
    layout = []
    off = 20
    for l in lines:
        t = l.split()
        if t[0] == 'W':
            ln = int(t[4]); he = off + 61; me = he + MS[t[3]]; e = me + ln
            layout.append((t[1], ln, int(t[5]), off, he, me, e)); off = e
        if t[0] == 'close':
            break
    full = off
    idx = {l: i for i, l in enumerate(lines)}
    def out(cmd, nth=0):
        hits = [i for i, l in enumerate(lines) if l == cmd]
        return io[hits[nth]] if len(hits) > nth and hits[nth] < len(io) else None
    # untouched files are accepted
    for cmd in ('tool validate_blob 0', 'tool validate_index 0'):
        o = out(cmd, 0)
        if o is not None and not o.endswith(' ok'):
            fails.append('`%s` rejects a file the storage produced: %s' % (cmd, o))
    o = out('tool read_index 0')
    if o is not None and o != 'tool read_index ok keys=%d headers=%d' % (len(layout), len(layout)):
        fails.append('read_index does not report exactly the headers of the blob: %s (blob has %d records)' % (o, len(layout)))
    o = out('tool migrate 0 1')
    if o is not None and o != 'tool migrate ok':
        fails.append('migrate_blob failed on a current-version blob: %s' % o)
    # damage
    dmg = next((l for l in lines if l.startswith('trunc blob') or l.startswith('flip blob')), None)
    if dmg is None:
        return fails
    t = dmg.split()
    if t[0] == 'trunc':
        n = int(t[3])
        at_boundary = n == 20 or any(x[6] == n for x in layout)
        intact = [x for x in layout if x[6] <= n]
        after = []
        damaged_rec = None
        damaged = not at_boundary
        header_ok = n >= 20
    else:
        pos = int(t[3])
        damaged_rec = next((j for j, x in enumerate(layout) if x[3] <= pos < x[6]), None)
        intact = layout[:damaged_rec] if damaged_rec is not None else []
        after = layout[damaged_rec + 1:] if damaged_rec is not None else []
        damaged = True
        header_ok = pos >= 20 or pos >= 8      # only the magic (bytes 0..7) is checked by the tools
        if pos < 8:
            intact, after = [], []
    o = out('tool validate_blob 0', 1)
    if damaged and o is not None and o.endswith(' ok'):
        # finding F26: the metadata of a record is covered by no checksum; a flipped byte that leaves the map decodable
        # in exactly its bytes (a content byte of a key or of a value) cannot be noticed by any reader
        tag = '[F26] ' if (t[0] == 'flip' and damaged_rec is not None and meta_still_ok(lines, layout[damaged_rec], pos, int(t[4], 16))) else ''
        # finding F31: the version and flags fields of the 20-byte blob header are covered by no checksum either, and the
        # tools accept every version on purpose (they are also used on blobs of older versions)
        if t[0] == 'flip' and 8 <= pos < 20:
            tag = '[F31] '
        fails.append('%svalidate_blob accepts a damaged blob (%s)' % (tag, dmg))
    if not damaged and o is not None and not o.endswith(' ok'):
        fails.append('validate_blob rejects a well-formed (shorter) blob (%s): %s' % (dmg, o))
    rec_line = next((l for l in lines if l.startswith('tool recover')), None)
    skip = rec_line.split()[4] == '1'
    o = out(rec_line)
    if not header_ok:
        return fails
    if o is None or not o.startswith('tool recover ok'):
        fails.append('recovery failed on a blob with an intact header: %s' % o)
        return fails
    if out('tool validate_out 0', 1) != 'tool validate_out ok':
        fails.append('the recovered blob does not validate')
    # what must be served from the recovered blob
    open_i = next((i for i, l in enumerate(lines) if l == 'open' and i > idx[rec_line]), None)
    if open_i is None or open_i >= len(io) or io[open_i] != 'open ok':
        tag = '[F31] ' if (t[0] == 'flip' and 8 <= pos < 12) else ''
        fails.append('%sthe storage cannot open the recovered blob: %s' % (tag, io[open_i] if open_i is not None and open_i < len(io) else None))
        return fails
    reads = {}
    for i in range(open_i + 1, min(len(lines), len(io))):
        if lines[i].startswith('R '):
            reads[lines[i].split()[1]] = io[i]
    for (k2, l2, s2, *_r) in intact:
        if reads.get(k2) != 'R Found %d %d' % (l2, s2):
            fails.append('intact record %s before the damage is not served from the recovered blob: %s' % (k2, reads.get(k2)))
    if skip and t[0] == 'flip' and damaged_rec is not None:
        # after an isolated damaged record the later records must be kept -- when the record can be stepped over
        # (sizes intact) -- and served with their original bytes (finding F7: stale blob_offset)
        # finding F32: the damaged record is stepped over by its OWN key, meta and data sizes; when the flipped byte is in
        # one of those three fields the step lands in the middle of the data and the recovery ends there
        rs = layout[damaged_rec][3]
        in_sizes = (rs + 8 <= pos < rs + 16) or (rs + 20 <= pos < rs + 36)
        for (k2, l2, s2, *_r) in after:
            got = reads.get(k2)
            if got != 'R Found %d %d' % (l2, s2):
                fails.append('%srecord %s after the skipped damaged record is not served with its original bytes from the recovered blob: %s' % ('[F32] ' if in_sizes else '', k2, got))
                break
    for k2, got in reads.items():
        if '?' in got:
            fails.append('wrong bytes served from the recovered blob for %s: %s' % (k2, got))
    return fails[:6]


classify = C.default_classify


def signature(lines, io):
    d = next((l for l in lines if l.startswith('trunc blob') or l.startswith('flip blob')), '')
    rec = next((l for l in lines if l.startswith('tool recover')), '')
    nrec = sum(1 for l in lines if l.startswith('W '))
    tail = tuple(o.split()[1] if len(o.split()) > 1 else '' for o in io[-(nrec + 1):])
    return hash((d.split()[0] if d else '', rec.split()[-1] if rec else '', nrec, tail))
