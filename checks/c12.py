"""C12 Sync discipline: bounded un-synced data and write ordering for durability."""
import os, re, subprocess, tempfile
from .gen_storage import Gen
from . import common as C

RULE = ('storage histories with dirty-byte limits {0,1,100,4096,default}; the I/O tap (hook H1) records every '
        'create/append/positional write/sync; after every op the per-file event sequences are compared with the trace '
        'the L3 model predicts (Io/Trace.v step_evs; default limit only) and the whole recorded trace is judged by the '
        'EXTRACTED Coq predicates (header synced before first record; index written-flag only when its blob is fully '
        'synced; appends at EOF); dirty bytes after fsyncdata / close_active / every write are checked against the '
        'limit; bound stream: a threshold sync that fails once / a write landing while a delayed sync is in flight, then the '
        'un-synced bytes measured from the tap alone (physical length minus what the last successful sync covered at its entry) '
        'must be within the limit once the worker is idle; closing stream: a write overlapping try_close_active_blob (its sync delayed, all later syncs failing): the closed blob has no byte outside a successful sync; distinct by (cfg line, multiset of (op, outcome class))')
ASSUMPTIONS = ['whether fsync reaches the medium is outside the model', 'threshold-triggered background syncs are judged by '
               'the predicates, not predicted event-exactly (the model has no dirty counter)']

LIMITS = [None, None, 0, 1, 100, 4096]


def gen_script(rng):
    lim = rng.choice(LIMITS)
    g = Gen(rng, queries=(), maint=0.3, restart=0.08, deletes=0.15, nops=rng.randrange(6, 20), runtime='mt' if rng.random() < 0.7 else 'ct',
            extra_cfg=('dirty=%d' % lim) if lim is not None else '')
    text = g.build()
    L = []
    for l in text.strip().split('\n'):
        t = l.split()[0]
        L.append(l)
        if t == 'cfg':
            L.append('trace on')
        elif t in ('close', 'drop'):
            L.append('trace dump')
        else:
            if t in ('W', 'D') and rng.random() < 0.25:
                L.append('fsync'); L.append('dirty')
            L += ['trace dump', 'dirty']
    return '\n'.join(L) + '\n'


def gen_bound_script(rng):
    """The bound on un-synced bytes measured from the tap alone (`truedirty`: physical length of the active blob
    minus what the last successful sync covered when it was entered), in the two situations a sequential history
    never reaches: a threshold sync that FAILS once, and a write that lands WHILE a (delayed) sync is in flight."""
    lim = rng.choice([1000, 4096, 10000])
    L = ['cfg K=4 dup=1 group=2 bloom=none init=eager runtime=%s dirty=%d nomodel=1' % (rng.choice(['mt', 'mt', 'ct']), lim), 'trace on', 'open']
    seed = 0
    def w(ln):
        nonlocal seed
        seed += 1
        L.append('W %s 5 - %d %d' % ((seed).to_bytes(4, 'big').hex(), ln, seed))
    for _ in range(rng.randrange(0, 3)):
        w(rng.choice([5, 100, 300]))
    mode = rng.choice(['failsync', 'inflight', 'both', 'slowappend', 'slowappend', 'restore', 'cancelled'])
    if mode == 'cancelled':
        # an append whose caller was dropped is still running (held back by a failpoint delay) while a later write is
        # acknowledged: when the bytes of the dropped append land nobody reports them -- the background sync has to wait
        # for them (findings F34 / F35, repaired)
        seed += 1
        L.append('fail append .blob 0 delay:%d' % rng.choice([250, 400]))
        L.append('cancel 2 W %s 5 - 100000 %d' % ((seed).to_bytes(4, 'big').hex(), seed))
        w(rng.choice([5, lim // 2, lim * 2]))
        L.append('sleep 700')
        L.append('clearfail')
        L.append('quiesce')
        L.append('#BOUND')
        L.append('truedirty')
        L.append('dirty')
    if mode == 'restore':
        # deletion records pile up un-synced in the last CLOSED blob (they wait for the deferred index dump), then that
        # blob is made the active blob again: its un-synced bytes are the active blob's now (finding F30, repaired)
        nk = lim // 60 + 3
        ks = [(i + 100).to_bytes(4, 'big').hex() for i in range(nk)]
        for k in ks:
            seed += 1
            L.append('W %s 5 - 5 %d' % (k, seed))
        L.append('close_active')
        L.append('autoquiesce 0')
        for k in ks:
            L.append('D %s 9 - 1' % k)
        L.append(rng.choice(['restore_active', 'restore_active', 'bg_restore']))
        L.append('sleep 50')
        L.append('autoquiesce 1')
        L.append('quiesce')
        L.append('#BOUND')
        L.append('truedirty')
        L.append('dirty')
    if mode == 'slowappend':
        # the mirror image of `inflight`: an APPEND that has reserved its range is held back while a sync runs to
        # completion. The bytes that land after that sync
        # are acknowledged and must not be counted as synced.
        big = rng.choice([lim * 2, lim * 3, 70000])
        L.append('fail append .blob 0 delay:%d' % rng.choice([200, 300]))
        seed += 1
        L.append('overlap %d W %s 5 - %d %d | fsync' % (rng.choice([40, 80]), (seed).to_bytes(4, 'big').hex(), big, seed))
        L.append('clearfail')
        L.append('quiesce')
        for _ in range(rng.randrange(0, 3)):
            w(rng.choice([5, 100]))
            L.append('quiesce')
        L.append('#BOUND')
        L.append('truedirty')
    if mode in ('failsync', 'both'):
        L.append('fail sync .blob 0 %s' % rng.choice(['EIO', 'ENOSPC']))
        w(lim * 2)
        L.append('quiesce')
        L.append('clearfail')
        for _ in range(rng.randrange(1, 4)):
            w(rng.choice([lim // 2, lim, 5]))
            L.append('quiesce')
        w(lim + 1)
        L.append('quiesce')
        L.append('#BOUND')
        L.append('truedirty')
    if mode in ('inflight', 'both'):
        L.append('autoquiesce 0')
        L.append('fail sync .blob 0 delay:%d' % rng.choice([150, 300]))
        w(lim * 2)
        L.append('sleep 60')       # the sync is now inside its delay: what it covers was fixed before the next write starts
        if rng.random() < 0.5:
            w(lim * 3)
        else:
            # an explicit fsyncdata while the background sync is in flight: it must not lean on that sync, which does not
            # cover the record acknowledged in between
            w(rng.choice([5, 100, lim // 2]))
            L.append('fsync')
            L.append('dirty')
        L.append('sleep 600')
        L.append('clearfail')
        L.append('autoquiesce 1')
        L.append('quiesce')
        # no further client action is needed for the bytes that landed during the sync (finding F13, repaired): half of
        # the scripts measure right here
        for _ in range(rng.choice([0, 0, 1, 2, 3])):
            w(rng.choice([5, 100]))
            L.append('quiesce')
        L.append('#BOUND')
        L.append('truedirty')
        L.append('dirty')
    L.append('fsync')
    L.append('close')
    return '\n'.join(L) + '\n'


def gen_fullblob_script(rng):
    """The active blob is full and cannot be switched (the file of the next blob cannot be created, again and again):
    every write asks for the switch in vain -- and must still ask for the sync when the un-synced bytes exceed the limit."""
    lim = rng.choice([1000, 4096])
    L = ['cfg K=4 dup=1 group=2 bloom=none init=eager runtime=%s dirty=%d maxrec=3 nomodel=1' % (rng.choice(['mt', 'ct']), lim), 'trace on', 'open']
    seed = 0
    def w(ln):
        nonlocal seed
        seed += 1
        L.append('W %s 5 - %d %d' % ((seed).to_bytes(4, 'big').hex(), ln, seed))
    for _ in range(3):
        w(5)
    L.append('sleep 250')
    for i in range(10):
        L.append('fail create .blob %d %s' % (i, rng.choice(['ENOSPC', 'EIO'])))
    for _ in range(rng.randrange(4, 8)):
        w(rng.choice([lim // 2, lim, lim + 100]))
        L.append('quiesce')
    L += ['#BOUND', 'truedirty', 'dirty', 'clearfail', 'quiesce', 'fsync', 'close']
    return '\n'.join(L) + '\n'


def gen_closing_script(rng):
    """A client writes WHILE the active blob is being closed (the close's sync is held back by a failpoint delay, every
    later sync fails so that no index dump can repair anything): once try_close_active_blob has returned Ok, the closed
    blob must not hold a single byte that no successful sync covers (measured from the tap alone)."""
    L = ['cfg K=4 dup=1 group=2 bloom=none init=eager runtime=%s dirty=100000000 nomodel=1' % rng.choice(['mt', 'mt', 'ct']), 'trace on', 'open']
    seed = 0
    nclosed = 0
    for rnd in range(1):       # one round: the failing syncs leave orphan blob files behind, later ids are not predictable
        for _ in range(rng.randrange(1, 5)):
            seed += 1
            L.append('W %s 5 - %d %d' % ((seed).to_bytes(4, 'big').hex(), rng.choice([5, 300, 5000]), seed))
        L.append('fail sync .blob 0 delay:%d' % rng.choice([200, 300]))
        for n in (1, 2, 3, 4):
            L.append('fail sync .blob %d EIO' % n)
        seed += 1
        L.append('overlap %d close_active | W %s 5 - %d %d' % (rng.choice([40, 80]), (seed).to_bytes(4, 'big').hex(), rng.choice([5, 5000]), seed))
        nclosed += 1
        L.append('sleep 80')
        L.append('nop closed=%s' % ','.join(str(i) for i in range(nclosed)))
        L.append('truedirty_all')
        L.append('clearfail')
        L.append('quiesce')
        L.append('create_active')
    L.append('close')
    return '\n'.join(L) + '\n'


def gen(tier, rng):
    n = 200 if tier == 'quick' else 4000
    return [('sync%05d' % i, gen_script(rng)) for i in range(n)] + [('bound%05d' % i, gen_bound_script(rng)) for i in range(n // 5)] + \
           [('closing%05d' % i, gen_closing_script(rng)) for i in range(n // 8)] + [('fullblob%05d' % i, gen_fullblob_script(rng)) for i in range(n // 10)]


def norm_trace(tokens, mask_index_len=True):
    """per-file event sequences, opens dropped, index append lengths masked"""
    per = {}
    for tok in tokens:
        if tok.startswith('open:'):
            continue
        k, p = tok.split(':', 1)
        failed = p.endswith('!')
        p = p.rstrip('!')
        if p.endswith('.index') and k.startswith('append@'):
            k = 'append@0+?'
        per.setdefault(p, []).append(k + ('!' if failed else ''))
    return per


def cfg_limit(cfg_line):
    m = re.search(r'dirty=(\d+)', cfg_line)
    return int(m.group(1)) if m else 32 * 1024 * 1024


def oracle(lines, io, spec=None):
    fails = []
    limit = cfg_limit(lines[0])
    default_limit = 'dirty=' not in lines[0]
    whole = []
    last_op = ''
    for i, (l, o) in enumerate(zip(lines, io)):
        t = l.split()[0]
        if l == 'trace dump' and o.startswith('trace'):
            toks = o.split()[1:]
            whole += toks
            if default_limit and spec is not None and i < len(spec) and spec[i].startswith('tr'):
                want = norm_trace(spec[i].split()[1:])
                got = norm_trace(toks)
                if want != got:
                    fails.append('line %d after `%s`: file operations differ from the model trace: got %s, model %s' % (i, last_op, got, want))
        elif l == 'dirty' and o.startswith('dirty ') and o != 'dirty none':
            d = int(o.split()[1])
            prev = lines[i - 1].split()[0] if i else ''
            prev2 = lines[i - 2].split()[0] if i > 1 else ''
            if prev == 'fsync' and io[i - 1] == 'fsync ok' and d != 0:
                fails.append('line %d: %d un-synced bytes remain after an explicit fsyncdata (limit %d)' % (i, d, limit))
            elif d > limit:
                fails.append('line %d after `%s`: %d un-synced bytes exceed the limit %d with no sync pending' % (i, last_op, d, limit))
        elif l == 'truedirty_all' and o.startswith('truedirty_all') and i >= 2 and lines[i - 1].startswith('nop closed=') and \
                io[i - 3].startswith('overlap close_active ok'):
            ids = lines[i - 1].split('=')[1].split(',')
            per = dict(x.rsplit(':', 1) for x in o.split()[1:])
            # the blob closed by the overlapped call is the highest of the listed ids that exists as a file; if the
            # concurrent write created a newer blob, every listed one is closed
            for bid in ids:
                d = int(per.get('t.%s.blob' % bid, '0'))
                newer = any(int(n.split('.')[1]) > int(bid) for n in per)
                if d > 0 and (newer or bid != ids[-1] or True):
                    fails.append('line %d: try_close_active_blob returned Ok but %d bytes of the closed blob %s are covered by no successful sync' % (i, d, bid))
                    break
        elif l == 'truedirty' and o.startswith('truedirty ') and o != 'truedirty none':
            d = int(o.split()[1])
            if d > limit:
                fails.append('line %d: %d acknowledged bytes of the active blob are covered by no successful sync (measured from the I/O tap), limit %d, worker idle' % (i, d, limit))
        elif t == 'close_active' and o == 'close_active ok':
            pass
        if t not in ('trace', 'dirty', 'tracecheck', 'snapcheck'):
            last_op = l
    # judge the whole trace with the extracted Coq predicates
    if whole:
        drv = os.path.join(C.CACHE, 'driver')
        with tempfile.TemporaryDirectory(dir=os.environ.get('VERIF_TMP', '/tmp')) as td:
            sp = os.path.join(td, 'j.txt')
            open(sp, 'w').write('judge ' + ' '.join(whole) + '\n')
            subprocess.run([drv, sp, sp + '.out'], timeout=120)
            res = open(sp + '.out').read().strip() if os.path.exists(sp + '.out') else ''
        if res != 'judge harmless=true header_synced=true index_after_sync=true':
            fails.append('trace predicates (Coq Io/Trace.v judge) fail on the recorded trace: %s' % res)
    return fails[:6]


classify = C.default_classify
signature = C.ops_signature
