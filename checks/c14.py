"""C14 Cancellation safety: a dropped operation future leaves a consistent storage."""
import os, re, struct, subprocess, tempfile
from .gen_storage import Gen
from . import common as C

TIMEOUT = 1500
RULE = ('histories on the current-thread runtime (every file operation is a suspension point) and the multi-thread runtime; '
        'one operation (write / delete / close_active / create_active / restore_active / fsyncdata / read) is polled k in '
        '{0..4} times and dropped, with the blocking file operation it waits for delayed by a failpoint (hook H1 Delay) so '
        'that the drop happens while the append / sync is in flight; then all reads, more operations, restart, reads, '
        'validate_blob of every blob, removal of all index files, restart, reads. Oracle: the Coq specification replayed '
        'twice (cancelled operation removed / executed): every read must agree with one of the two, monotonically, the '
        'answer after the first restart is final, other keys unchanged, later operations succeed, every blob parses; '
        'closed-delete stream: a delete of a key held by 2-3 closed indexed blobs only, dropped while one marker append is delayed; '
        'distinct by (operation kind, k, delayed file op, outcome classes)')
ASSUMPTIONS = ['tokio runs a started spawn_blocking closure to completion even if its JoinHandle is dropped (sampled by the runs)',
               'suspension points are reached through real polling; their exact number per operation is not assumed']


def gen_script(rng):
    rt = rng.choice(['ct', 'ct', 'mt'])
    g = Gen(rng, queries=(), maint=0.2, restart=0.0, deletes=0.15, bg=0.0, nops=rng.randrange(3, 9), dup=1, metas=False, runtime=rt)
    L = g.build().strip().split('\n')
    qs = ['R %s' % k for k in g.keys]
    L += qs
    kind = rng.choice(['W', 'W', 'W', 'D', 'close_active', 'close_active', 'create_active', 'restore_active', 'fsync', 'R'])
    delay_kind = rng.choice(['append', 'append', 'sync'])
    L.append('fail %s .blob 0 delay:%d' % (delay_kind, rng.choice([30, 60])))
    k = rng.choice([0, 1, 1, 2, 3, 4])
    key = rng.choice(g.keys)
    if kind == 'W':
        ln = rng.choice([5, 40, 5000, 1500000]) if rt == 'ct' else rng.choice([5, 100000, 1500000])   # 1.5 MB: longer than any single blocking call the crate might split a write into
        L.append('cancel %d W %s %d - %d 9001' % (k, key, rng.choice([5, 7, 9, 12]), ln))
    elif kind == 'D':
        L.append('cancel %d D %s %d - %d' % (k, key, rng.choice([5, 7, 9, 12]), rng.choice([0, 1])))
    elif kind == 'R':
        L.append('cancel %d R %s' % (k, key))
    else:
        L.append('cancel %d %s' % (k, kind))
    L.append('clearfail')
    L.append('quiesce')
    L += qs + ['counts']
    seed = 9100
    for _ in range(rng.randrange(1, 4)):
        seed += 1
        L.append('W %s %d - 5 %d' % (rng.choice(g.keys), rng.choice([5, 7, 9, 12, 15]), seed))
    L += qs
    L += ['close', 'open'] + qs + ['counts', 'close', 'ls']
    L += ['tool validate_blob %d' % i for i in range(5)]
    L += ['rmindex %d' % i for i in range(5)]
    L += ['open'] + qs
    return '\n'.join(L) + '\n'


def gen_inflight_script(rng):
    """The dropped write is STILL RUNNING (its append is held back for 400 ms) while the client goes on: a write is
    acknowledged behind it, another one fails, the blob may be closed -- and only then do the bytes of the dropped write
    land. All-or-nothing for the dropped write, everything acknowledged stays readable, every blob parses."""
    rt = rng.choice(['ct', 'ct', 'mt'])      # mt: only writes above 80 KiB go to the blocking pool, small ones are written in place
    g = Gen(rng, queries=(), maint=0.2, restart=0.0, deletes=0.1, bg=0.0, nops=rng.randrange(2, 7), dup=1, metas=False, runtime=rt)
    L = g.build().strip().split('\n')
    qs = ['R %s' % k for k in g.keys]
    if rng.random() < (0.4 if rt == 'ct' else 0.8):
        L += ['close', 'open']      # the active blob is re-opened in append mode: bytes land in completion order
    L += qs
    key = rng.choice(g.keys)
    L.append('create_active')       # the faults of this stream are meant for record appends, not for the creation of a blob
    L.append('fail append .blob 0 delay:400')
    L.append('cancel 2 W %s %d - %d 9001' % (key, rng.choice([5, 7, 9, 12]), rng.choice([5, 5000, 100000]) if rt == 'ct' else 100000))
    seed = 9100
    for _ in range(rng.randrange(1, 3)):
        x = rng.random()
        seed += 1
        if x < 0.5:
            L.append('W %s %d - 5 %d' % (rng.choice(g.keys), rng.choice([5, 7, 9]), seed))
        elif x < 0.8:
            L.append('fail append .blob 0 %s' % rng.choice(['EIO', 'ENOSPC']))
            L.append('W %s %d - 40 %d' % (rng.choice(g.keys), rng.choice([5, 7, 9]), seed))
            L.append('clearfail')
        else:
            L.append(rng.choice(['fsync', 'D %s 8 - 0' % rng.choice(g.keys)]))
    L += ['sleep 600', 'clearfail', 'quiesce']
    L += qs + ['counts']
    for _ in range(rng.randrange(1, 3)):
        seed += 1
        L.append('W %s %d - 5 %d' % (rng.choice(g.keys), rng.choice([5, 7, 9, 12, 15]), seed))
    L += qs
    L += ['close', 'open'] + qs + ['counts', 'close', 'ls']
    L += ['tool validate_blob %d' % i for i in range(5)]
    L += ['rmindex %d' % i for i in range(5)]
    L += ['open'] + qs
    return '\n'.join(L) + '\n'


def gen_closed_delete_script(rng):
    """A delete of a key that lives in two or three CLOSED, indexed blobs (and not in the active one), dropped after k
    polls while the marker append of one of them is delayed: some closed blobs have their marker, others do not, and
    no deferred index dump was scheduled."""
    rt = rng.choice(['ct', 'ct', 'mt'])
    L = ['cfg K=4 dup=1 group=%d bloom=none init=eager runtime=%s' % (rng.choice([2, 8]), rt), 'open']
    key, other = '00000001', '00000002'
    seed = 0
    nb = rng.choice([2, 2, 3])
    for b in range(nb):
        seed += 1
        L.append('W %s %d - 5 %d' % (key, 5 + b, seed))
        if rng.random() < 0.5:
            seed += 1
            L.append('W %s 5 - 5 %d' % (other, seed))
        L.append('close_active')
    restore = rng.random() < 0.3
    if restore:
        # no active blob, the last closed blob has its index on disk: the restore is dropped while it may be reading it
        L += ['R %s' % key, 'R %s' % other]
        L.append('fail append .blob 0 delay:30')
        L.append('cancel %d restore_active' % rng.choice([1, 1, 2, 2, 3]))
        L += ['clearfail', 'quiesce', 'R %s' % key, 'R %s' % other, 'counts']
        seed += 1
        L.append('W %s 9 - 5 %d' % (other, seed))
        L += ['R %s' % key, 'R %s' % other, 'close', 'open', 'R %s' % key, 'R %s' % other, 'counts', 'close', 'ls']
        L += ['tool validate_blob %d' % i for i in range(5)] + ['rmindex %d' % i for i in range(5)] + ['open', 'R %s' % key, 'R %s' % other]
        return '\n'.join(L) + '\n'
    if rng.random() < 0.6:
        seed += 1
        L += ['create_active', 'W %s 5 - 5 %d' % (other, seed)]
    if rng.random() < 0.3:
        # bring the index of the last closed blob into memory first (a completed delete of the other key)
        L.append('D %s 40 - 1' % other)
    qs = ['R %s' % key, 'R %s' % other]
    L += qs
    L.append('fail append .blob %d delay:%d' % (rng.choice([0, 0, 1]), rng.choice([30, 60])))
    L.append('cancel %d D %s 50 - 1' % (rng.choice([1, 2, 3, 4, 5, 6, 8]), key))
    L.append('clearfail')
    L.append('quiesce')
    L += qs + ['counts']
    L += ['close', 'open'] + qs + ['counts', 'close', 'ls']
    L += ['tool validate_blob %d' % i for i in range(5)]
    L += ['rmindex %d' % i for i in range(5)]
    L += ['open'] + qs
    return '\n'.join(L) + '\n'


DEFAULT_BLOOM = struct.pack('<QQQQd', 100000, 2, 8388608, 8196, 0.001).hex()     # pearl's default filter config (a 760 KiB buffer)


def gen_offload_restore_script(rng):
    """A restore of the active blob (the index of the last closed blob is loaded from its file: records first, then the
    filter section, 760 KiB with the default filter config) dropped after k polls, after the filter buffers were
    off-loaded: whatever the k, later operations -- the final close with its index dump above all -- succeed."""
    L = ['cfg K=4 dup=1 group=2 bloom=%s init=eager runtime=%s nomodel=1' % (DEFAULT_BLOOM, rng.choice(['ct', 'ct', 'mt'])), 'open', 'nop offload-restore']
    n = rng.choice([5, 40])
    for i in range(n):
        L.append('W %08x 5 - 5 %d' % (i + 1, i + 1))
    L += ['close', 'cfgnext init=lazy', 'open', 'offload 18446744073709551615 %d' % rng.choice([0, 0, 1])]
    # the dropped operation reads the index of a closed blob into memory: a restore of the active blob, or a delete
    # whose marker goes into that closed blob
    k = rng.choice([1, 2, 2, 3, 4, 5, 6, 8, 12])
    L.append(rng.choice(['cancel %d restore_active' % k, 'cancel %d restore_active' % k, 'cancel %d D 00000005 50 - 1' % k]))
    if rng.random() < 0.6:
        # the filter buffers are dropped again (they are re-read from the place in the index file the index remembers)
        L += ['offload 18446744073709551615 %d' % rng.choice([0, 1]), 'R 00000003', 'R 00000999']
    L += ['restore_active', 'W 00000100 6 - 5 100', 'R 00000003', 'R 00000100', 'close', 'open', 'R 00000003', 'R 00000100', 'counts', 'close']
    return '\n'.join(L) + '\n'


def gen(tier, rng):
    n = 220 if tier == 'quick' else 5000
    return [('cancel%05d' % i, gen_script(rng)) for i in range(n)] + [('cdel%05d' % i, gen_closed_delete_script(rng)) for i in range(n // 4)] + [('offrest%05d' % i, gen_offload_restore_script(rng)) for i in range(n // 10)] + [('inflight%05d' % i, gen_inflight_script(rng)) for i in range(n // 8)]


def replay(lines, io, mode):
    L2 = []
    for i, l in enumerate(lines):
        t = l.split()
        o = io[i] if i < len(io) else ''
        if t[0] in ('fail', 'clearfail', 'tool'):
            L2.append('nop')
        elif t[0] == 'cancel':
            done = o.startswith('cancel done')
            failed = ' Err ' in o
            if (done and not failed) or (not done and mode == 'all'):
                L2.append(' '.join(t[2:]))
            else:
                L2.append('nop')
        elif t[0] in ('W', 'D') and ' Err ' in o:
            L2.append('nop')
        else:
            L2.append(l)
    drv = os.path.join(C.CACHE, 'driver')
    with tempfile.TemporaryDirectory(dir=os.environ.get('VERIF_TMP', '/tmp')) as td:
        sp = os.path.join(td, 'r.txt')
        open(sp, 'w').write('\n'.join(L2) + '\n')
        subprocess.run([drv, sp, sp + '.out'], timeout=120)
        spec = open(sp + '.out.spec').read().split('\n') if os.path.exists(sp + '.out.spec') else []
    return spec


def oracle(lines, io, spec=None):
    fails = []
    ci = next((i for i, l in enumerate(lines) if l.startswith('cancel ')), None)
    if ci is None or ci >= len(io):
        return fails
    if 'nop offload-restore' in lines:
        # finding F33 (repaired): only "later operations succeed and the data is served" is judged here
        if len(io) < len(lines):
            fails.append('line %d `%s` after the cancelled operation: the session ended there (%s)' % (len(io), lines[len(io)], io[-1][:160] if io else '-'))
        for i in range(ci + 1, min(len(lines), len(io))):
            l, o = lines[i], io[i]
            if l == 'R 00000999' and o != 'R NotFound':
                fails.append('line %d `%s` after the cancelled operation: %s' % (i, l, o))
            if l.startswith('W ') and o != 'W ok':
                fails.append('line %d `%s` after the cancelled restore: %s' % (i, l, o))
            if l in ('close', 'open') and o != l + ' ok':
                fails.append('line %d `%s` after the cancelled restore: %s' % (i, l, o))
            if l == 'R 00000003' and o != 'R Found 5 3':
                fails.append('line %d `%s` after the cancelled restore: %s' % (i, l, o))
            if l == 'R 00000100' and o != 'R Found 5 100':
                fails.append('line %d `%s` after the cancelled restore: %s' % (i, l, o))
        return fails[:4]
    kind = lines[ci].split()[2]
    dropped = io[ci] == 'cancel dropped'
    s_none = replay(lines, io, 'none')
    s_all = replay(lines, io, 'all') if dropped else s_none
    f2 = any(o.endswith('Err Index') for o in io)
    # F18 is about bytes that reached the ACTIVE blob (its index is dumped from memory at close with the current blob
    # size): a cancelled write, or a cancelled delete whose marker goes to the active blob
    ct = lines[ci].split()
    def active_may_hold(k):
        last = max([i for i in range(ci) if lines[i].split()[0] in ('close_active', 'bg_close', 'force_update', 'open')] + [0])
        return any(lines[i].split()[0] in ('W', 'D') and lines[i].split()[1] == k for i in range(last, ci))
    f18_applies = kind == 'W' or (kind == 'D' and (ct[-1] == '0' or active_may_hold(ct[3])))
    opens = [i for i, l in enumerate(lines) if l == 'open']
    first_restart = opens[1] if len(opens) > 1 else None
    second_restart = opens[2] if len(opens) > 2 else None
    state = {}      # key -> 'none' | 'all' once it is distinguishable
    after_first = {}
    for i in range(ci + 1, min(len(lines), len(io))):
        l = lines[i]
        if not l.startswith('R ') or i >= len(s_none) or i >= len(s_all):
            continue
        key = l.split()[1]
        a = s_none[i][3:] if s_none[i].startswith('ok ') or s_none[i].startswith('f2 ') else None
        b = s_all[i][3:] if s_all[i].startswith('ok ') or s_all[i].startswith('f2 ') else None
        if a is None or b is None:
            continue
        got = io[i]
        base = '[F2] ' if f2 else ''
        if got != a and got != b:
            tag = base or ('[F15] ' if (kind == 'close_active' and dropped) else '')
            fails.append(tag + 'line %d `%s` after `%s` (%s): `%s`; without the operation `%s`, with it `%s`' % (i, l, lines[ci], io[ci], got, a, b))
            break
        if a != b:
            which = 'none' if got == a else 'all'
            phase = 0 if (first_restart is None or i < first_restart) else (1 if (second_restart is None or i < second_restart) else 2)
            prev = state.get(key)
            if prev == 'all' and which == 'none':
                fails.append(base + 'line %d `%s`: the cancelled operation had taken effect and is undone later' % (i, l))
                break
            if phase == 2 and after_first.get(key) == 'none' and which == 'all':
                fails.append((base or ('[F18] ' if f18_applies else '')) + 'line %d `%s`: the cancelled `%s` was absent after the first restart and takes effect only after the index files were removed: `%s`' % (i, l, lines[ci], got))
                break
            state[key] = which
            if phase == 1:
                after_first[key] = which
    # later operations succeed, every blob parses completely
    for i in range(ci + 1, min(len(lines), len(io))):
        t = lines[i].split()[0]
        if t == 'W' and io[i] != 'W ok' and not f2 and not lines[i - 1].startswith('fail append'):
            fails.append('line %d `%s` after the cancellation: %s' % (i, lines[i], io[i]))
        if t == 'open' and io[i] != 'open ok':
            fails.append('line %d: init failed after the cancellation: %s' % (i, io[i]))
        if lines[i].startswith('tool validate_blob') and io[i] == 'tool validate_blob Err':
            # absent blobs report Err too: only count files that exist (have a size in the last listing) -> use counts
            idn = int(lines[i].split()[2])
            cl = next((io[j] for j in range(i, 0, -1) if lines[j] == 'counts' and io[j].startswith('counts')), '')
            nxt = int(re.search(r'next=(\d+)', cl).group(1)) if cl else 0
            if idn < nxt:
                lsl = next((io[j] for j in range(i, 0, -1) if lines[j] == 'ls' and io[j].startswith('ls')), '')
                m = re.search(r't\.%d\.blob:(\d+)' % idn, lsl)
                size = int(m.group(1)) if m else -1
                if size < 0:
                    continue        # quarantined earlier or never created
                tag = '[F2] ' if f2 else ('[F19] ' if size < 20 else '')
                fails.append(tag + 'line %d: blob %d (%d bytes) does not parse completely after the cancellation' % (i, idn, size))
    return fails[:5]


classify = C.default_classify


def signature(lines, io):
    c = next((l for l in lines if l.startswith('cancel ')), '')
    f = next((l for l in lines if l.startswith('fail ')), '')
    ci = lines.index(c) if c in lines else 0
    return hash((lines[0].split('runtime=')[1][:2], tuple(c.split()[1:3]), f.split()[1] if f else '', io[ci] if ci < len(io) else '', tuple(o.split()[1] if len(o.split()) > 1 else '' for o in io[-3:])))
