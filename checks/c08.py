"""C08 Concurrent clients: linearizable results, no lost or torn records."""
import re
from . import common as C

TIMEOUT = 1800
RULE = ('real concurrent runs: 2-64 client tasks (thorough: up to 3000) x 5-40 operations each (write 1 B..5 KB / delete / '
        'read / contains, plus maintenance tasks doing close_active / force_update / free_excess) on 1-3 keys with globally '
        'unique timestamps, on fresh and on reopened (append-mode) blobs, small max_data_in_blob so that rotation and dumps '
        'run underneath, multi-thread and current-thread runtimes; the harness records invocation/response order. Checked: '
        'every completed read/contains returns a record that was written to that key before the read returned and is not '
        'older than every write/delete acknowledged before it started; at quiescence the version list of every key is exactly '
        'the acknowledged history (timestamps descending, cut after the newest marker); every blob validates; after restart '
        '(index files removed) the same answers; no operation hangs; distinct by (cfg, tasks, ops, outcome signature)')
ASSUMPTIONS = ['the real scheduler, lock fairness and memory model are sampled, not enumerated', 'timestamps are unique per operation, so rank = timestamp']


def gen_script(rng, tier):
    rt = rng.choice(['mt', 'mt', 'ct'])
    dup = 1
    tasks = rng.choice([2, 4, 8, 16, 32, 64]) if tier == 'quick' else rng.choice([2, 8, 64, 256, 1000])
    ops = rng.choice([5, 10, 20, 40]) if tasks <= 64 else 3
    keys = rng.choice([1, 2, 3])
    kinds = rng.choice(['WR', 'WWRD', 'WRDC', 'WWRDCM', 'WRM', 'WRDSM', 'RRDDSSM', 'WRDS'])     # S: the statistics calls
    L = ['cfg K=4 dup=%d group=%d bloom=%s init=eager runtime=%s maxrec=%d' % (dup, rng.choice([2, 8]), 'none', rt, rng.choice([7, 30, 100000])), 'open']
    reopened = rng.random() < 0.5
    if reopened:
        L += ['W 00000001 5 - 5 5', 'close', 'open']
    L.append('sleep 210')
    L.append('par tasks=%d ops=%d keys=%d seed=%d kinds=%s base=1000' % (tasks, ops, keys, rng.randrange(1, 10**6), kinds))
    L.append('quiesce')
    qs = []
    for i in range(keys):
        k = '%08x' % (i + 1)
        qs += ['R %s' % k, 'RD %s' % k]
    L += qs + ['counts', 'close', 'ls']
    L += ['tool validate_blob %d' % i for i in range(12)]
    L += ['rmindex %d' % i for i in range(12)]
    L += ['open'] + qs
    return '\n'.join(L) + '\n'


def gen_spread_script(rng, tier):
    """Many keys and a small blob: dozens of blob switches happen under the clients, every closed blob takes its place
    in the filter tree (more than one level of it) while reads go on; every key is read at quiescence."""
    keys = rng.choice([20, 50, 120])
    L = ['cfg K=4 dup=1 group=%d bloom=none init=eager runtime=%s maxrec=%d' % (rng.choice([2, 8]), rng.choice(['mt', 'mt', 'ct']), rng.choice([5, 7, 12])), 'open', 'sleep 210']
    L.append('par tasks=%d ops=%d keys=%d seed=%d kinds=%s base=1000' % (rng.choice([8, 16, 32]), rng.choice([10, 20]), keys, rng.randrange(1, 10**6), rng.choice(['W', 'WWR', 'WWRD', 'WWRM'])))
    L.append('quiesce')
    qs = []
    for i in range(keys):
        qs += ['R %08x' % (i + 1), 'RD %08x' % (i + 1)]
    L += qs + ['counts', 'close', 'open'] + qs
    return '\n'.join(L) + '\n'


def gen_lock_script(rng, tier):
    """Default mode (duplicates disallowed: the duplicate check re-enters the storage lock), many clients on the
    multi-thread runtime, one operation in six a storage-lock WRITER (close / force_update / free_excess): no
    operation may hang."""
    tasks = rng.choice([8, 16, 32])
    L = ['cfg K=4 dup=0 group=%d bloom=none init=eager runtime=mt maxrec=%d' % (rng.choice([2, 8]), rng.choice([30, 100000])), 'open', 'sleep 210']
    L.append('par tasks=%d ops=%d keys=%d seed=%d kinds=%s base=1000' % (tasks, rng.choice([60, 100]), rng.choice([3, 50]), rng.randrange(1, 10**6), rng.choice(['WWWWWM', 'WWWWWWWM', 'WWRWWM'])))
    L.append('quiesce')
    L += ['R 00000001', 'counts', 'close']
    return '\n'.join(L) + '\n'


def gen_delete_storm_script(rng):
    """Thousands of clients deleting keys that live in a CLOSED blob (each such delete notifies the worker while it holds
    the storage lock) while blob switches need the exclusive lock: nothing may hang."""
    nkeys = rng.choice([2500, 3000])
    L = ['cfg K=4 dup=1 group=8 bloom=none init=eager runtime=%s maxrec=%d' % (rng.choice(['mt', 'ct']), rng.choice([200, 100000])), 'open', 'sleep 210']
    L.append('par tasks=%d ops=1 keys=%d seed=%d kinds=W base=1000' % (nkeys, nkeys, rng.randrange(1, 10**6)))
    L += ['quiesce', 'close_active', 'create_active', 'sleep 210']
    L.append('par tasks=%d ops=1 keys=%d seed=%d kinds=%s base=900000' % (nkeys, nkeys, rng.randrange(1, 10**6), rng.choice(['D', 'DDDM', 'DDW'])))
    L += ['quiesce', 'counts', 'close']
    return '\n'.join(L) + '\n'


def gen(tier, rng):
    n = 60 if tier == 'quick' else 800
    return [('conc%05d' % i, gen_script(rng, tier)) for i in range(n)] + [('lock%05d' % i, gen_lock_script(rng, tier)) for i in range(n // 6)] + [('storm%05d' % i, gen_delete_storm_script(rng)) for i in range(max(2, n // 30))] + [('spread%05d' % i, gen_spread_script(rng, tier)) for i in range(n // 6)]


def parse_par(o):
    evs = []
    for tok in o.split()[1:]:
        t, inv, ret, res = tok.split('/')
        f = res.split(':')
        evs.append(dict(task=int(t), inv=int(inv), ret=int(ret), kind=f[0], key=int(f[1]), a=f[2], b=f[3], c=f[4] if len(f) > 4 else ''))
    return evs


def oracle(lines, io, spec=None):
    fails = []
    pi = next((i for i, l in enumerate(lines) if l.startswith('par ')), None)
    if pi is None or pi >= len(io):
        return fails
    for pj, pl in enumerate(lines):
        if pl.startswith('par ') and pj != pi and pj < len(io) and io[pj].endswith('Timeout'):
            return ['concurrent operations did not finish (deadlock?): %s' % pl]
    if len([l for l in lines if l.startswith('par ')]) > 1:
        # delete storm: liveness and error classes only
        bad = [o for l, o in zip(lines, io) if l.startswith('par ') and ('Err_' in o and 'Err_ActiveBlobNotSet' not in o)]
        if io[pi].endswith('Timeout'):
            return ['concurrent operations did not finish (deadlock?): %s' % lines[pi]]
        return ['operation failed under concurrency: %s' % bad[0][:200]] if bad else []
    if io[pi] == 'par Timeout' or io[pi].endswith('Timeout'):
        m = re.search(r'tasks=(\d+)', lines[pi])
        tag = '[F10] ' if (m and int(m.group(1)) > 1024) else ''
        return [tag + 'concurrent operations did not finish (deadlock?): %s' % lines[pi]]
    evs = parse_par(io[pi])
    if 'dup=0' in lines[0] and any(e['kind'] in ('R', 'C') for e in evs):
        # default mode with readers: a write of an existing key is acknowledged without being stored, the window
        # check below does not apply; only liveness and error classes are judged here
        bad = [e for e in evs if (e['kind'] == 'W' and e['c'] not in ('ok', 'Err_ActiveBlobNotSet')) or (e['kind'] in ('R', 'C') and e['a'].startswith('Err'))]
        return ['operation failed under concurrency: %s' % bad[0]] if bad else []
    pre = {}     # key index -> list of (ts, kind) existing before par (script-level W before)
    for l in lines[:pi]:
        t = l.split()
        if t[0] == 'W':
            pre.setdefault(int(t[1], 16) - 1, []).append((int(t[2]), 'W', int(t[4])))
    muts = {}
    for e in evs:
        if e['kind'] == 'W':
            if e['c'] != 'ok':
                # a write racing with a manual close of the active blob may report ActiveBlobNotSet: it is then
                # simply not acknowledged; any other error class is reported
                if e['c'] != 'Err_ActiveBlobNotSet':
                    fails.append('write failed under concurrency: %s' % e)
                continue
            muts.setdefault(e['key'], []).append(dict(ts=int(e['a']), kind='W', len=int(e['b']), inv=e['inv'], ret=e['ret']))
        elif e['kind'] == 'D':
            if e['c'] != 'ok':
                fails.append('delete failed under concurrency: %s' % e)
                continue
            if int(e['b']) >= 1:
                muts.setdefault(e['key'], []).append(dict(ts=int(e['a']), kind='D', len=0, inv=e['inv'], ret=e['ret']))
    # reads during the run
    for e in evs:
        if e['kind'] not in ('R', 'C'):
            continue
        k = e['key']
        cand = muts.get(k, [])
        done_before = [m for m in cand if m['ret'] < e['inv']] + [dict(ts=t, kind='W') for (t, _, _) in pre.get(k, [])]
        started_before_end = [m for m in cand if m['inv'] < e['ret']]
        lower = max([m['ts'] for m in done_before], default=None)
        cls, val = e['a'], int(e['b']) if e['b'].isdigit() else 0
        if cls.startswith('Err'):
            fails.append('read failed under concurrency: %s' % e)
            continue
        if cls == 'N':
            if lower is not None:
                fails.append('read of key %d returned NotFound although an operation with ts %d was acknowledged before it started' % (k, lower))
            continue
        if e['kind'] == 'R' and cls == 'F' and val == 0:
            fails.append('read of key %d returned bytes that no client wrote (torn or foreign record): %s' % (k, e))
            continue
        ts = val
        legal = {m['ts']: m['kind'] for m in started_before_end}
        for (t, _, _) in pre.get(k, []):
            legal[t] = 'W'
        if ts not in legal:
            fails.append('read of key %d returned ts %d which was not written to that key before the read returned' % (k, ts))
        elif (legal[ts] == 'W') != (cls == 'F'):
            fails.append('read of key %d: result class %s does not match the operation with ts %d (%s)' % (k, cls, ts, legal[ts]))
        if lower is not None and ts < lower:
            fails.append('stale read of key %d: returned ts %d, but ts %d was acknowledged before the read started' % (k, ts, lower))
    # quiescent state = the acknowledged history
    def expected_list(k):
        ms = muts.get(k, []) + [dict(ts=t, kind='W', len=ln) for (t, _, ln) in pre.get(k, [])]
        dmax = max([m['ts'] for m in ms if m['kind'] == 'D'], default=None)
        ws = sorted([m for m in ms if m['kind'] == 'W' and (dmax is None or m['ts'] > dmax)], key=lambda m: -m['ts'])
        out = ['(%d,0,m0,%d:%d)' % (m['ts'], m['len'], m['ts']) for m in ws]
        if dmax is not None:
            out.append('(%d,1,m0,0:0)' % dmax)
        return 'RD [%s]' % ' '.join(out)
    dup0 = 'dup=0' in lines[0]
    for i in range(pi + 1, min(len(lines), len(io))):
        l = lines[i]
        if l.startswith('RD ') and dup0:
            # duplicates disallowed, writers only: sequentially exactly one write of a key is stored
            n = io[i].count('(')
            if n > 1:
                fails.append('[F12] line %d `%s`: %d records stored for one key although duplicates are disallowed (check-then-append is not atomic)' % (i, l, n))
            continue
        if l.startswith('RD '):
            k = int(l.split()[1], 16) - 1
            want = expected_list(k)
            if io[i] != want:
                fails.append('line %d `%s` at quiescence: `%s`, the acknowledged history implies `%s`' % (i, l, io[i][:300], want[:300]))
        if l == 'open' and io[i] != 'open ok':
            fails.append('init failed after the concurrent run: %s' % io[i])
        if l.startswith('tool validate_blob') and io[i] == 'tool validate_blob Err':
            lsl = next((io[j] for j in range(i, 0, -1) if lines[j] == 'ls'), '')
            if re.search(r't\.%s\.blob:' % l.split()[2], lsl):
                fails.append('line %d: blob %s does not parse after the concurrent run (overlapping / interleaved records?)' % (i, l.split()[2]))
    return fails[:6]


classify = C.default_classify


def signature(lines, io):
    p = next((l for l in lines if l.startswith('par ')), '')
    pi = lines.index(p) if p in lines else 0
    n = len(io[pi].split()) if pi < len(io) else 0
    return hash((lines[0], re.sub(r'seed=\d+', '', p), n // 10, 'reopen' in ' '.join(lines[:pi]) or ('close' in lines[:pi])))
