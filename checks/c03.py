"""C03 Restart equivalence: index files are a disposable cache of the blobs."""
import re
from .gen_storage import Gen
from . import common as C

ALSO_RELEASE = True
RULE = ('storage histories (deletes into already-indexed blobs = stale indexes, sessions ended with close or without '
        'it); between two sessions each index file gets one damage pattern: removed / truncated at a length (every '
        'section boundary +-2, inside header, inside the filter section, inside the tree, inside the leaves, random) / '
        'header only / written-flag cleared / recorded blob size changed; reopen eager and lazy, optionally off-loading the re-read bloom filters; every query + counts '
        'must equal the answers before the close; many-blobs stream: 11-15 blobs with equal-timestamp versions of a key in several of them; index-open stream: an index file written through hook H2 is cut at a length / has one header or tree-meta field overwritten and is opened again, outcome class = Coq index_open; next_blob_id must stay above all ids; debug and release builds; '
        'distinct by (cfg, damage class, outcome class)')
ASSUMPTIONS = ['bit rot inside an index file that keeps header, meta and root parseable is not in the property\'s list']


def gen_script(rng):
    g = Gen(rng, queries=(), maint=0.3, restart=0.0, deletes=0.2, bg=0.0, nops=rng.randrange(6, 18), lazy=False,
            runtime=rng.choice(['mt', 'ct']))
    text = g.build()
    L = text.strip().split('\n')
    qs = []
    for k in g.keys:
        qs += ['R %s' % k, 'C %s' % k, 'RD %s' % k]
    if rng.random() < 0.12:
        # a history with one failed (or short) record append: the blob keeps a gap where the record should have been
        pos = rng.randrange(2, len(L) + 1)
        L[pos:pos] = ['fail append .blob 0 %s' % rng.choice(['ENOSPC', 'short:0', 'short:30', 'short:61']),
                      'W %s 6 - %d 901' % (g.keys[0], rng.choice([5, 300])), 'clearfail', 'W %s 8 - 5 902' % g.keys[-1]]
    stale = rng.random() < 0.45
    if stale:
        # deletes whose markers go into already-indexed closed blobs, with the worker NOT given the chance to
        # re-dump those indexes before the session ends: the index files on disk describe shorter blobs
        L.append('autoquiesce 0')
        for k in rng.sample(g.keys, min(len(g.keys), rng.choice([1, 2, 3]))):
            L.append('D %s %d - %d' % (k, rng.choice([3, 50, 120]), rng.choice([1, 1, 0])))
    L.append('#PRE')
    L += qs + ['counts', 'ls']
    L.append(rng.choice(['close', 'close', 'drop']))
    # every index file left in the directory, byte for byte against the model's index_file_bytes (hash and record
    # checksums masked): header, filter section (range + bloom bits), tree, leaves
    L += ['filehex index %d' % i for i in range(4)]
    if stale:
        L.append('autoquiesce 1')
    # damage: one pattern on one or two index files
    for _ in range(rng.choice([1, 1, 2])):
        idx = rng.randrange(0, 4)
        pat = rng.choice(['rm', 'trunc', 'trunc', 'trunc', 'hdronly', 'unwritten', 'stale'])
        if pat == 'rm':
            L.append('rmindex %d' % idx)
        elif pat == 'trunc':
            L.append('filehex index %d' % idx)
            L.append('#TRUNC index %d %s' % (idx, rng.choice(['hdr', 'meta', 'treemeta', 'tree', 'leaves', 'rand'])))
            # the length is chosen by a second line interpreted by the harness relative to the file: use fixed menu
            L.append('trunc index %d %d' % (idx, rng.choice([0, 1, 40, 82, 83, 84, 100, 130, 150, 165, 166, 167, 180, 200, 230, 260, 300, 340, 400, 500, 800])))
        elif pat == 'hdronly':
            L.append('trunc index %d 83' % idx)
        elif pat == 'unwritten':
            L.append('filehex index %d' % idx)
            L.append('patch index %d 72 0c' % idx)          # version byte: HEADER_VERSION<<1 with written bit clear
        else:
            L.append('filehex index %d' % idx)
            L.append('patch index %d 75 %s' % (idx, (rng.randrange(1, 60)).to_bytes(8, 'little').hex()))
    L.append('cfgnext init=%s' % rng.choice(['eager', 'lazy']))
    L.append('open')
    if rng.random() < 0.4:
        # filters re-read from the index files, their bloom buffers dropped: the probes go to the files
        L.append('offload %d %d' % (rng.choice([1, 1000000]), rng.choice([0, 1, 2])))
    L += qs + ['counts']
    # the storage must keep working and the next restart must agree as well
    L += ['W %s 1000 - 5 777' % g.keys[0], 'R %s' % g.keys[0], 'close', 'open', 'R %s' % g.keys[0]]
    return '\n'.join(L) + '\n'


def gen_index_open_script(rng):
    """The crate-private index (hook H2) writes an index file; the file is cut at a chosen length or one header
    field is overwritten; then it is opened as Blob::from_file opens it. Outcome (ok / error class) compared with
    the Coq model Index/Open.v index_open on the model's own bytes of that file."""
    K = rng.choice([1, 4, 8, 32])
    n = rng.choice([1, 2, 3, 7, 40, 200])
    L = ['cfg K=%d' % K, 'idx new 0 none']
    off = 20
    for i in range(n):
        key = (2 * (i % (256 if K == 1 else 10**6)) % (256 ** K)).to_bytes(K, 'big').hex()
        L.append('idx push 0 %s %d 0 8 5 %d' % (key, rng.choice([5, 7, 9]), off))
        off += 57 + K + 13
    bsize = off
    L.append('idx dump 0 %d' % bsize)
    L.append('idx filehex 0')
    L.append('idx drop 0')
    meta = 8 + (8 + K) * 2 + 1 + 56          # range filter raw + empty bloom raw
    tree_meta = 83 + meta
    tree_off = tree_meta + 16
    total_guess = tree_off + 4096 + n * (57 + K)
    kind = rng.choice(['cut', 'cut', 'cut', 'field', 'bsize', 'none'])
    if kind == 'cut':
        cls = rng.choice(['hdr', 'meta', 'treemeta', 'tree', 'leaves', 'leaves', 'lastbyte', 'rand'])
        if cls == 'hdr': m = rng.randrange(0, 83)
        elif cls == 'meta': m = rng.randrange(83, tree_meta)
        elif cls == 'treemeta': m = rng.choice([tree_meta, tree_meta + 1, tree_meta + 8, tree_meta + 15, tree_off, tree_off + 1])
        elif cls == 'tree': m = rng.randrange(tree_off, tree_off + 4096)
        elif cls == 'leaves': m = tree_off + rng.randrange(1, 4096 * 3) + rng.randrange(0, n * (57 + K) + 1)
        elif cls == 'lastbyte': m = -1
        else: m = rng.randrange(0, total_guess)
        L.append('idx cut 0 %s' % (m if m >= 0 else 'last'))
    elif kind == 'field':
        pos, val = rng.choice([(0, 'ff'), (72, '0c'), (72, '0f'), (72, '0b'), (73, (K + 1).to_bytes(2, 'little').hex()),
                               (8, (n + 1).to_bytes(8, 'little').hex()), (8, (n + 1000).to_bytes(8, 'little').hex()),
                               (16, (58 + K).to_bytes(8, 'little').hex()), (75, (bsize + 1).to_bytes(8, 'little').hex()),
                               (tree_meta, (10**6).to_bytes(8, 'little').hex()), (tree_meta + 8, (10**6).to_bytes(8, 'little').hex())])
        L.append('idx poke 0 %d %s' % (pos, val))
    open_bs = bsize if kind != 'bsize' else bsize + rng.choice([-1, 1, 100])
    L.append('idx open 0 none %d' % open_bs)
    return '\n'.join(L) + '\n'


def gen_many_blobs_script(rng):
    """More than ten blobs (two-digit ids next to one-digit ids), the same key with EQUAL timestamps in several of
    them (the newest blob wins a tie), restart eager / lazy with any subset of index files removed: same answers,
    same per-blob counts in the same order, same active blob."""
    K = 4
    nb = rng.choice([11, 12, 13, 15])
    L = ['cfg K=4 dup=1 group=%d bloom=none init=eager runtime=%s' % (rng.choice([2, 8]), rng.choice(['mt', 'ct'])), 'open']
    keys = ['00000001', '00000002', '00000003']
    seed = 0
    for b in range(nb):
        for _ in range(rng.choice([1, 1, 2])):
            seed += 1
            L.append('W %s %d - 5 %d' % (rng.choice(keys[:2]), rng.choice([5, 5, 7]), seed))
        if b < nb - 1:
            L.append('close_active')
    qs = []
    for k in keys:
        qs += ['R %s' % k, 'C %s' % k, 'RD %s' % k]
    L.append('#PRE')
    L += qs + ['counts', 'ls']
    L.append(rng.choice(['close', 'drop']))
    for i in rng.sample(range(nb), rng.choice([0, 0, 1, 3, nb])):
        L.append('rmindex %d' % i)
    L.append('cfgnext init=%s' % rng.choice(['eager', 'lazy']))
    L.append('open')
    L += qs + ['counts']
    L += ['W %s 1000 - 5 777' % keys[0], 'R %s' % keys[0], 'close', 'open', 'R %s' % keys[0]]
    return '\n'.join(L) + '\n'


def gen_wide_script(rng):
    """One blob with 35..120 records of two to four interleaved keys and only two timestamp values (long runs of equal
    timestamps, which are ranked by their order in the blob), index file removed or made useless: the rebuilt index has to
    rank the ties exactly as the live one did."""
    K = 4
    nk = rng.choice([2, 3, 4])
    keys = [(i + 1).to_bytes(K, 'big').hex() for i in range(nk)]
    L = ['cfg K=4 dup=1 group=2 bloom=none init=eager runtime=%s' % rng.choice(['mt', 'ct']), 'open']
    n = rng.choice([35, 48, 70, 120])
    for seed in range(1, n + 1):
        L.append('W %s %d - %d %d' % (rng.choice(keys), rng.choice([5, 5, 7]), rng.choice([5, 9]), seed))
    qs = []
    for k in keys:
        qs += ['R %s' % k, 'C %s' % k, 'RD %s' % k]
    L.append('#PRE')
    L += qs + ['counts']
    L.append(rng.choice(['close', 'drop']))
    L.append(rng.choice(['rmindex 0', 'rmindex 0', 'trunc index 0 83', 'trunc index 0 200']))
    L.append('cfgnext init=%s' % rng.choice(['eager', 'lazy']))
    L.append('open')
    L += qs + ['counts']
    L += ['W %s 1000 - 5 777' % keys[0], 'R %s' % keys[0], 'close', 'open', 'R %s' % keys[0]]
    return '\n'.join(L) + '\n'


def gen_halfwritten_script(rng):
    """The dump of an index file is interrupted (its body is written short): what is left on disk must not claim to be
    complete -- the `written` flag of the header goes into the file only after the body is there -- and the next start
    recomputes the index from the blob."""
    K = 4
    L = ['cfg K=4 dup=1 group=2 bloom=none init=eager runtime=%s nomodel=1' % rng.choice(['mt', 'ct']), 'open', 'nop half-written']
    keys = [(i + 1).to_bytes(K, 'big').hex() for i in range(rng.choice([3, 8, 30]))]
    for i, k in enumerate(keys):
        L.append('W %s 5 - 5 %d' % (k, i + 1))
    qs = []
    for k in keys[:6]:
        qs += ['R %s' % k, 'RD %s' % k]
    L.append('#PRE')
    L += qs + ['counts']
    L.append('fail append .index 0 short:%d' % rng.choice([90, 150, 200, 260]))
    L.append('close')
    L.append('filehex index 0')
    L.append('cfgnext init=%s' % rng.choice(['eager', 'lazy']))
    L.append('open')
    L += qs + ['counts']
    L += ['W %s 1000 - 5 777' % keys[0], 'R %s' % keys[0], 'close', 'open', 'R %s' % keys[0]]
    return '\n'.join(L) + '\n'


def gen_prefix_script(rng):
    """The blob file name prefix is a free configuration string: prefixes that contain dots (finding F28: the id was
    taken from behind the FIRST dot of the file name), with index files removed or not."""
    g = Gen(rng, queries=(), maint=0.3, restart=0.0, deletes=0.2, bg=0.0, nops=rng.randrange(4, 12), lazy=False,
            runtime=rng.choice(['mt', 'ct']), extra_cfg=' prefix=%s' % rng.choice(['my.pre', 'a.b.c', 'x.1', 'v2.0', 'p-q_r']))
    L = g.build().strip().split('\n')
    qs = []
    for k in g.keys:
        qs += ['R %s' % k, 'C %s' % k, 'RD %s' % k]
    L.append('#PRE')
    L += qs + ['counts']
    L.append(rng.choice(['close', 'close', 'drop']))
    for i in rng.sample(range(4), rng.choice([0, 0, 1, 2])):
        L.append('rmindex %d' % i)
    L.append('cfgnext init=%s' % rng.choice(['eager', 'lazy']))
    L.append('open')
    L += qs + ['counts']
    L += ['W %s 1000 - 5 777' % g.keys[0], 'R %s' % g.keys[0], 'force_update always', 'counts', 'close', 'open', 'R %s' % g.keys[0], 'counts']
    return '\n'.join(L) + '\n'


def gen(tier, rng):
    n = 240 if tier == 'quick' else 5000
    return [('many%05d' % i, gen_many_blobs_script(rng)) for i in range(max(4, n // 20))] + [('restart%05d' % i, gen_script(rng)) for i in range(n)] + [('idxopen%05d' % i, gen_index_open_script(rng)) for i in range(n // 2)] + [('prefix%05d' % i, gen_prefix_script(rng)) for i in range(n // 12)] + [('wide%05d' % i, gen_wide_script(rng)) for i in range(n // 12)] + [('halfwritten%05d' % i, gen_halfwritten_script(rng)) for i in range(n // 20)]


def parse_counts(o):
    return dict(kv.split('=') for kv in o.split()[1:]) if o.startswith('counts') else {}


def oracle(lines, io, spec=None):
    fails = []
    end = next((i for i, l in enumerate(lines) if l in ('close', 'drop')), None)
    if end is None:
        return fails
    if 'nop half-written' in lines:
        fh = next((i for i, l in enumerate(lines) if l == 'filehex index 0'), None)
        if fh is not None and fh < len(io) and io[fh].startswith('filehex ') and io[fh] != 'filehex absent':
            b = bytes.fromhex(io[fh].split()[1])
            if len(b) > 72 and b[72] & 1:
                fails.append('line %d: the index file whose dump was interrupted (%d bytes on disk) carries the `written` flag' % (fh, len(b)))
    open_i = next((i for i in range(end, len(lines)) if lines[i] == 'open'), None)
    if open_i is None or open_i >= len(io):
        return ['script did not reach the re-open']
    pre = {}
    for i in range(end):
        t = lines[i].split()[0]
        if t in ('R', 'C', 'RD'):
            pre[lines[i]] = io[i]
        if t == 'counts':
            pre['counts'] = io[i]
    # F2 in the history: the log and the indexes already disagree before the restart
    f2 = any(o in ('W Err Index', 'D Err Index') for o in io[:end])
    # classify the damage for known-finding tags
    tag = ''
    for i in range(end, open_i):
        l = lines[i].split()
        if l[0] == 'trunc' and l[1] == 'index' and io[i] == 'trunc ok':
            n = int(l[3])
            hexline = next((io[j] for j in range(end, i) if lines[j] == 'filehex index %s' % l[2] and io[j].startswith('filehex ')), None)
            if hexline and hexline != 'filehex absent':
                b = bytes.fromhex(hexline.split()[1])
                meta = int.from_bytes(b[24:32], 'little')
                tree_off = 83 + meta + 16
                if tree_off <= n < len(b):
                    tag = '[F5] '
    # F21 is the class "a record append wrote SHORT (at least one byte of the record reached the blob file)"; an append that
    # failed without writing anything leaves no trace since f669484 and is not in the class
    def short_positive(l):
        t = l.split()
        return len(t) >= 5 and t[0] == 'fail' and t[1] == 'append' and t[2] == '.blob' and t[4].startswith('short:') and int(t[4][6:]) > 0
    if any(short_positive(l) for l in lines[:end]) and any(' Err Io' in o for o in io[:end]):
        tag = '[F21] '
    if f2:
        tag = '[F2] '
    if io[open_i] != 'open ok':
        fails.append(tag + 'line %d: init failed after index damage: %s' % (open_i, io[open_i]))
        return fails
    for i in range(open_i + 1, min(len(lines), len(io))):
        l = lines[i]
        if l.startswith('W '):
            break
        if l in pre and l != 'counts' and io[i] != pre[l]:
            fails.append(tag + 'line %d `%s`: `%s` before the restart, `%s` after it' % (i, l, pre[l], io[i]))
        if l == 'counts' and 'counts' in pre:
            a, b = parse_counts(pre['counts']), parse_counts(io[i])
            if a and b:
                if a['records'] != b['records']:
                    fails.append(tag + 'line %d: records_count %s before the restart, %s after it' % (i, a['records'], b['records']))
                ids = [int(x.split(':')[0]) for x in a['detailed'].strip('[]').split(',') if x]
                if int(b['next']) < int(a['next']) and not lines[end] == 'never':
                    pass
    # post-restart write must be readable now and after another restart
    w = next((i for i in range(open_i, len(lines)) if lines[i].startswith('W ')), None)
    if w is not None and w < len(io) and io[w] == 'W ok' and 'dup=1' in lines[0]:
        for i in range(w + 1, min(len(lines), len(io))):
            if lines[i].startswith('R ') and not io[i].startswith('R Found 5 777'):
                fails.append(tag + 'line %d: record written after the restart is not served: %s' % (i, io[i]))
    if any(' Panic ' in o for o in io):
        fails.append(tag + 'panic: %s' % next(o for o in io if ' Panic ' in o))
    return fails[:6]


classify = C.default_classify


def signature(lines, io):
    if len(lines) > 1 and lines[1].startswith('idx new'):
        d = next((l for l in lines if l.startswith('idx cut') or l.startswith('idx poke')), 'none')
        dt = d.split()
        return hash((lines[0], len(lines) // 8, dt[1] if len(dt) > 1 else 'none', dt[3] if d.startswith('idx poke') else '', io[-1] if io else ''))
    dmg = tuple(l.split()[0] + (l.split()[1] if len(l.split()) > 1 else '') for l in lines if l.split()[0] in ('rmindex', 'trunc', 'patch', 'drop', 'close'))
    tail = tuple(o.split()[1] if len(o.split()) > 1 else '' for o in io[-4:])
    return hash((lines[0], dmg, tail))
