"""C07 No harm: stored blob bytes are never modified, truncated or deleted."""
from .gen_storage import Gen
from . import common as C

RULE = ('storage histories with restarts (with and without close), index removal, deletes into closed blobs, rotation '
        'requests; the I/O tap (hook H1) records every create/append/positional write/sync: after EVERY op the harness '
        'checks that each append to a *.blob file landed exactly at its end, that no positional write or re-creation '
        'touched a blob file and that the tracked end equals the real file length; byte snapshots of every blob file '
        '(work dir + corrupted dir) are compared after every op (earlier content must be a prefix); query phases must '
        'issue no write at all; fault stream: short / failed record appends then further appends (no write may start below a '
        'blob file\'s physical end); quarantine stream: torn blobs (the highest id included) quarantined at restart, new blobs '
        'afterwards, a second quarantine (no blob id is ever created twice; quarantined files keep their bytes); distinct by (cfg line, multiset of (op, outcome class))')
ASSUMPTIONS = ['other processes do not touch the directory', 'truncation is observed through the byte snapshots (the tap sees only operations issued through pearl\'s File type)']


def gen_script(rng):
    g = Gen(rng, queries=(), maint=0.3, restart=0.12, deletes=0.2, bg=0.02, nops=rng.randrange(8, 24))
    text = g.build()
    L = []
    for l in text.strip().split('\n'):
        t = l.split()[0]
        L.append(l)
        if t == 'cfg':
            L.append('trace on')
        elif t in ('close', 'drop'):
            L += ['snapcheck', 'tracecheck all']
            if rng.random() < 0.3:
                L.append('rmindex %d' % rng.randrange(0, 3))
        else:
            L += ['snapcheck', 'tracecheck all']
            if t in ('W', 'D') and rng.random() < 0.5:
                for k in g.keys[:2]:
                    L += ['R %s' % k, 'RD %s' % k, 'C %s' % k]
                L += ['counts', 'tracecheck quiet', 'snapcheck']
    return '\n'.join(L) + '\n'


def gen_fault_script(rng):
    """Injected I/O failures in the middle of a record append (nothing written / a prefix of the record written),
    index dump failures, then further appends to the same blob: no later write may start below the physical end
    of a blob file, and every earlier snapshot stays a prefix."""
    K = 4
    L = ['cfg K=4 dup=1 group=2 bloom=none init=eager runtime=%s nomodel=1' % rng.choice(['mt', 'ct']), 'trace on', 'open']
    seed = 0
    def w(ln=None):
        nonlocal seed
        seed += 1
        L.append('W %s 5 %s %d %d' % ((seed % 7 + 1).to_bytes(K, 'big').hex(), rng.choice(['-', 'm1']), ln if ln is not None else rng.choice([1, 5, 40, 3000]), seed))
        L.extend(['snapcheck', 'tracecheck all'])
    for _ in range(rng.randrange(1, 4)):
        w()
    if rng.random() < 0.3:
        L += ['close', 'open', 'snapcheck', 'tracecheck all']      # re-opened blob files are O_APPEND
    for _ in range(rng.randrange(1, 4)):
        ln = rng.choice([5, 40, 3000, 100000])
        act = rng.choice(['short:1', 'short:30', 'short:61', 'short:69', 'short:%d' % rng.randrange(1, 70 + ln), 'ENOSPC', 'EIO'])
        L.append('fail append .blob %d %s' % (rng.choice([0, 0, 1]), act))
        w(ln)
        w()
        L.append('clearfail')
        for _ in range(rng.randrange(1, 3)):
            w()
        if rng.random() < 0.3:
            L += [rng.choice(['close_active', 'force_update always']), 'snapcheck', 'tracecheck all']
    if rng.random() < 0.3:
        # an append whose caller was dropped is still running while a later append FAILS: the size counter must not fall
        # below the range of the append in flight (finding F34, repaired), or the next record overwrites its bytes
        seed += 1
        L.append('fail append .blob 0 delay:%d' % rng.choice([250, 400]))
        L.append('cancel 2 W %s 5 - 100000 %d' % ((seed % 7 + 1).to_bytes(K, 'big').hex(), seed))
        L.append('fail append .blob 0 %s' % rng.choice(['EIO', 'ENOSPC', 'short:30']))
        seed += 1
        L.append('W %s 5 - 100 %d' % ((seed % 7 + 1).to_bytes(K, 'big').hex(), seed))
        L += ['clearfail', 'sleep 600', 'snapcheck']
        seed += 1
        L.append('W %s 5 - 300 %d' % ((seed % 7 + 1).to_bytes(K, 'big').hex(), seed))
        L += ['snapcheck']
    if rng.random() < 0.5:
        # the fault hits the CREATION of a blob (its 20-byte header is written short, or cannot be synced): whatever
        # reached the new file stays there (or goes to the quarantine directory at the next start), it is not removed
        L += ['close_active', 'snapcheck', 'tracecheck all']
        L.append('fail %s' % rng.choice(['append .blob 0 short:7', 'append .blob 0 short:19', 'sync .blob 0 EIO', 'append .blob 0 ENOSPC', 'sync .blob 0 ENOSPC']))
        L.append(rng.choice(['create_active', 'W %s 5 - 5 900' % (3).to_bytes(K, 'big').hex()]))
        L += ['snapcheck', 'tracecheck all', 'clearfail']
        w()
    L += ['close', 'snapcheck', 'tracecheck all', 'open', 'snapcheck', 'tracecheck all']
    w()
    return '\n'.join(L) + '\n'


def gen_quarantine_script(rng):
    """Restarts that quarantine a torn blob (also the one with the highest id), new blobs created afterwards, a
    second quarantine: ids are never handed out twice and quarantined files keep their bytes."""
    K = 4
    L = ['cfg K=4 dup=1 group=2 bloom=none init=eager runtime=%s nomodel=1 validate=%d%s' % (rng.choice(['mt', 'ct']), rng.choice([0, 1]), rng.choice(['', '', ' corrdir=set.aside'])), 'trace on', 'open']
    seed = 0
    def w():
        nonlocal seed
        seed += 1
        L.append('W %s 5 - %d %d' % ((seed % 5 + 1).to_bytes(K, 'big').hex(), rng.choice([5, 40, 300]), seed))
        L.extend(['snapcheck', 'tracecheck all'])
    nb = rng.choice([1, 2, 2, 3])
    for b in range(nb):
        for _ in range(rng.randrange(1, 3)):
            w()
        if b < nb - 1:
            L += ['close_active', 'snapcheck', 'tracecheck all']
    next_id = nb
    for rnd in range(rng.choice([1, 2, 2])):
        L.append('close')
        victim = next_id - 1 if rng.random() < 0.7 else rng.randrange(0, next_id)
        L.append('trunc blob %d %s' % (victim, rng.choice(['-1', '-3', '-20', '-110', '25', '19'])))
        if rng.random() < 0.3:
            L.append('rmindex %d' % victim)
        L += ['open', 'snapcheck', 'tracecheck all', 'ls']
        for _ in range(rng.randrange(1, 3)):
            L += [rng.choice(['close_active', 'create_active', 'force_update always']), 'snapcheck', 'tracecheck all']
            w()
            next_id += 1
    L += ['close', 'snapcheck', 'tracecheck all', 'ls']
    return '\n'.join(L) + '\n'


def gen(tier, rng):
    n = 200 if tier == 'quick' else 4000
    out = [('harm%05d' % i, gen_script(rng)) for i in range(n)]
    out += [('fault%05d' % i, gen_fault_script(rng)) for i in range(n // 2)]
    out += [('quar%05d' % i, gen_quarantine_script(rng)) for i in range(n // 2)]
    return out


def oracle(lines, io, spec=None):
    fails = []
    for i, (l, o) in enumerate(zip(lines, io)):
        if 'VIOLATION' in o:
            fails.append('line %d after `%s`: %s' % (i, lines[i - 1] if i else '', o))
    # ids: next_blob_id never goes back within the script and new blob files never reuse a name seen before is
    # covered by snapcheck (a re-created file would lose its prefix)
    return fails[:5]


classify = C.default_classify
signature = C.ops_signature
