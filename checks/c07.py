"""C07 No harm: stored blob bytes are never modified, truncated or deleted."""
from .gen_storage import Gen
from . import common as C

RULE = ('storage histories with restarts (with and without close), index removal, deletes into closed blobs, rotation '
        'requests; the I/O tap (hook H1) records every create/append/positional write/sync: after EVERY op the harness '
        'checks that each append to a *.blob file landed exactly at its end, that no positional write or re-creation '
        'touched a blob file and that the tracked end equals the real file length; byte snapshots of every blob file '
        '(work dir + corrupted dir) are compared after every op (earlier content must be a prefix); query phases must '
        'issue no write at all; distinct by (cfg line, multiset of (op, outcome class))')
ASSUMPTIONS = ['other processes do not touch the directory', 'truncation is observed through the byte snapshots (the tap sees only operations issued through pearl\'s File type)']


def gen_script(rng):
    g = Gen(rng, queries=(), maint=0.3, restart=0.12, deletes=0.2, bg=0.02, nops=rng.randrange(8, 24))
    text = g.build()
    L = []
    for l in text.strip().split('\n'):
        t = l.split()[0]
        L.append(l)
        if t == 'cfg':
            L.append('trace on')
        elif t in ('close', 'drop'):
            L += ['snapcheck', 'tracecheck all']
            if rng.random() < 0.3:
                L.append('rmindex %d' % rng.randrange(0, 3))
        else:
            L += ['snapcheck', 'tracecheck all']
            if t in ('W', 'D') and rng.random() < 0.5:
                for k in g.keys[:2]:
                    L += ['R %s' % k, 'RD %s' % k, 'C %s' % k]
                L += ['counts', 'tracecheck quiet', 'snapcheck']
    return '\n'.join(L) + '\n'


def gen(tier, rng):
    n = 200 if tier == 'quick' else 4000
    return [('harm%05d' % i, gen_script(rng)) for i in range(n)]


def oracle(lines, io, spec=None):
    fails = []
    for i, (l, o) in enumerate(zip(lines, io)):
        if 'VIOLATION' in o:
            fails.append('line %d after `%s`: %s' % (i, lines[i - 1] if i else '', o))
    # ids: next_blob_id never goes back within the script and new blob files never reuse a name seen before is
    # covered by snapcheck (a re-created file would lose its prefix)
    return fails[:5]


classify = C.default_classify
signature = C.ops_signature
