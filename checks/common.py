"""Shared machinery of ./check: build steps, audit, script execution on model and implementation,
diffing, evidence. See DESIGN.md section 1.5."""
import os, sys, re, json, subprocess, time, hashlib, random, shutil, fcntl, glob

VERIF = os.path.dirname(os.path.dirname(os.path.abspath(__file__)))
REPO = os.environ.get('VERIF_REPO', '/repo')
COQ = os.path.join(VERIF, 'coq')
OCAML = os.path.join(VERIF, 'ocaml')
HARNESS = os.path.join(VERIF, 'harness')
CACHE = os.path.join(VERIF, '.cache')
TARGET = os.path.join(CACHE, 'target')
EVID = os.path.join(VERIF, 'evidence')
NPROC = 16

FORBIDDEN = re.compile(r'\b(Admitted|admit|Axiom|Parameter|Conjecture|Unset\s+Guard|bypass_check|Admit\s+Obligations|type-in-type|impredicative-set)\b')
ALLOWED_AXIOMS = set()   # the development is closed under the global context; see DESIGN.md section 2


class Lock:
    def __init__(self, name):
        os.makedirs(CACHE, exist_ok=True)
        self.path = os.path.join(CACHE, name + '.lock')
    def __enter__(self):
        self.f = open(self.path, 'w')
        fcntl.flock(self.f, fcntl.LOCK_EX)
    def __exit__(self, *a):
        fcntl.flock(self.f, fcntl.LOCK_UN)
        self.f.close()


def run(cmd, cwd=None, timeout=1800, env=None):
    e = dict(os.environ)
    e['CARGO_NET_OFFLINE'] = 'true'
    if env:
        e.update(env)
    p = subprocess.run(cmd, cwd=cwd, shell=isinstance(cmd, str), stdout=subprocess.PIPE,
                       stderr=subprocess.STDOUT, timeout=timeout, env=e)
    return p.returncode, p.stdout.decode('utf-8', 'replace')


# ---------------------------------------------------------------- translator
def regenerate():
    rc, out = run([sys.executable, os.path.join(VERIF, 'tools', 'extract_src.py'), REPO,
                   os.path.join(COQ, 'theories', 'Generated')])
    return rc == 0, out.strip()


# ---------------------------------------------------------------- Coq
def coq_files():
    fs = []
    for root, _, names in os.walk(os.path.join(COQ, 'theories')):
        for n in names:
            if n.endswith('.v') and 'Extract' not in root:
                fs.append(os.path.relpath(os.path.join(root, n), COQ))
    return sorted(fs)


def coq_makefile():
    files = coq_files()
    proj = open(os.path.join(COQ, '_CoqProject')).read().split('\n')
    head = [l for l in proj if l.startswith('-')]
    want = '\n'.join(head + files) + '\n'
    cur = open(os.path.join(COQ, '_CoqProject')).read()
    if cur != want or not os.path.exists(os.path.join(COQ, 'Makefile')):
        with open(os.path.join(COQ, '_CoqProject'), 'w') as f:
            f.write(want)
        run(['coq_makefile', '-f', '_CoqProject', '-o', 'Makefile'], cwd=COQ)


def coq_build(target=None, timeout=2400):
    """Full .vo build of one target (and its dependencies) or of everything. Returns (ok, log)."""
    with Lock('coq'):
        coq_makefile()
        cmd = ['timeout', str(timeout), 'make', '-j%d' % NPROC]
        if target:
            cmd.append(target)
        rc, out = run(cmd, cwd=COQ, timeout=timeout + 60)
        return rc == 0, out


def coq_audit(prop_file):
    """Forbidden-word grep over the whole development + Print Assumptions of the property file."""
    problems = []
    for f in coq_files() + ['theories/Extract/Extract.v']:
        src = open(os.path.join(COQ, f)).read()
        src_nc = re.sub(r'\(\*.*?\*\)', '', src, flags=re.S)
        for m in FORBIDDEN.finditer(src_nc):
            problems.append('%s: forbidden %s' % (f, m.group(0)))
    return problems


def property_theorems(prop_file):
    src = open(os.path.join(COQ, prop_file)).read()
    src = re.sub(r'\(\*.*?\*\)', '', src, flags=re.S)
    return re.findall(r'^\s*(?:Theorem|Corollary)\s+([A-Za-z0-9_\']+)', src, flags=re.M)


def print_assumptions(prop_file, log):
    """Parse the `Print Assumptions` output that coqc printed while compiling prop_file.
    Returns {theorem: 'closed' | [axioms]} from a dedicated re-run (cheap: the .vo deps exist)."""
    rc, out = run(['coqc', '-Q', 'theories', 'Pearl', '-w', '-all', prop_file], cwd=COQ, timeout=900)
    res = []
    if rc != 0:
        return None, out
    blocks = re.split(r'\n(?=Closed under the global context|Axioms:)', '\n' + out)
    closed = out.count('Closed under the global context')
    axioms = []
    for m in re.finditer(r'Axioms:\n((?:.+\n?)+?)(?:\n\n|\Z)', out):
        for line in m.group(1).split('\n'):
            mm = re.match(r'^([A-Za-z0-9_.\']+)\s*:', line)
            if mm:
                axioms.append(mm.group(1))
    return {'closed': closed, 'axioms': sorted(set(axioms))}, out


# ---------------------------------------------------------------- OCaml model driver
def hash_files(paths):
    h = hashlib.sha256()
    for p in sorted(paths):
        h.update(p.encode())
        h.update(open(p, 'rb').read())
    return h.hexdigest()


def build_driver():
    """Extract the model and build the driver. Requires the model .vo files (not the proofs)."""
    with Lock('ocaml'):
        srcs = [os.path.join(COQ, f) for f in coq_files() if 'Proofs' not in f and 'Properties' not in f]
        srcs += [os.path.join(COQ, 'theories/Extract/Extract.v'), os.path.join(OCAML, 'driver.ml')]
        stamp = os.path.join(CACHE, 'driver.stamp')
        h = hash_files(srcs)
        drv = os.path.join(CACHE, 'driver')
        if os.path.exists(stamp) and open(stamp).read() == h and os.path.exists(drv):
            return True, 'cached'
        # model files needed by Extract.v
        ok, log = coq_build_models()
        if not ok:
            return False, log
        bdir = os.path.join(CACHE, 'ocaml_build')
        os.makedirs(bdir, exist_ok=True)
        rc, out = run(['coqc', '-Q', os.path.join(COQ, 'theories'), 'Pearl',
                       os.path.join(COQ, 'theories/Extract/Extract.v')], cwd=bdir, timeout=900)
        if rc != 0:
            return False, out
        shutil.copy(os.path.join(OCAML, 'driver.ml'), os.path.join(bdir, 'driver.ml'))
        rc, out = run('ocamlfind ocamlopt -O2 -w -a model.mli model.ml driver.ml -o driver 2>/dev/null || '
                      'ocamlfind ocamlopt -w -a model.mli model.ml driver.ml -o driver', cwd=bdir, timeout=900)
        if rc != 0:
            return False, out
        shutil.copy(os.path.join(bdir, 'driver'), drv)
        with open(stamp, 'w') as f:
            f.write(h)
        return True, out


def extract_deps():
    src = open(os.path.join(COQ, 'theories/Extract/Extract.v')).read()
    mods = re.findall(r'Pearl\.([A-Za-z0-9_]+(?:\.[A-Za-z0-9_]+)*)', src)
    return ['theories/' + m.replace('.', '/') + '.vo' for m in mods]


def coq_build_models():
    coq_makefile()
    cmd = ['timeout', '1800', 'make', '-j%d' % NPROC] + extract_deps()
    rc, out = run(cmd, cwd=COQ, timeout=1900)
    return rc == 0, out


# ---------------------------------------------------------------- Rust harness
def harness_dir():
    """The harness crate depends on pearl by path. For the default /repo the committed crate is used; for
    another repository location (VERIF_REPO, used by tools/run_seeded.py in a scratch copy) a copy of the
    crate with the path rewritten is kept under .cache."""
    if REPO == '/repo':
        return HARNESS
    alt = os.path.join(CACHE, 'harness_alt')
    os.makedirs(os.path.join(alt, 'src'), exist_ok=True)
    os.makedirs(os.path.join(alt, '.cargo'), exist_ok=True)
    for f in os.listdir(os.path.join(HARNESS, 'src')):
        shutil.copy(os.path.join(HARNESS, 'src', f), os.path.join(alt, 'src', f))
    shutil.copy(os.path.join(HARNESS, '.cargo', 'config.toml'), os.path.join(alt, '.cargo', 'config.toml'))
    shutil.copy(os.path.join(HARNESS, 'Cargo.lock'), os.path.join(alt, 'Cargo.lock'))
    toml = open(os.path.join(HARNESS, 'Cargo.toml')).read().replace('path = "/repo"', 'path = "%s"' % REPO)
    old = open(os.path.join(alt, 'Cargo.toml')).read() if os.path.exists(os.path.join(alt, 'Cargo.toml')) else None
    if old != toml:
        open(os.path.join(alt, 'Cargo.toml'), 'w').write(toml)
    return alt


def build_harness(release=False):
    with Lock('cargo'):
        cmd = ['cargo', 'build', '--offline']
        if release:
            cmd.append('--release')
        rc, out = run(cmd, cwd=harness_dir(), timeout=1800,
                      env={'CARGO_TARGET_DIR': TARGET, 'RUSTFLAGS': '--cfg pearl_verif'})
        binp = os.path.join(TARGET, 'release' if release else 'debug', 'pearl_harness')
        return rc == 0 and os.path.exists(binp), out, binp


# ---------------------------------------------------------------- running scripts
def run_pairs(binary, scripts, workdir, suffix, timeout=600, env=None):
    """scripts: list of script paths. Runs `binary s1 o1 s2 o2 ...` sharded over NPROC processes."""
    outs = [s + suffix for s in scripts]
    for o in outs:
        if os.path.exists(o):
            os.remove(o)
    shards = [[] for _ in range(NPROC)]
    for i, (s, o) in enumerate(zip(scripts, outs)):
        shards[i % NPROC] += [s, o]
    procs = []
    e = dict(os.environ)
    if env:
        e.update(env)
    for sh in shards:
        if sh:
            procs.append(subprocess.Popen([binary] + sh, stdout=subprocess.DEVNULL, stderr=subprocess.DEVNULL, env=e))
    deadline = time.time() + timeout
    for p in procs:
        try:
            p.wait(timeout=max(1, deadline - time.time()))
        except subprocess.TimeoutExpired:
            p.kill()
    res = []
    for o in outs:
        res.append(open(o).read().split('\n') if os.path.exists(o) else None)
    return res


def script_lines(path):
    return [l.strip() for l in open(path).read().split('\n') if l.strip() and not l.strip().startswith('#')]


def first_diff(a, b):
    if a is None or b is None:
        return 0
    for i in range(max(len(a), len(b))):
        x = a[i] if i < len(a) else '<missing>'
        y = b[i] if i < len(b) else '<missing>'
        if x != y and y != '*' and x != '*':
            return i
    return None


# ---------------------------------------------------------------- evidence / result
class Result:
    def __init__(self, pid, tier, seed):
        self.pid, self.tier, self.seed = pid, tier, seed
        self.t0 = time.time()
        self.violations = []       # (replay_path, note)
        self.known = []            # text lines
        self.coverage = {}
        self.assumptions = []
        self.level = 'proof'

    def violation(self, replay, note=''):
        self.violations.append((replay, note))

    def finish(self):
        os.makedirs(EVID, exist_ok=True)
        ev = {'property_id': self.pid, 'tier': self.tier, 'seed': self.seed, 'level': self.level,
              'coverage': self.coverage, 'assumptions': self.assumptions,
              'wall_s': round(time.time() - self.t0, 2), 'violations': len(self.violations)}
        with open(os.path.join(EVID, self.pid + '.json'), 'w') as f:
            json.dump(ev, f, indent=1, sort_keys=True)
        for k in self.known:
            print('KNOWN-FINDING: property=%s %s' % (self.pid, k))
        for replay, note in self.violations:
            print('VIOLATION property=%s replay=%s%s' % (self.pid, replay, (' ' + note) if note else ''))
        return 1 if self.violations else 0


def replay_dir(pid):
    d = os.path.join(VERIF, 'replays', pid)
    os.makedirs(d, exist_ok=True)
    return d


def write_replay(pid, name, text):
    p = os.path.join(replay_dir(pid), name)
    with open(p, 'w') as f:
        f.write(text)
    return p


def known_findings(pid):
    p = os.path.join(VERIF, 'known_findings.json')
    if not os.path.exists(p):
        return []
    return [k for k in json.load(open(p)) if pid in k.get('properties', [k.get('property')])]


# ---------------------------------------------------------------- spec oracle (storage level)
def spec_oracle(lines, io, spec, cmds, tagger=None):
    """Compare the implementation's answers with the Coq specification's answers (driver .spec file:
    'ok <answer>' / 'f2 <answer>' / '-') for the query commands in `cmds`. Returns failure messages;
    a message starts with '[Fx]' when the failing case belongs to a recognised known class."""
    fails = []
    if spec is None:
        return fails
    for i, l in enumerate(lines):
        if i >= len(io) or i >= len(spec):
            break
        c = l.split()[0]
        if c not in cmds or spec[i] == '-' or spec[i] == '':
            continue
        flag, ans = spec[i][:2], spec[i][3:]
        got = io[i]
        if ans != got:
            tag = ''
            if flag == 'f2':
                tag = '[F2] '
            elif tagger:
                tag = tagger(lines, io, i, ans, got) or ''
            fails.append('%sline %d `%s`: implementation answered `%s`, specification says `%s`' % (tag, i, l, got, ans))
    return fails


def default_classify(known, lines, io, msg):
    return msg.startswith('[%s]' % known['id'])


def ops_signature(lines, io):
    ops = {}
    for l, o in zip(lines, io):
        t = l.split()
        cls = o.split()[1] if len(o.split()) > 1 else ''
        if cls.isdigit() or cls.startswith('['):
            cls = 'n'
        k = (t[0], cls)
        ops[k] = ops.get(k, 0) + 1
    return hash((lines[0], tuple(sorted(ops.items()))))
