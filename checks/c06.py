"""C06 Crash recovery: acknowledged records are served or recoverable, never wrong."""
import os, re, subprocess, tempfile, shutil, signal, time, random
from .gen_storage import key_hex
from . import common as C

TIMEOUT = 1500
RULE = ('power-loss model: histories with closed+dumped blobs and an active blob holding one record per fresh key; the '
        'session ends without close and the active blob file is cut at a chosen byte length >= its synced length: every '
        'record boundary +-1, every position class inside the tail record (header, meta, data) and random lengths '
        '(thorough: every byte of the tail record); validation on/off, ignore_corrupted on/off, key sizes 4/32; then init, '
        'all reads, counts, directory listing, further writes, restart, reads. The number of served records is compared '
        'with the Coq scan model (Blob/Scan.v blob_open_scan on the model\'s blob bytes). Kill mode: a child harness is '
        'SIGKILLed at a random instant, a second process opens the directory and checks every acknowledged record; '
        'kill scripts: session dropped (no close, no byte lost) while an index file is older than its blob (restored active blob appended to, '
        'deletion marker in a closed indexed blob before the deferred re-dump), then init and every read / counts compared with before. '
        'distinct by (cfg, number of tail records, cut class, outcome class)')
ASSUMPTIONS = ['un-synced data is lost only as a suffix of a file; rename is atomic; the page cache survives a process kill',
               'kill mode samples kill instants (a real child process), it does not enumerate them']

MS = {'-': 8, 'm1': 26}


def gen_power_script(rng, tier):
    K = rng.choice([4, 32])
    validate = rng.choice([0, 1])
    ignore = 1 if rng.random() < 0.3 else 0
    L = ['cfg K=%d dup=1 group=2 bloom=none init=eager runtime=%s validate=%d ignore=%d%s' % (K, rng.choice(['mt', 'ct']), validate, ignore, rng.choice(['', '', '', ' corrdir=lost+found'])), 'open']
    nclosed = rng.choice([0, 1, 1, 2])
    old_keys = []
    seed = 0
    for b in range(nclosed):
        for j in range(rng.randrange(1, 3)):
            seed += 1
            k = key_hex(K, j) if K > 1 else None
            L.append('W %s %d - 5 %d' % (k, 5 + b, seed)); old_keys.append(k)
        L.append('close_active')
    active_id = nclosed
    # tail records: one per fresh key, key value 16+i
    m = rng.randrange(1, 5)
    fresh = []
    off = 20
    bounds = [20]
    layout = []
    for i in range(m):
        key = (16 + i).to_bytes(K, 'big').hex()
        meta = rng.choice(['-', 'm1'])
        ln = rng.choice([0, 1, 5, 40])
        seed += 1
        L.append('W %s %d %s %d %d' % (key, 7, meta, ln, 0 if ln == 0 else seed))
        fresh.append((key, ln, 0 if ln == 0 else seed))
        hdr_end = off + 57 + K
        meta_end = hdr_end + MS[meta]
        end = meta_end + ln
        layout.append((off, hdr_end, meta_end, end))
        off = end
        bounds.append(off)
    allkeys = sorted(set(old_keys)) + [f[0] for f in fresh]
    L.append('#PRE')
    for k in allkeys:
        L.append('R %s' % k)
    L.append('ls')
    L.append('drop')
    # choose the cut
    cls = rng.choice(['boundary', 'boundary', 'in_header', 'in_meta', 'in_data', 'random', 'blobheader', 'full'])
    j = rng.randrange(m)
    s, he, me, e = layout[j]
    if cls == 'boundary': n = rng.choice(bounds) + rng.choice([0, 0, 0, -1, 1])
    elif cls == 'in_header': n = rng.randrange(s + 1, he)
    elif cls == 'in_meta': n = rng.randrange(he, me)
    elif cls == 'in_data': n = rng.randrange(me, e) if e > me else me
    elif cls == 'blobheader': n = rng.choice([0, 1, 19, 20, 21, 35, 36, 37])
    elif cls == 'full': n = off
    else: n = rng.randrange(0, off + 1)
    n = max(0, min(n, off))
    L.append('trunc blob %d %d' % (active_id, n))
    L.append('#CUT n=%d class=%s' % (n, cls))
    L.append('open')
    L.append('counts')
    for k in allkeys:
        L.append('R %s' % k)
    L.append('ls')
    # post-recovery durability
    g = (200).to_bytes(K, 'big').hex()
    L.append('W %s 9 - 5 %d' % (g, seed + 1))
    L.append('R %s' % g)
    # the second stop is clean or not (a process kill with the page cache intact: no index file is written, the blob
    # that took the post-recovery write is scanned at the next start)
    L.append(rng.choice(['close', 'drop', 'drop']))
    L.append('open')
    L.append('R %s' % g)
    for k in allkeys:
        L.append('R %s' % k)
    # what an operator does with a quarantined blob: the recovery tool restores every complete record from it
    L += ['close', 'tool recover_quarantined %d %d 0' % (active_id, rng.choice([0, 1])), 'tool install %d' % active_id, 'nop recovered', 'open']
    for (key, ln, sd) in fresh:
        L.append('R %s' % key)
    L.append('close')
    meta = {'fresh': fresh, 'old': sorted(set(old_keys)), 'bounds': bounds, 'layout': layout, 'n': n, 'validate': validate,
            'ignore': ignore, 'active_id': active_id, 'g': g, 'K': K, 'nclosed': nclosed}
    return '\n'.join(L) + '\n', meta


def gen_powercut_script(rng):
    """Power loss seen through the I/O tap: every blob file is cut back to what a successful sync covered, the index
    files stay or are cut at any length. Blobs that were closed and whose index was dumped before the cut must be served in full (the blob is
    synced before its index is written); the blob being appended may lose its un-synced tail."""
    K = rng.choice([4, 32])
    L = ['cfg K=%d dup=1 group=2 bloom=none init=eager runtime=%s validate=%d' % (K, rng.choice(['mt', 'ct']), rng.choice([0, 1])), 'trace on', 'open']
    seed = 0
    closed_keys, tail_keys = [], []
    for b in range(rng.choice([1, 2, 3])):
        for _ in range(rng.randrange(1, 4)):
            seed += 1
            k = (seed).to_bytes(K, 'big').hex()
            closed_keys.append(k)
            L.append('W %s 5 %s %d %d' % (k, rng.choice(['-', 'm1']), rng.choice([1, 5, 40, 5000]), seed))
        L.append(rng.choice(['close_active', 'close_active', 'force_update always']))
        L.append('quiesce')
    for _ in range(rng.randrange(0, 3)):
        seed += 1
        k = (seed).to_bytes(K, 'big').hex()
        tail_keys.append(k)
        L.append('W %s 6 - %d %d' % (k, rng.choice([5, 40]), seed))
    L.append('#PRE')
    for k in closed_keys + tail_keys:
        L.append('R %s' % k)
    L.append('nop closedkeys=%s' % ','.join(closed_keys))
    L += ['drop', 'powercut']
    # an index file is not synced when the power goes: it may be left at any written length (the blob it describes was
    # synced before the index was written, so it is whole and the index must be rebuilt from it)
    nclosed = sum(1 for l in L if l in ('close_active', 'force_update always'))
    for _ in range(rng.choice([0, 1, 1, 2])):
        n = rng.choice([rng.randrange(0, 84), rng.randrange(84, 400), rng.randrange(84, 1200), -rng.randrange(1, 200), -rng.randrange(1, 40), -1])
        L.append('trunc index %d %d' % (rng.randrange(nclosed), n))
    L.append('open')
    for k in closed_keys + tail_keys:
        L.append('R %s' % k)
    L += ['counts', 'close']
    return '\n'.join(L) + '\n', {'kind': 'powercut'}


def gen_kill_script(rng):
    """Process kill with the page cache intact (no byte is lost), at the instants where an index file on disk is
    older than its blob: (a) the active blob was restored from a clean shutdown and appended to; (b) a deletion
    marker went into a closed, indexed blob and the deferred re-dump has not run. Everything acknowledged must be
    served after init exactly as before the kill."""
    K = rng.choice([4, 32])
    L = ['cfg K=%d dup=1 group=2 bloom=%s init=%s runtime=%s validate=%d' % (
        K, rng.choice(['none', 'none', '3200000000000000020000000000000000020000000000000400000000000000fca9f1d24d62503f']),
        rng.choice(['eager', 'eager', 'lazy']), rng.choice(['mt', 'ct']), rng.choice([0, 1])), 'open']
    seed = 0
    keys = []
    def w(n, ts):
        nonlocal seed
        for _ in range(n):
            seed += 1
            k = (seed).to_bytes(K, 'big').hex()
            keys.append(k)
            L.append('W %s %d %s %d %d' % (k, ts, rng.choice(['-', 'm1']), rng.choice([1, 5, 40]), seed))
    for b in range(rng.choice([0, 1, 2])):
        w(rng.randrange(1, 4), 5)
        L.append('close_active')
    w(rng.randrange(1, 4), 5)
    if rng.random() < 0.7:
        L += ['close', 'open']              # clean shutdown: the active blob's index is on disk, then it is appended to
        w(rng.randrange(1, 5), 6)
    L.append('autoquiesce 0')
    for k in rng.sample(keys, min(len(keys), rng.choice([0, 1, 2]))):
        L.append('D %s %d - %d' % (k, rng.choice([3, 50]), rng.choice([0, 1, 1])))
    L.append('#PRE')
    for k in keys:
        L.append('R %s' % k)
    L.append('counts')
    L.append('drop')
    L.append('autoquiesce 1')
    L.append('open')
    for k in keys:
        L.append('R %s' % k)
    L.append('counts')
    return '\n'.join(L) + '\n'


METAS = {}


def gen(tier, rng):
    n = 260 if tier == 'quick' else 6000
    out = []
    for i in range(n):
        text, meta = gen_power_script(rng, tier)
        METAS[text] = meta
        out.append(('power%05d' % i, text))
    for i in range(80 if tier == 'quick' else 2000):
        out.append(('kill%05d' % i, gen_kill_script(rng)))
    for i in range(40 if tier == 'quick' else 800):
        out.append(('powercut%05d' % i, gen_powercut_script(rng)[0]))
    return out


def recover_meta(lines):
    """re-derive the bookkeeping from the script itself (the oracle only sees the lines)"""
    cfg = lines[0]
    K = int(re.search(r'K=(\d+)', cfg).group(1))
    validate = int(re.search(r'validate=(\d)', cfg).group(1))
    ignore = int(re.search(r'ignore=(\d)', cfg).group(1))
    drop_i = lines.index('drop')
    trunc_i = next(i for i, l in enumerate(lines) if l.startswith('trunc blob'))
    active_id, n = int(lines[trunc_i].split()[2]), int(lines[trunc_i].split()[3])
    # tail records = writes after the last close_active before drop
    last_close = max([i for i, l in enumerate(lines[:drop_i]) if l == 'close_active'] + [0])
    fresh, layout, off = [], [], 20
    for l in lines[last_close:drop_i]:
        t = l.split()
        if t[0] == 'W':
            ln = int(t[4]); ms = MS[t[3]]
            he = off + 57 + K; me = he + ms; e = me + ln
            fresh.append((t[1], ln, int(t[5]))); layout.append((off, he, me, e)); off = e
    old = sorted(set(l.split()[1] for l in lines[:last_close] if l.startswith('W ')))
    return dict(K=K, validate=validate, ignore=ignore, active_id=active_id, n=n, fresh=fresh, layout=layout, old=old,
                drop_i=drop_i, trunc_i=trunc_i, nclosed=sum(1 for l in lines[:drop_i] if l == 'close_active'))


def oracle(lines, io, spec=None):
    fails = []
    if 'drop' not in lines:
        return fails
    if 'powercut' in lines:
        d = lines.index('drop')
        ck = next(l for l in lines if l.startswith('nop closedkeys=')).split('=')[1].split(',')
        pre = {lines[i]: io[i] for i in range(d) if lines[i].startswith('R ')}
        o = lines.index('open', d)
        if o >= len(io) or io[o] != 'open ok':
            return ['init failed after the power loss: %s' % (io[o] if o < len(io) else '-')]
        for i in range(o + 1, min(len(lines), len(io))):
            if lines[i].startswith('R '):
                k = lines[i].split()[1]
                if k in ck and io[i] != pre.get(lines[i]):
                    fails.append('line %d `%s`: a record of a blob that was closed and indexed before the power loss is not served in full: `%s` before, `%s` after init (%s)' % (i, lines[i], pre.get(lines[i]), io[i], io[lines.index('powercut')][:120]))
                elif k not in ck and io[i] != pre.get(lines[i]) and io[i] != 'R NotFound':
                    fails.append('line %d `%s`: a record of the blob being appended is served with other content after the power loss: %s' % (i, lines[i], io[i]))
        return fails[:4]
    if not any(l.startswith('trunc blob') for l in lines):
        # kill with the page cache intact: every answer after init equals the answer before the kill
        fails = C.spec_oracle(lines, io, spec, ('R',))
        d = lines.index('drop')
        pre = {lines[i]: io[i] for i in range(d) if lines[i].startswith('R ') or lines[i] == 'counts'}
        o = next((i for i in range(d, len(lines)) if lines[i] == 'open'), None)
        if o is None or o >= len(io) or io[o] != 'open ok':
            return fails + ['init failed after the kill: %s' % (io[o] if o is not None and o < len(io) else '-')]
        for i in range(o + 1, min(len(lines), len(io))):
            if lines[i].startswith('R ') and io[i] != pre.get(lines[i]):
                fails.append('line %d `%s`: `%s` before the kill, `%s` after init' % (i, lines[i], pre.get(lines[i]), io[i]))
            if lines[i] == 'counts' and 'counts' in pre:
                a, b = io[i].split(), pre['counts'].split()
                ra = [x for x in a if x.startswith('records=')]; rb = [x for x in b if x.startswith('records=')]
                if ra != rb:
                    fails.append('line %d: records_count %s before the kill, %s after init' % (i, rb, ra))
        return fails[:6]
    m = recover_meta(lines)
    n, layout, fresh = m['n'], m['layout'], m['fresh']
    pre = {}
    for i in range(m['drop_i']):
        if lines[i].startswith('R '):
            pre[lines[i].split()[1]] = io[i]
    open_i = m['trunc_i'] + 1
    if open_i >= len(io):
        return ['script did not reach the re-open']
    # expected number of served tail records, from the layout (the Coq theorem scan_prefix is the justification)
    complete = sum(1 for (s, he, me, e) in layout if e <= n)
    at_boundary = (n == 20) or any(e == n for (_, _, _, e) in layout)
    torn = next((j for j, (s, he, me, e) in enumerate(layout) if he <= n < e), None)
    # a torn record is accepted by the scan when its data is not read back: validation off, or empty data
    # since commit 865f94b of the code a record cut by the end of the file is never accepted by the scan (finding F6, fixed)
    torn_accepted = False
    if io[open_i] != 'open ok':
        only_blob = m['nclosed'] == 0
        tag = '[F16] ' if (m['ignore'] == 1 and only_blob and not (at_boundary and n >= 20)) else ''
        fails.append(tag + 'line %d: init failed after the crash: %s (cut n=%d)' % (open_i, io[open_i], n))
        return fails
    post = {}
    i = open_i + 1
    counts_line = io[i] if i < len(io) and lines[i] == 'counts' else ''
    while i < len(lines) and not lines[i].startswith('W '):
        if lines[i].startswith('R ') and i < len(io):
            post[lines[i].split()[1]] = io[i]
        i += 1
    w_i = i
    # closed, dumped blobs are served in full
    for k in m['old']:
        if k in pre and post.get(k) != pre[k]:
            fails.append('key %s of a blob closed before the crash: `%s` before, `%s` after recovery' % (k, pre[k], post.get(k)))
    served = [post.get(k, '') for (k, _, _) in fresh]
    found = [s.startswith('R Found') for s in served]
    wrong = [s for s, (k, ln, sd) in zip(served, fresh) if s.startswith('R Found') and s != 'R Found %d %d' % (ln, sd)]
    if wrong:
        fails.append('a tail record is served with wrong bytes: %s' % wrong[:2])
    j = sum(found)
    if found != [True] * j + [False] * (len(found) - j):
        fails.append('served tail records are not a prefix of the acknowledged order: %s' % served)
    errs = [s for s in served if ' Err ' in s]
    quarantined = 'corrupted=1' in counts_line
    if errs:
        tag = '[F6] ' if torn_accepted else ''
        fails.append(tag + 'a tail record is indexed but unreadable after recovery: %s (cut n=%d inside record %s)' % (errs[:1], n, torn))
    if quarantined:
        if j != 0:
            fails.append('blob quarantined but tail records still served')
        ls = io[w_i - 1] if lines[w_i - 1] == 'ls' else ''
        want = 'corrupted/t.%d.blob:%d' % (m['active_id'], n)
        if want not in ls:
            fails.append('quarantined blob is not preserved intact in the corrupted directory: want %s in `%s`' % (want, ls[:200]))
    else:
        if m['ignore'] == 0 or at_boundary:
            if not errs and j != complete and not torn_accepted:
                fails.append('served %d tail records, expected %d complete records within the cut n=%d' % (j, complete, n))
    # the Coq scan model on the model's bytes must predict the same disposition
    if spec is not None and m['trunc_i'] < len(spec) and spec[m['trunc_i']].startswith('sc '):
        _, disp, cnt = spec[m['trunc_i']].split()
        impl_disp = 'quarantined' if quarantined else 'served'
        if m['ignore'] == 1 and disp == 'quarantined':
            disp = 'ignored'
            impl_disp = 'ignored' if (j == 0 and not quarantined) else impl_disp
        impl_cnt = j + (1 if errs else 0)
        if disp != impl_disp or (disp == 'served' and int(cnt) != impl_cnt):
            fails.append('scan model (Blob/Scan.v) predicts %s/%s, implementation shows %s/%d (cut n=%d)' % (disp, cnt, impl_disp, impl_cnt, n))
    # post-recovery durability
    g_reads = [(i2, io[i2]) for i2 in range(w_i, min(len(lines), len(io))) if lines[i2].startswith('R ') and lines[i2].split()[1] == lines[w_i].split()[1]]
    if w_i < len(io) and io[w_i] == 'W ok':
        for (i2, o) in g_reads:
            if not o.startswith('R Found'):
                tag = '[F6] ' if torn_accepted else ''
                fails.append(tag + 'line %d: a write acknowledged after recovery is not served after the next restart: %s' % (i2, o))
    elif w_i < len(io):
        fails.append('line %d: write after recovery failed: %s' % (w_i, io[w_i]))
    # the recovery tool on the quarantined file: every record that is complete in it comes back
    rq = next((j for j, l in enumerate(lines) if l.startswith('tool recover_quarantined')), None)
    if rq is not None and rq < len(io) and io[rq] != 'tool recover_quarantined absent':
        if not io[rq].startswith('tool recover_quarantined ok'):
            if n >= 20:      # (a file cut inside its 20-byte blob header holds no record: nothing to restore)
                fails.append('line %d: the recovery tool fails on the quarantined blob (cut n=%d): %s' % (rq, n, io[rq]))
        else:
            ro = next((j for j in range(rq, len(lines)) if lines[j] == 'open'), None)
            if ro is not None and ro < len(io) and io[ro] == 'open ok':
                want = {key: 'R Found %d %d' % (ln, sd) for (key, ln, sd), (s0, he, me, e) in zip(fresh, layout) if e <= n}
                for j in range(ro + 1, min(len(lines), len(io))):
                    if lines[j].startswith('R ') and lines[j].split()[1] in want and io[j] != want[lines[j].split()[1]]:
                        fails.append('line %d `%s`: a record that is complete in the quarantined blob is not restored by the recovery tool: %s' % (j, lines[j], io[j]))
                        break
    return fails[:6]


classify = C.default_classify


def signature(lines, io):
    if 'drop' not in lines:
        return hash(tuple(lines[:3]))
    if not any(l.startswith('trunc blob') for l in lines):
        return C.ops_signature(lines, io)
    m = recover_meta(lines)
    n, layout = m['n'], m['layout']
    cls = 'pre' if n < 20 else 'boundary' if (n == 20 or any(e == n for (_, _, _, e) in layout)) else \
        next(('hdr' if n < he else 'meta' if n < me else 'data') for (s, he, me, e) in layout if s < n < e) if any(s < n < e for (s, he, me, e) in layout) else 'other'
    oi = m['trunc_i'] + 1
    return hash((lines[0], len(layout), cls, io[oi] if oi < len(io) else '', io[oi + 1].split('corrupted=')[1][:1] if oi + 1 < len(io) and 'corrupted=' in io[oi + 1] else ''))


# ---------------------------------------------------------------- real-kill mode
def extra(tier, rng, hbin, work):
    """A child harness running a write-heavy script is SIGKILLed at a random instant; a second process opens
    the directory and must serve every record that had been acknowledged (page cache survives a kill)."""
    n = 24 if tier == 'quick' else 400
    fails = []
    done = 0
    kd = os.path.join(work, 'kill')
    os.makedirs(kd, exist_ok=True)
    for it in range(n):
        K = 4
        nrec = rng.randrange(20, 120)
        L = ['cfg K=4 dup=1 group=2 bloom=none init=eager runtime=%s maxrec=%d' % (rng.choice(['mt', 'ct']), rng.choice([7, 1000])), 'autoquiesce 0', 'open']
        for i in range(nrec):
            key = (i + 1).to_bytes(K, 'big').hex()
            L.append('W %s %d - %d %d' % (key, 5, rng.choice([1, 5, 300, 5000]), i + 1))
            if rng.random() < 0.05: L.append('close_active')
            if rng.random() < 0.03: L.append('sleep 210')
        sa = os.path.join(kd, 'a%04d.txt' % it)
        open(sa, 'w').write('\n'.join(L) + '\n')
        env = dict(os.environ); env['VERIF_LIVE'] = '1'; env['VERIF_TMP'] = kd; env['VERIF_KEEP'] = '1'
        p = subprocess.Popen([hbin, sa, sa + '.out'], env=env, stdout=subprocess.DEVNULL, stderr=subprocess.DEVNULL)
        time.sleep(rng.choice([0.004, 0.01, 0.02, 0.04, 0.08, 0.15]))
        p.send_signal(signal.SIGKILL)
        p.wait()
        live = sa + '.out.live'
        acked = []
        if os.path.exists(live):
            outl = [x for x in open(live).read().split('\n') if x]
            for l, o in zip(L, outl):
                if l.startswith('W ') and o == 'W ok':
                    acked.append(l.split())
        d = os.path.join(kd, 'pearl_verif_%d_0' % p.pid)
        if not os.path.isdir(d):
            continue
        done += 1
        B = ['cfg K=4 dup=1 group=2 bloom=none init=eager runtime=mt usedir=%s' % d, 'open', 'counts']
        for t in acked:
            B.append('know %s %s' % (t[4], t[5]))
        for t in acked:
            B.append('R %s' % t[1])
        g = (5000).to_bytes(K, 'big').hex()
        B += ['W %s 9 - 5 77' % g, 'close', 'open', 'R %s' % g]
        sb = os.path.join(kd, 'b%04d.txt' % it)
        open(sb, 'w').write('\n'.join(B) + '\n')
        subprocess.run([hbin, sb, sb + '.out'], env=dict(os.environ, VERIF_TMP=kd), stdout=subprocess.DEVNULL, stderr=subprocess.DEVNULL, timeout=120)
        shutil.rmtree(d, ignore_errors=True)
        out = [x for x in open(sb + '.out').read().split('\n') if x] if os.path.exists(sb + '.out') else []
        if len(out) < 2 or out[1] != 'open ok':
            fails.append((sb, 'kill mode: init failed after SIGKILL: %s' % (out[1] if len(out) > 1 else '<none>')))
            continue
        quarantined = 'corrupted=0' not in (out[2] if len(out) > 2 else '')
        for i, t in enumerate(acked):
            o = out[3 + len(acked) + i] if 3 + len(acked) + i < len(out) else '<missing>'
            want = 'R Found %s %s' % (t[4], t[5])
            if o != want and not quarantined:
                fails.append((sb, 'kill mode: acknowledged record %s is not served after SIGKILL + init: `%s` (expected `%s`)' % (t[1], o, want)))
                break
        if out[-1] != 'R Found 5 77':
            fails.append((sb, 'kill mode: a write made after recovery did not survive the next restart: %s' % out[-1]))
    return done, fails, 'kill mode: %d child processes killed and re-opened' % done
