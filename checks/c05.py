"""C05 Byte integrity: values round-trip exactly; altered bytes are never served."""
from . import common as C
from .gen_storage import key_hex

ALSO_RELEASE = True
RULE = ('writes with data length in {0,1,2, T-h-2..T-h+2 (T=4096, h=header+meta), 81919..81921 (thorough: +-64 sweeps, '
        '200000)}, metas {none,m0,m1,m3}, K in {4,32}, both runtimes; blob file compared byte-exact with the Coq encoder; '
        'every record read back (read, read_with, read_all); then 1-bit / 1-byte / 32-bit-burst damage inside the data '
        'of each record with the index in memory, on disk and regenerated (validation on/off): the damaged record must '
        'never be served; distinct by (cfg, sizes, damage kind, outcome classes)')
ASSUMPTIONS = ['errors wider than 32 bits are outside the burst theorem', 'metadata maps with two entries are not compared '
               'byte-exact (HashMap order); they are compared after decoding']

MSIZE = {'-': 8, 'm0': 8, 'm1': 26, 'm3': 350}


def sizes_for(K, meta, tier, rng):
    h = 57 + K + MSIZE[meta]
    T = 4096
    base = [0, 1, 2, T - h - 2, T - h - 1, T - h, T - h + 1, T - h + 2, 300]
    if tier == 'thorough':
        base += list(range(T - h - 64, T - h + 65, 7)) + [81919 - 0, 81920, 81921, 200000]
    return base


def gen_script(rng, tier, big):
    K = rng.choice([4, 32])
    runtime = rng.choice(['mt', 'ct'])
    validate = rng.choice([0, 1])
    L = ['cfg K=%d dup=1 runtime=%s validate=%d' % (K, runtime, validate), 'open']
    nrec = rng.randrange(2, 5)
    recs = []
    off = 20
    for i in range(nrec):
        meta = rng.choice(['-', 'm0', 'm1', 'm3'])
        if big and i == 0:
            ln = rng.choice([81919 - (57 + K + MSIZE[meta]), 81920 - (57 + K + MSIZE[meta]), 81921 - (57 + K + MSIZE[meta]), 81920, 81921])
        else:
            ln = rng.choice(sizes_for(K, meta, tier, rng))
        ln = max(ln, 0)
        key = key_hex(K, i)
        seed = 0 if ln == 0 else i + 1 + rng.randrange(50)
        L.append('W %s %d %s %d %d' % (key, 5 + i, meta, ln, seed))
        doff = off + 57 + K + MSIZE[meta]
        recs.append((key, meta, ln, seed, doff))
        off = doff + ln
    L.append('filehex blob 0')
    for (key, meta, ln, seed, doff) in recs:
        L.append('R %s' % key)
        L.append('RD %s' % key)
        if meta != '-':
            L.append('RW %s %s' % (key, meta))
    # the blob must also survive index regeneration untouched (scan over what was really written)
    if rng.random() < 0.6:
        L += ['close', 'rmindex 0', 'open']
        for (key, meta, ln, seed, doff) in recs:
            L.append('R %s' % key)
        L.append('counts')
    # damage one record's data
    cands = [r for r in recs if r[2] > 0]
    if cands:
        key, meta, ln, seed, doff = rng.choice(cands)
        mode = rng.choice(['mem', 'disk', 'regen'])
        if mode != 'mem':
            L.append('close')
        kind = rng.choice(['bit', 'byte', 'burst'])
        pos = rng.choice([0, ln // 2, ln - 1])
        if kind == 'bit':
            L.append('flip blob 0 %d %02x' % (doff + pos, 1 << rng.randrange(8)))
        elif kind == 'byte':
            L.append('flip blob 0 %d ff' % (doff + pos))
        else:
            # a burst of <= 32 bits starting at a random bit of byte pos: up to 5 bytes
            start = rng.randrange(8)
            nbits = rng.randrange(2, 33)
            bits = [1] + [rng.randrange(2) for _ in range(nbits - 2)] + [1]
            bytemasks = {}
            for j, b in enumerate(bits):
                if b:
                    bi = start + j
                    bytemasks[bi // 8] = bytemasks.get(bi // 8, 0) | (1 << (bi % 8))
            span = max(bytemasks) + 1
            p0 = min(pos, max(0, ln - span))
            if ln >= span:
                for bo, m in sorted(bytemasks.items()):
                    L.append('flip blob 0 %d %02x' % (doff + p0 + bo, m))
            else:
                L.append('flip blob 0 %d %02x' % (doff + pos, 1 << rng.randrange(8)))
        L.append('#DAMAGED %s' % key)
        if mode == 'regen':
            L.append('rmindex 0')
        if mode != 'mem':
            L.append('open')
        for (k2, m2, l2, s2, d2) in recs:
            L.append('R %s' % k2)
            L.append('RD %s' % k2)
            L.append('RA %s' % k2)
            if m2 != '-':
                L.append('RW %s %s' % (k2, m2))
    return '\n'.join(L) + '\n'


def gen_second_session_script(rng, tier):
    """Values of every size class written in a SECOND session, into the blob that was the active one at the clean
    shutdown (it is re-opened in append mode, where the kernel puts every write at the physical end whatever offset is
    passed): byte-exact blob file, round trip through the in-memory index and through a rebuilt one."""
    K = rng.choice([4, 32])
    L = ['cfg K=%d dup=1 runtime=%s validate=%d' % (K, rng.choice(['mt', 'ct']), rng.choice([0, 1])), 'open']
    L.append('W %s 5 - 5 1' % key_hex(K, 0))
    L += ['close', 'open']
    recs = []
    for i in range(rng.randrange(2, 5)):
        meta = rng.choice(['-', 'm0', 'm1', 'm3'])
        ln = rng.choice(sizes_for(K, meta, tier, rng) + [81920, 81921, 5000])
        key = key_hex(K, i + 1)
        seed = 0 if ln == 0 else 100 + i
        L.append('W %s %d %s %d %d' % (key, 6 + i, meta, ln, seed))
        recs.append((key, meta))
    L.append('filehex blob 0')
    for (key, meta) in recs:
        L += ['R %s' % key, 'RD %s' % key]
        if meta != '-':
            L.append('RW %s %s' % (key, meta))
    L += [rng.choice(['close', 'drop']), 'rmindex 0', 'open']
    for (key, meta) in recs:
        L.append('R %s' % key)
    L += ['counts', 'close']
    return '\n'.join(L) + '\n'


def gen_parallel_second_session_script(rng):
    """Several clients write values of 5 bytes to 5 KB at once into the blob that was re-opened (append mode) after a
    clean shutdown: every acknowledged value is read back byte for byte, through the in-memory index and through a
    rebuilt one (the appends have to reach the file in the order in which their offsets were handed out)."""
    nk = rng.choice([4, 8])
    L = ['cfg K=4 dup=1 runtime=%s validate=%d nomodel=1' % (rng.choice(['mt', 'mt', 'ct']), rng.choice([0, 1])), 'open', 'nop parallel-second-session']
    L.append('W 00000001 5 - 5 1')
    L += ['close', 'open']
    L.append('par tasks=%d ops=%d keys=%d seed=%d kinds=W base=2000' % (rng.choice([4, 8, 16]), rng.choice([5, 10]), nk, rng.randrange(1, 10**6)))
    L.append('quiesce')
    for i in range(nk):
        L.append('RD %08x' % (i + 1))
    L += [rng.choice(['close', 'drop']), 'rmindex 0', 'open']
    for i in range(nk):
        L.append('RD %08x' % (i + 1))
    L += ['counts', 'close']
    return '\n'.join(L) + '\n'


def gen(tier, rng):
    n = 120 if tier == 'quick' else 1500
    out = [('second%05d' % i, gen_second_session_script(rng, tier)) for i in range(n // 6)] + [('parsecond%05d' % i, gen_parallel_second_session_script(rng)) for i in range(n // 10)]
    for i in range(n):
        out.append(('bytes%05d' % i, gen_script(rng, tier, big=(i % 12 == 0))))
    return out


def oracle(lines, io, spec=None):
    fails = []
    if 'nop parallel-second-session' in lines:
        pi = next(i for i, l in enumerate(lines) if l.startswith('par '))
        if pi >= len(io) or not io[pi].startswith('par ') or io[pi].endswith('Timeout'):
            return ['the concurrent writes did not finish: %s' % (io[pi][:100] if pi < len(io) else '-')]
        acked = {}
        for tok in io[pi].split()[1:]:
            f = tok.split('/')[3].split(':')
            if f[0] == 'W' and f[-1] == 'ok':
                acked.setdefault(int(f[1]), []).append((int(f[2]), int(f[3])))
        for i in range(pi + 1, min(len(lines), len(io))):
            if lines[i].startswith('RD '):
                k = int(lines[i].split()[1], 16) - 1
                for (ts, ln) in acked.get(k, []):
                    if '(%d,0,m0,%d:%d)' % (ts, ln, ts) not in io[i] and '(%d,0,-,%d:%d)' % (ts, ln, ts) not in io[i]:
                        fails.append('line %d `%s`: the acknowledged value (ts %d, %d bytes) is not read back as written: %s' % (i, lines[i], ts, ln, io[i][:160]))
                        break
            if lines[i] == 'open' and io[i] != 'open ok':
                fails.append('line %d: %s' % (i, io[i]))
        return fails[:4]
    damaged = None
    # lines exclude comments; recover the damaged key from the flip position is not needed: any read that
    # returns bytes that are not the written payload shows up as `?crc` in the harness output
    for i, (l, o) in enumerate(zip(lines, io)):
        t = l.split()
        if t[0] in ('R', 'RW') and ' Found ' in o and '?' in o:
            fails.append('line %d `%s`: altered bytes were served: %s' % (i, l, o))
        if t[0] in ('RD', 'RA') and '?' in o:
            fails.append('line %d `%s`: altered bytes were served in a listing: %s' % (i, l, o))
    # before any damage, every read must return exactly what was written (spec answers)
    cut = len(lines)
    for i, l in enumerate(lines):
        if l.startswith('flip'):
            cut = i
            break
    fails += C.spec_oracle(lines[:cut], io[:cut], spec[:cut] if spec else None, ('R', 'RW', 'RD', 'counts'))
    return fails


classify = C.default_classify


def signature(lines, io):
    return hash((lines[0], tuple(tuple(l.split()[3:5]) for l in lines if l.startswith('W ')),
                 tuple(l for l in lines if l.startswith('flip'))[:1], tuple(o.split()[1] if len(o.split()) > 1 else '' for o in io[-6:])))
