"""C11 I/O fault containment: a failed file operation loses and corrupts nothing else."""
import os, re, subprocess, tempfile
from .gen_storage import Gen
from . import common as C

TIMEOUT = 1500
RULE = ('storage histories in which, at a random point, the n-th file operation of one kind (create / open / append / '
        'positional write / sync) on blob or index files is made to fail with ENOSPC or EIO or to write short (hook H1 '
        'failpoints), in client calls and in background dumps/rotation, in the first session or after a restart (re-opened, O_APPEND blob files); afterwards: all reads immediately, after the fault '
        'is cleared, after more writes and a forced rotation, and after a restart. Oracle: the Coq specification replayed '
        'over the ACKNOWLEDGED operations only (failed operations removed) must agree with every read in the session; '
        'after the restart every acknowledged record is served or a blob was quarantined; mutators succeed once the fault '
        'is cleared and next_blob_id keeps growing; distinct by (fault kind, file kind, action, outcome classes)')
ASSUMPTIONS = ['faults are injected at pearl\'s File layer (hook H1); directory-level failures (rename, read_dir) are not injected']


def gen_script(rng):
    g = Gen(rng, queries=(), maint=0.25, restart=rng.choice([0.0, 0.0, 0.2]), deletes=0.15, bg=0.0, nops=rng.randrange(5, 14), dup=1, metas=False)
    text = g.build().strip().split('\n')
    L = list(text)
    qs = []
    for k in g.keys:
        qs += ['R %s' % k]
    kind = rng.choice(['append', 'append', 'sync', 'sync', 'create', 'writeat', 'open'])
    pat = rng.choice(['.blob', '.blob', '.index']) if kind in ('append', 'sync', 'create') else ('.index' if kind == 'writeat' else '.blob')
    action = rng.choice(['ENOSPC', 'EIO', 'short:%d' % rng.choice([0, 1, 7, 30, 60, 100]),
                         'short:%d' % (rng.randrange(8, 20) if pat == '.blob' else rng.randrange(100, 700))]) if kind in ('append', 'writeat') else rng.choice(['ENOSPC', 'EIO'])
    L.append('fail %s %s %d %s' % (kind, pat, rng.choice([0, 0, 1, 2]), action))
    seed = 1000
    for _ in range(rng.randrange(3, 9)):
        x = rng.random()
        seed += 1
        if x < 0.45: L.append('W %s %d - %d %d' % (rng.choice(g.keys), rng.choice([5, 7, 9, 12]), rng.choice([5, 40]), seed))
        elif x < 0.55: L.append('D %s %d - %d' % (rng.choice(g.keys), rng.choice([5, 7, 9, 12]), rng.choice([0, 1])))
        elif x < 0.75: L.append(rng.choice(['close_active', 'force_update always', 'free_excess', 'create_active']))
        else: L.append('fsync')
        L += qs
    L.append('clearfail')
    L.append('quiesce')
    L += qs
    L.append('counts')
    for _ in range(3):
        seed += 1
        L.append('W %s %d - 5 %d' % (rng.choice(g.keys), rng.choice([5, 7, 9, 12, 15]), seed))
    L.append('force_update always')
    L += qs
    L.append('counts')
    # a clean shutdown, or a process kill (no index file is written: every blob that took a fault is scanned at the
    # next start; what the scan cannot serve has to be in the quarantine directory)
    L.append(rng.choice(['close', 'close', 'drop']))
    L.append('open')
    L += qs
    L.append('counts')
    return '\n'.join(L) + '\n'


def gen_create_script(rng):
    """The fault hits the creation of an active blob (file create / the 20-byte header append, failing or short /
    its sync), through try_create_active_blob or through the first write without an active blob; the creation is
    retried once the fault is cleared."""
    g = Gen(rng, queries=(), maint=0.1, restart=rng.choice([0.0, 0.15]), deletes=0.1, bg=0.0, nops=rng.randrange(3, 9), dup=1, metas=False)
    L = g.build().strip().split('\n')
    qs = ['R %s' % k for k in g.keys]
    L.append('close_active')
    kind = rng.choice(['append', 'append', 'append', 'create', 'sync'])
    action = rng.choice(['short:%d' % rng.randrange(0, 20), 'short:%d' % rng.randrange(8, 12), 'ENOSPC', 'EIO']) if kind == 'append' else rng.choice(['ENOSPC', 'EIO'])
    L.append('fail %s .blob 0 %s' % (kind, action))
    seed = 2000
    for _ in range(rng.choice([1, 1, 2])):
        seed += 1
        L.append(rng.choice(['create_active', 'W %s 12 - 5 %d' % (rng.choice(g.keys), seed), 'D %s 12 - 0' % rng.choice(g.keys)]))
        L += qs
    L.append('clearfail')
    L.append('quiesce')
    L.append(rng.choice(['create_active', 'nop']))
    L += qs
    L.append('counts')
    for _ in range(3):
        seed += 1
        L.append('W %s %d - 5 %d' % (rng.choice(g.keys), rng.choice([13, 15]), seed))
    L.append('force_update always')
    L += qs
    L.append('counts')
    L.append('close')
    L.append('open')
    L += qs
    L.append('counts')
    return '\n'.join(L) + '\n'


def gen_failed_switch_script(rng):
    """The creation of the NEXT blob fails when the worker switches away from a full active blob (nobody's call
    reports it: the request came from a write that was acknowledged). Once the fault is cleared the next write asks
    again: rotation, dumps and syncs go on."""
    maxrec = rng.choice([2, 4, 7])
    L = ['cfg K=4 dup=1 group=2 bloom=none init=eager runtime=%s maxrec=%d' % (rng.choice(['mt', 'ct']), maxrec), 'open']
    keys = ['%08x' % (i + 1) for i in range(3)]
    qs = ['R %s' % k for k in keys]
    seed = 0
    for _ in range(rng.randrange(0, 2) * maxrec + maxrec - rng.choice([0, 0, 1])):
        seed += 1
        L.append('W %s %d - 5 %d' % (rng.choice(keys), rng.choice([5, 7, 9]), seed))
    # (the worker looks at a switch request only when its debounce interval has passed: hence the pauses)
    L.append('sleep 250')
    L.append('fail create .blob 0 %s' % rng.choice(['ENOSPC', 'EIO']))
    for _ in range(rng.choice([1, 2, 3])):
        seed += 1
        L.append('W %s %d - 5 %d' % (rng.choice(keys), rng.choice([5, 7, 9, 12]), seed))
        L += qs + ['sleep 250']
    L += ['sleep 250', 'clearfail', 'quiesce'] + qs + ['counts']
    for _ in range(3):
        seed += 1
        L.append('W %s %d - 5 %d' % (rng.choice(keys), rng.choice([5, 7, 9, 12, 15]), seed))
    L += ['force_update always', 'quiesce'] + qs + ['counts', rng.choice(['close', 'close', 'drop']), 'open'] + qs + ['counts']
    return '\n'.join(L) + '\n'


def gen_delete_script(rng):
    """The fault hits the append of the deletion marker to the ACTIVE blob while the key also lives in closed blobs
    (a delete goes to the active blob first, then to every closed blob): the delete returns an error and must not be
    served anywhere -- not from the closed blobs either."""
    g = Gen(rng, queries=(), maint=0.3, restart=rng.choice([0.0, 0.15]), deletes=0.1, bg=0.0, nops=rng.randrange(4, 11), dup=1, metas=False)
    L = g.build().strip().split('\n')
    qs = ['R %s' % k for k in g.keys]
    seed = 3000
    k = rng.choice(g.keys)
    seed += 1
    L.append('W %s %d - 5 %d' % (k, rng.choice([5, 7, 9]), seed))       # the key is certainly somewhere
    L.append('close_active')
    L.append(rng.choice(['create_active', 'W %s 9 - 5 %d' % (rng.choice(g.keys), seed + 1)]))
    seed += 1
    L += qs
    L.append('fail append .blob 0 %s' % rng.choice(['ENOSPC', 'EIO', 'short:0', 'short:%d' % rng.randrange(1, 60)]))
    L.append('D %s %d - %d' % (k, rng.choice([12, 13]), rng.choice([0, 0, 1])))
    L += qs
    L.append('clearfail')
    L.append('quiesce')
    L += qs
    L.append('counts')
    for _ in range(2):
        seed += 1
        L.append('W %s %d - 5 %d' % (rng.choice(g.keys), rng.choice([5, 7, 9]), seed))
    L.append('force_update always')
    L += qs
    L.append('counts')
    L.append('close')
    L.append('open')
    L += qs
    L.append('counts')
    return '\n'.join(L) + '\n'


def gen_torn_script(rng):
    """A LARGE record is written short (its header is complete, most of its data is missing), the fault clears, a few
    small records are acknowledged behind the torn bytes, and the process is killed before any index file is written:
    at the next start the acknowledged records are served, or the blob is in the quarantine directory -- a scan that
    takes the torn record for the end of the blob loses them silently."""
    g = Gen(rng, queries=(), maint=0.2, restart=0.0, deletes=0.1, bg=0.0, nops=rng.randrange(2, 7), dup=1, metas=False)
    L = g.build().strip().split('\n')
    qs = ['R %s' % k for k in g.keys]
    L.append(rng.choice(['nop', 'close_active']))
    seed = 4000
    L.append('W %s 5 - 5 %d' % (g.keys[0], seed))
    L.append('fail append .blob 0 short:%d' % rng.choice([61, 69, 80, 150, 400]))
    seed += 1
    L.append('W %s 6 - %d %d' % (rng.choice(g.keys), rng.choice([2000, 5000, 20000]), seed))
    L += qs
    L.append('clearfail')
    L.append('quiesce')
    for _ in range(rng.choice([1, 2, 3])):
        seed += 1
        L.append('W %s %d - 5 %d' % (rng.choice(g.keys), rng.choice([7, 9]), seed))
    L += qs
    L.append('counts')
    L.append('drop')
    L.append('open')
    L += qs
    L.append('counts')
    return '\n'.join(L) + '\n'


def gen(tier, rng):
    n = 260 if tier == 'quick' else 6000
    return [('fault%05d' % i, gen_script(rng)) for i in range(n)] + [('create%05d' % i, gen_create_script(rng)) for i in range(n // 3)] + [('failedswitch%05d' % i, gen_failed_switch_script(rng)) for i in range(n // 10)] + \
           [('delete%05d' % i, gen_delete_script(rng)) for i in range(n // 5)] + [('torn%05d' % i, gen_torn_script(rng)) for i in range(n // 8)]


def spec_for_acknowledged(lines, io, drop=()):
    """replay the model with failed mutators removed; returns the driver's spec lines (aligned with `lines`).
    `drop`: indices of further lines to leave out (partially failed deletes: the all-or-none bracket)"""
    L2 = []
    for i, l in enumerate(lines):
        t = l.split()[0]
        o = io[i] if i < len(io) else ''
        if i in drop:
            L2.append('nop')
        elif t in ('fail', 'clearfail'):
            L2.append('nop')
        elif t in ('W', 'D') and (' Err ' in o or o.endswith('Timeout') or ' Panic ' in o):
            L2.append('nop')
        elif t in ('close_active', 'create_active', 'restore_active') and ' Err Io' in o:
            L2.append('nop')
        else:
            L2.append(l)
    drv = os.path.join(C.CACHE, 'driver')
    with tempfile.TemporaryDirectory(dir=os.environ.get('VERIF_TMP', '/tmp')) as td:
        sp = os.path.join(td, 'ack.txt')
        open(sp, 'w').write('\n'.join(L2) + '\n')
        subprocess.run([drv, sp, sp + '.out'], timeout=120)
        spec = open(sp + '.out.spec').read().split('\n') if os.path.exists(sp + '.out.spec') else []
        model = open(sp + '.out').read().split('\n') if os.path.exists(sp + '.out') else []
    return spec, model


def oracle(lines, io, spec=None):
    fails = []
    fi = next((i for i, l in enumerate(lines) if l.startswith('fail ')), None)
    if fi is None:
        return fails
    fault = lines[fi]
    aspec, amodel = spec_for_acknowledged(lines, io)
    ci = lines.index('clearfail')
    close_i = next(i for i in range(ci, len(lines)) if lines[i] in ('close', 'drop'))
    open_i = close_i + 1
    hit = any(' Err ' in o for o in io[fi:ci])
    bg_fault = not hit
    def tag_for(i):
        # the classes that used to be recognised here (F1, F2, F9, F15, F20) are all repaired in the code: nothing is tagged
        return ''
    # a delete whose fault hit one of the closed blobs is logged and counted as 0 there (the call still returns Ok):
    # which blobs got their marker is then not determined by the acknowledgement; such keys are left out
    uncertain = set()
    partial = set()
    for i in range(fi, min(ci, len(io), len(amodel))):
        # (only a delete that RETURNED OK with another count: a delete that returned an error must not be served at all)
        if lines[i].startswith('D ') and io[i] != amodel[i] and io[i].split()[1:2] != ['Err'] and not io[i].endswith('Timeout') and 'Panic' not in io[i]:
            uncertain.add(lines[i].split()[1]); partial.add(i)
    # theorem C11_failed_delete_markers / cancelled_delete_read: the read of such a key is the read WITHOUT the delete
    # or the read WITH the completed delete -- nothing else
    nspec = spec_for_acknowledged(lines, io, drop=partial)[0] if partial else aspec
    def bracket_ok(i):
        a = aspec[i][3:] if i < len(aspec) and aspec[i][:3] in ('ok ', 'f2 ') else None
        b = nspec[i][3:] if i < len(nspec) and nspec[i][:3] in ('ok ', 'f2 ') else None
        return a is None or b is None or io[i] in (a, b)
    # "the affected call reports an error": a delete that has to append its marker to the active blob (only_if_presented
    # = 0 always does) and whose append was made to fail must not return Ok
    for i in range(fi + 1, min(ci, len(io))):
        t = lines[i].split()
        if t[0] == 'D' and t[-1] == '0' and lines[i - 1].startswith('fail append .blob 0') and ' Err ' not in io[i] and 'counts' in ''.join(lines) and \
                any(l == 'create_active' or l.startswith('W ') for l in lines[max(0, i - 6):i - 1]):
            fails.append('line %d `%s`: the append of the deletion record to the active blob was made to fail, the call returned `%s`' % (i, lines[i], io[i]))
            break
    # session: reads must equal the specification over acknowledged operations
    for i in range(fi, min(close_i, len(io))):
        l = lines[i]
        if l.startswith('R ') and l.split()[1] in uncertain:
            if not bracket_ok(i):
                fails.append(tag_for(i) + 'line %d `%s` after a partially failed delete: `%s` is neither the answer without the delete nor the answer with it' % (i, l, io[i]))
                break
            continue
        if l.startswith('R ') and i < len(aspec) and aspec[i].startswith('ok '):
            want = aspec[i][3:]
            if io[i] != want:
                fails.append(tag_for(i) + 'line %d `%s` after `%s`: implementation `%s`, acknowledged history implies `%s`' % (i, l, fault, io[i], want))
                break
    # mutators succeed once the fault is cleared; rotation continues
    for i in range(fi, min(close_i, len(io))):
        if io[i] == 'quiesce dead':
            fails.append('line %d: background maintenance has stopped after `%s` (the worker task has ended): no rotation, no index dump, no background sync from here on' % (i, fault))
            break
    for i in range(ci, min(close_i, len(io))):
        if lines[i].split()[0] in ('W', 'D') and ' Err ' in io[i]:
            fails.append(tag_for(i) + 'line %d `%s`: still failing after the fault was cleared: %s' % (i, lines[i], io[i]))
            break
    cs = [i for i in range(ci, close_i) if lines[i] == 'counts' and i < len(io) and io[i].startswith('counts')]
    if len(cs) == 2:
        nx = lambda o: int(re.search(r'next=(\d+)', o).group(1))
        if nx(io[cs[1]]) <= nx(io[cs[0]]):
            fails.append(tag_for(cs[1]) + 'rotation does not continue after the fault cleared: next_blob_id %d -> %d after force_update' % (nx(io[cs[0]]), nx(io[cs[1]])))
    # restart: served, or preserved in a quarantined blob
    if open_i < len(io):
        if io[open_i] != 'open ok':
            fails.append(tag_for(open_i) + 'init fails after the faulty session: %s' % io[open_i])
        else:
            cl = io[len(lines) - 1] if len(io) >= len(lines) else ''
            quarantined = 'corrupted=0' not in cl
            for i in range(open_i + 1, min(len(lines), len(io))):
                l = lines[i]
                if l.startswith('R ') and l.split()[1] in uncertain:
                    if not bracket_ok(i) and not quarantined:
                        fails.append(tag_for(i) + 'line %d `%s` after restart, after a partially failed delete: `%s` is neither the answer without the delete nor the answer with it' % (i, l, io[i]))
                        break
                    continue
                if l.startswith('R ') and i < len(aspec) and aspec[i].startswith('ok '):
                    if io[i] != aspec[i][3:] and not quarantined:
                        fails.append(tag_for(i) + 'line %d `%s` after restart: `%s`, acknowledged history implies `%s` (nothing quarantined)' % (i, l, io[i], aspec[i][3:]))
                        break
    return fails[:5]


classify = C.default_classify


def signature(lines, io):
    f = next((l for l in lines if l.startswith('fail ')), '')
    errs = tuple(sorted(set(o.split(' Err ')[1] for o in io if ' Err ' in o)))
    return hash((f.split()[1:3] and tuple(f.split()[1:5:3]) or (), f.split()[2] if f else '', errs, io[-1] if io else ''))
