"""C17 On-disk format compatibility with the pinned release."""
import os, itertools, re
from . import common as C

CORPUS = os.path.join(C.VERIF, 'corpus')
RULE = ('committed corpus written by the pinned release (12 directories: key sizes 4/8/32, bloom on/off, ended with close '
        '(all index files) or without it (active blob has none), deletes, metas, sizes up to 5000): (1) the Coq model '
        'replays each history and must reproduce every recorded answer AND the recorded blob files AND index files (hash and record checksums masked) byte for byte; (2) the '
        'current crate opens a copy of every directory, for EVERY subset of index files removed, eager and lazy, and must '
        'answer every recorded query identically, also after off-loading the bloom buffers re-read from the recorded index files; (3) mismatched variants: wrong key size (blobs must be quarantined, never '
        'misread), blob version bumped (init must fail with a validation error), index version / key size changed (index '
        'ignored, answers unchanged); distinct by (entry, index subset, variant)')
ASSUMPTIONS = ['the corpus was generated from commit 8fcb7aa plus the cfg-gated hook commits (no behavioural change)',
               'releases older than the pinned one are out of scope']


def entries():
    return sorted(d for d in os.listdir(CORPUS) if os.path.isdir(os.path.join(CORPUS, d)))


def gen(tier, rng):
    out = []
    for e in entries():
        q = open(os.path.join(CORPUS, e, 'query.txt')).read().strip().split('\n')
        open_i = q.index('open')
        nidx = len([f for f in os.listdir(os.path.join(CORPUS, e, 'dir')) if f.endswith('.index')])
        subsets = list(itertools.chain.from_iterable(itertools.combinations(range(nidx), r) for r in range(nidx + 1)))
        if tier == 'quick':
            subsets = [s for s in subsets if len(s) in (0, 1, nidx)]
        for sub in subsets:
            for lazy in ((False, True) if (tier != 'quick' or len(sub) in (0, nidx)) else (False,)):
                L = list(q)
                L[0] = L[0].replace('init=eager', 'init=lazy') if lazy else L[0]
                if 'bloom=none' not in L[0] and 'bloombits=' not in L[0]:
                    from .gen_storage import bloom_bits
                    L[0] += ' bloombits=%d' % bloom_bits()
                L[open_i:open_i] = (['filehex index %d' % i for i in range(nidx)] if not sub else []) + ['rmindex %d' % i for i in sub]
                out.append(('%s/idx-%s%s' % (e, ''.join(map(str, sub)) or 'all', '-lazy' if lazy else ''), '\n'.join(L) + '\n'))
                if 'bloom=none' not in L[0] and len(sub) in (0, 1):
                    # the same queries once more after the bloom buffers (re-read from the recorded index files) were dropped:
                    # the probes then read the filter bits from the recorded files
                    oi2 = L.index('open')
                    qs = [l for l in L[oi2 + 1:] if l.split()[0] in ('R', 'C', 'RD', 'RA', 'RW', 'CF', 'counts')]
                    for lvl in ((0, 1, 2) if tier != 'quick' else (rng.choice([0, 1, 2]),)):
                        L2 = L + ['offload 100000000 %d' % lvl] + qs
                        out.append(('%s/idx-%s%s-offload%d' % (e, ''.join(map(str, sub)) or 'all', '-lazy' if lazy else '', lvl), '\n'.join(L2) + '\n'))
        # mismatch variants (oracle only)
        K = int(re.search(r'K=(\d+)', q[0]).group(1))
        otherK = 8 if K != 8 else 4
        base = [l for l in q if not l.startswith('model:')]
        oi = base.index('open')
        wrongk = list(base); wrongk[0] = wrongk[0].replace('K=%d' % K, 'K=%d' % otherK) + ' nomodel=1'
        wrongk = [l for l in wrongk if not (l.split()[0] in ('R', 'C', 'RD', 'RA', 'RW', 'CF', 'know', 'filehex'))]
        out.append(('%s/reject-keysize' % e, '\n'.join(wrongk) + '\n'))
        ver = list(base); ver[0] += ' nomodel=1'; ver[oi:oi] = ['patch blob 1 8 02000000']
        out.append(('%s/reject-blobversion' % e, '\n'.join(ver) + '\n'))
        iv = list(base); iv[0] += ' nomodel=1'; iv[oi:oi] = ['patch index 0 72 0f', 'patch index 1 73 %s' % (otherK).to_bytes(2, 'little').hex()]
        out.append(('%s/index-mismatch' % e, '\n'.join(iv) + '\n'))
        # an index file of ANOTHER format version whose content would be misread if it were taken for the current one
        # (the version byte says 5 or 7, the tail of the leaves is not what the current layout expects): it has to be
        # rejected -- the answers then come from the blob, as recorded
        i0 = [f for f in os.listdir(os.path.join(CORPUS, e, 'dir')) if f.endswith('.0.index')]
        if i0:
            sz = os.path.getsize(os.path.join(CORPUS, e, 'dir', i0[0]))
            for vb in ('0b', '0f'):
                fv = list(base); fv[0] += ' nomodel=1'
                fv[oi:oi] = ['patch index 0 72 %s' % vb, 'patch index 0 %d %s' % (sz - 24, '00' * 24)]
                out.append(('%s/index-foreign-%s' % (e, vb), '\n'.join(fv) + '\n'))
        if 'bloom=none' in base[0]:
            # a directory written WITHOUT bloom filters (its index files hold a 0-bit filter placeholder) opened by a storage
            # that has them switched on: every recorded answer has to come back
            from .gen_storage import bloom_cfg_hex
            wb = [l for l in base if l.split()[0] not in ('CF', 'filehex')]
            wb[0] = wb[0].replace('bloom=none', 'bloom=%s' % bloom_cfg_hex()) + ' nomodel=1'
            wb.insert(1, 'nop open-with-bloom')
            for lazy in (False, True):
                wl = list(wb)
                if lazy:
                    wl[0] = wl[0].replace('init=eager', 'init=lazy')
                out.append(('%s/open-with-bloom%s' % (e, '-lazy' if lazy else ''), '\n'.join(wl) + '\n'))
    return out


def oracle(lines, io, spec=None):
    fails = []
    m = re.search(r'usedir=(\S+)', lines[0])
    if not m:
        return fails
    e = os.path.basename(os.path.dirname(m.group(1)))
    exp_lines = [l for l in open(os.path.join(CORPUS, e, 'expected.txt')).read().split('\n') if l]
    q = [l for l in open(os.path.join(CORPUS, e, 'query.txt')).read().split('\n') if l and not l.startswith('#')]
    recorded = dict()
    for l, o in zip(q, exp_lines):
        if l.split()[0] in ('R', 'C', 'RD', 'RA', 'RW', 'CF', 'counts', 'filehex'):
            recorded[l] = o
    variant = 'plain'
    if 'nop open-with-bloom' in lines:
        variant = 'plain'
    elif 'nomodel=1' in lines[0]:
        if any(l.startswith('patch blob') for l in lines): variant = 'blobversion'
        elif any(l.startswith('patch index') for l in lines): variant = 'indexmismatch'
        else: variant = 'keysize'
    open_i = lines.index('open')
    if open_i >= len(io):
        return ['script did not reach open']
    if variant == 'blobversion':
        if io[open_i] != 'open Err Validation:BlobVersion':
            fails.append('a blob with a different format version was not rejected with a version validation error: %s' % io[open_i])
        return fails
    if io[open_i] != 'open ok':
        fails.append('the current code cannot open a directory written by the pinned release (%s): %s' % (e, io[open_i]))
        return fails
    if variant == 'keysize':
        c = next((o for l, o in zip(lines, io) if l == 'counts'), '')
        nblobs = len([f for f in os.listdir(os.path.join(CORPUS, e, 'dir')) if f.endswith('.blob')])
        if 'records=0 ' not in c or ('corrupted=%d' % nblobs) not in c:
            fails.append('blobs with another key size were not all quarantined (validation error expected): %s' % c)
        return fails
    lazy = 'init=lazy' in lines[0]
    for l, o in zip(lines, io):
        if l in recorded and l.split()[0] != 'filehex':
            want = recorded[l]
            if l == 'counts':
                # eager/lazy differ only in the active-blob figures; compare the totals and per-blob counts
                f = lambda x: (re.search(r'records=(\d+)', x).group(1), sorted(p.split(':')[1] for p in re.search(r'detailed=\[([^\]]*)\]', x).group(1).split(',') if p))
                if f(o) != f(want):
                    fails.append('`counts`: recorded `%s`, now `%s`' % (want, o))
            elif o != want:
                fails.append('`%s`: recorded answer `%s`, current code answers `%s`' % (l, want, o))
        elif l in recorded and variant == 'plain' and o != recorded[l]:
            fails.append('`%s`: the stored bytes of the corpus file changed?!' % l)
    return fails[:6]


classify = C.default_classify


def signature(lines, io):
    return hash((lines[0], tuple(l for l in lines if l.startswith('rmindex') or l.startswith('patch') or l.startswith('offload'))))
