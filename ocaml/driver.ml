(* Run-time-parsing driver around the extracted model (Model = coq/theories/Extract/Extract.v).
   Reads a script (one op per line), prints one observation per line; the Rust harness prints the
   same observations for the same script; `check` diffs them.  Trusted for the correspondence only. *)
open Model

(* ---------- conversions ---------- *)
let rec pos_of_int i =
  if i = 1 then XH else if i land 1 = 0 then XO (pos_of_int (i lsr 1)) else XI (pos_of_int (i lsr 1))
let n_of_int i = if i < 0 then failwith "negative" else if i = 0 then N0 else Npos (pos_of_int i)
let rec int_of_pos = function XH -> 1 | XO p -> 2 * int_of_pos p | XI p -> 2 * int_of_pos p + 1
let int_of_n = function N0 -> 0 | Npos p -> int_of_pos p
let rec nat_of_int i = if i = 0 then O else S (nat_of_int (i - 1))
let rec int_of_nat = function O -> 0 | S n -> 1 + int_of_nat n

(* bits of an N, least significant first *)
let rec bits_of_pos = function XH -> [true] | XO p -> false :: bits_of_pos p | XI p -> true :: bits_of_pos p
let hex_of_n n =
  match n with
  | N0 -> "0"
  | Npos p ->
    let bits = Array.of_list (bits_of_pos p) in
    let nd = (Array.length bits + 3) / 4 in
    let b = Buffer.create nd in
    for d = nd - 1 downto 0 do
      let v = ref 0 in
      for j = 3 downto 0 do
        let idx = d * 4 + j in
        v := !v * 2 + (if idx < Array.length bits && bits.(idx) then 1 else 0)
      done;
      Buffer.add_char b "0123456789abcdef".[!v]
    done;
    Buffer.contents b
(* N from a list of bits, most significant first *)
let n_of_bits_msb bits =
  List.fold_left (fun acc b ->
      match acc, b with
      | N0, false -> N0
      | N0, true -> Npos XH
      | Npos p, false -> Npos (XO p)
      | Npos p, true -> Npos (XI p)) N0 bits
let hexval c =
  match c with
  | '0'..'9' -> Char.code c - 48
  | 'a'..'f' -> Char.code c - 87
  | 'A'..'F' -> Char.code c - 55
  | _ -> failwith ("bad hex digit " ^ String.make 1 c)
let n_of_hex s =
  let bits = ref [] in
  String.iter (fun c -> let v = hexval c in
                bits := (v land 1 = 1) :: (v land 2 = 2) :: (v land 4 = 4) :: (v land 8 = 8) :: !bits) s;
  n_of_bits_msb (List.rev !bits)
(* decimal or 0x-hex *)
let n_of_string s =
  if String.length s > 2 && s.[0] = '0' && s.[1] = 'x' then n_of_hex (String.sub s 2 (String.length s - 2))
  else if String.length s <= 17 then n_of_int (int_of_string s)
  else failwith ("decimal too long, use hex: " ^ s)
let dec_of_n n = (* only for values that fit an OCaml int *) string_of_int (int_of_n n)

let bytes_of_hex s : n list =
  if s = "-" then [] else begin
    if String.length s mod 2 <> 0 then failwith "odd hex";
    List.init (String.length s / 2) (fun i -> n_of_int (hexval s.[2*i] * 16 + hexval s.[2*i+1]))
  end
let hex_of_bytes (bs : n list) =
  if bs = [] then "-" else begin
    let b = Buffer.create (2 * List.length bs) in
    List.iter (fun x -> Buffer.add_string b (Printf.sprintf "%02x" (int_of_n x))) bs;
    Buffer.contents b
  end

let out = Buffer.create 65536
let spec_out = Buffer.create 65536
let spec_pending = ref "-"
let emit s = Buffer.add_string out s; Buffer.add_char out '\n';
  Buffer.add_string spec_out !spec_pending; Buffer.add_char spec_out '\n'; spec_pending := "-" 

(* ---------- bloom objects ---------- *)
let blooms : (string, bloom) Hashtbl.t = Hashtbl.create 16
let raws : (string, n list option) Hashtbl.t = Hashtbl.create 16
let fr_str = function NeedAdditionalCheck -> "Maybe" | NotContains -> "No"
let ofr_str = function Some r -> fr_str r | None -> "None"

let cmd_bloom args =
  match args with
  | ["new"; id; cfghex; hashers; bits] | ["newbits"; id; cfghex; hashers; bits] ->
    Hashtbl.replace blooms id (bloom_new (n_of_string bits) (n_of_string hashers) (bytes_of_hex cfghex));
    emit ("bits " ^ bits)
  | ["add"; id; key] ->
    let b = Hashtbl.find blooms id in
    let ok = (match b.bl_inner with Some _ -> "ok" | None -> "err") in
    Hashtbl.replace blooms id (bloom_add bloom_hash b (bytes_of_hex key)); emit ("add " ^ ok)
  | ["probe"; id; key] ->
    emit ("mem " ^ ofr_str (bloom_contains_in_memory bloom_hash (Hashtbl.find blooms id) (bytes_of_hex key)))
  | ["raw"; id] ->
    let r = bloom_to_raw (Hashtbl.find blooms id) in
    Hashtbl.replace raws id r;
    emit ("raw " ^ (match r with Some bs -> hex_of_bytes bs | None -> "none"))
  | ["fileprobe"; id; rawid; key] ->
    (match Hashtbl.find raws rawid with
     | None -> emit "file noraw"
     | Some bs ->
       let arr = Array.of_list bs in
       let file i = let i = int_of_n i in if i < Array.length arr then Some arr.(i) else None in
       emit ("file " ^ ofr_str (bloom_contains_in_file bloom_hash file (Hashtbl.find blooms id) (bytes_of_hex key))))
  | ["offload"; id] -> Hashtbl.replace blooms id (bloom_offload (Hashtbl.find blooms id)); emit "offload"
  | ["clear"; id] -> Hashtbl.replace blooms id (bloom_clear (Hashtbl.find blooms id)); emit "clear"
  | ["merge"; dst; src] ->
    (match bloom_merge (Hashtbl.find blooms dst) (Hashtbl.find blooms src) with
     | Some b -> Hashtbl.replace blooms dst b; emit "merge true"
     | None -> emit "merge false")
  | ["hash"; i; key] -> emit ("hash " ^ hex_of_n (bloom_hash (n_of_string i) (bytes_of_hex key)))
  | _ -> failwith "bad bloom command"

let handlers : (string * (string list -> unit)) list ref =
  ref [ ("bloom", cmd_bloom); ("cfg", (fun _ -> emit "cfg")); ("autoquiesce", (fun _ -> emit "autoquiesce")) ]


let images : (int, n list) Hashtbl.t = Hashtbl.create 8
let outs : (int, n list) Hashtbl.t = Hashtbl.create 8

(* ---------- storage (L3) ---------- *)
let st : storage ref = ref init_storage
let st_k = ref 4
let blob_version_patched_ref = ref false
let st_key_le = ref false   (* cfg order=le: the index probe's key type is ordered as a little-endian number *)
let st_cfg = ref { c_dup = true; c_maxrec = n_of_int 1000000; c_maxsize = n_of_int 1000000000 }
let tainted_ref = ref false
let hard_taint = ref false   (* the model lost track of the files themselves (faults, cancellations) *)
let st_lazy = ref false
let st_validate = ref false

let meta_of = function
  | "-" -> (None, 8) | "m0" -> (Some 0, 8) | "m1" -> (Some 1, 26) | "m2" -> (Some 2, 53) | "m3" -> (Some 3, 350)
  | m -> failwith ("meta " ^ m)
let meta_name n = match int_of_n n with 0 -> "m0" | 1 -> "m1" | 2 -> "m2" | 3 -> "m3" | _ -> "m?"
let err_name = function
  | EActiveBlobExists -> "ActiveBlobExists" | EActiveBlobDoesntExist -> "ActiveBlobDoesntExist"
  | EUninitialized -> "Uninitialized" | EIndex -> "Index" | EActiveBlobNotSet -> "ActiveBlobNotSet"
  | ENoStorage -> "NoStorage" | EAlreadyOpen -> "AlreadyOpen"
let rec_str r =
  Printf.sprintf "(%s,%d,%s,%s:%s)" (dec_of_n r.r_ts) (if r.r_del then 1 else 0) (meta_name r.r_meta)
    (dec_of_n r.r_dlen) (dec_of_n r.r_dseed)

let fmt_out name r =
  match r with
  | RErr ENoStorage -> (name ^ " NoStorage")
  | RErr e -> (name ^ " Err " ^ err_name e)
  | RUnit -> (name ^ (match name with
      | "bg_close" | "bg_create" | "bg_restore" | "force_update" | "free_excess" -> " sent"
      | "sleep" | "drop" -> "" | _ -> " ok"))
  | RNum n -> (name ^ " " ^ (if name = "rmindex" then (if int_of_n n = 1 then "ok" else "absent") else dec_of_n n))
  | RRead (Found r) ->
    if name = "C" then (name ^ " Found " ^ dec_of_n r.r_ts)
    else (Printf.sprintf "%s Found %s %s" name (dec_of_n r.r_dlen) (dec_of_n r.r_dseed))
  | RRead (Deleted t) -> (name ^ " Deleted " ^ dec_of_n t)
  | RRead NotFound -> (name ^ " NotFound")
  | RList l -> (name ^ " [" ^ String.concat " " (List.map rec_str l) ^ "]")
  | RCounts (records, det, act, blobs, next, corr, has) ->
    (Printf.sprintf "counts records=%s detailed=[%s] active=%s blobs=%s next=%s corrupted=%s has_active=%d"
            (dec_of_n records)
            (String.concat "," (List.map (fun (i, n) -> dec_of_n i ^ ":" ^ dec_of_n n) det))
            (match act with Some n -> dec_of_n n | None -> "none")
            (dec_of_n blobs) (dec_of_n next) (dec_of_n corr) (if has then 1 else 0))
  | RAlive b -> (name ^ (if b then " alive" else " dead"))

let pending_evs : ev list ref = ref []
let auto_q = ref true
(* the hierarchy of merged filters maintained alongside the storage model (Storage/Filtered.v `track`) *)
let st_ignore = ref false
let st_group = ref 2
let st_bloom_cfg : string option ref = ref None      (* hex of the bloom config, None = bloom disabled *)
let st_bloom_bits : int option ref = ref None        (* bit count chosen by the implementation's float formula *)
let st_bloom_hashers = ref 0
let hier_tr : chier ref = ref (ch_new (nat_of_int 2))
let hier_valid = ref true
let bloom0 () : bloom option =
  match !st_bloom_cfg, !st_bloom_bits with
  | None, _ -> None
  | Some c, Some bits -> Some (bloom_new (n_of_int bits) (n_of_int !st_bloom_hashers) (bytes_of_hex c))
  | Some _, None -> None
let filters_known () = !hier_valid && (match !st_bloom_cfg, !st_bloom_bits with Some _, None -> false | _ -> true)
let () = handlers := ("autoquiesce", (fun a -> auto_q := (a = ["1"]); emit "autoquiesce")) :: (List.filter (fun (n, _) -> n <> "autoquiesce") !handlers)
let do_op name o =
  let (s', r) = (if !auto_q then step_q else step) (n_of_int !st_k) !st_cfg !st o in
  pending_evs := !pending_evs @ step_evs (n_of_int !st_k) !st_cfg !st s' o;
  (* the specification's answer, evaluated on the state the query ran in; the ghost flag of the
     known class F2 is reported so that the check can classify *)
  (match spec_answer !st o with
   | Some sr when !st.s_open -> spec_pending := (if !st.s_f2 then "f2 " else "ok ") ^ fmt_out name sr
   | _ -> ());
  (if filters_known () then
     hier_tr := track (n_of_int !st_k) (bloom0 ()) (nat_of_int !st_group) o !st s' !hier_tr);
  st := s';
  emit (fmt_out name r)

let key_of s = n_of_hex s

let cmd_cfg args =
  List.iter (fun tok ->
      match String.split_on_char '=' tok with
      | ["K"; v] -> st_k := int_of_string v
      | ["order"; v] -> st_key_le := (v = "le")
      | ["dup"; v] -> st_cfg := { !st_cfg with c_dup = (v = "1") }
      | ["maxrec"; v] -> st_cfg := { !st_cfg with c_maxrec = n_of_string v }
      | ["maxsize"; v] -> st_cfg := { !st_cfg with c_maxsize = n_of_string v }
      | ["init"; v] -> st_lazy := (v = "lazy")
      | ["group"; v] -> st_group := int_of_string v
      | ["bloom"; v] -> st_bloom_cfg := (if v = "none" then None else Some v);
        (* hashers = second u64 of the 40-byte config *)
        (if v <> "none" && String.length v >= 32 then st_bloom_hashers := int_of_n (le_val (bytes_of_hex (String.sub v 16 16))))
      | ["bloombits"; v] -> st_bloom_bits := Some (int_of_string v)
      | ["validate"; v] -> st_validate := (v = "1")
      | ["ignore"; v] -> st_ignore := (v = "1")
      | ["nomodel"; "1"] -> tainted_ref := true; blob_version_patched_ref := true    (* no model state: tool outputs are not predicted either *)
      | _ -> ()) args;
  emit "cfg"

(* the index file of a storage blob, byte for byte (SHA-256 field and the two checksums of every leaf header masked on
   both sides): header, filter section (range + bloom of the blob's keys), tree meta, tree, leaves -- Index/Bytes.v
   index_file_bytes on the records the file describes *)
let index_bytes_of_blob (b : blob) : n list option =
  let k = !st_k in
  match b.b_idxfile with
  | None -> None
  | Some (sz, _) ->
    let szi = int_of_n sz in
    let off = ref 20 in
    let pm = ref [] in
    let rg = ref range_empty in
    let bl = ref (bloom0 ()) in
    List.iter (fun r ->
        let len = 57 + k + int_of_n r.r_msize + int_of_n r.r_dlen in
        if !off + len <= szi then begin
          let h = { ih_key = r.r_key; ih_ts = r.r_ts; ih_del = r.r_del; ih_msize = r.r_msize; ih_dsize = r.r_dlen; ih_off = n_of_int !off } in
          pm := pm_push !pm h; rg := range_add !rg r.r_key;
          (match !bl with Some x -> bl := Some (bloom_add bloom_hash x (be_bytes (nat_of_int k) r.r_key)) | None -> ());
          off := !off + len end) b.b_recs;
    let meta = filters_bytes (n_of_int k) !rg (match !bl with Some x -> bloom_to_raw x | None -> None) in
    let bytes = index_file_bytes (n_of_int k) (List.init 32 (fun _ -> N0)) true meta !pm sz in
    let arr = Array.of_list bytes in
    let cnt = List.fold_left (fun a (_, v) -> a + List.length v) 0 !pm in
    let rhs = 57 + k in
    let start = Array.length arr - cnt * rhs in
    for i = 0 to cnt - 1 do let e = start + (i + 1) * rhs in for j = e - 8 to e - 1 do arr.(j) <- N0 done done;
    Some (Array.to_list arr)
let find_blob id =
  let all = closed_blobs !st @ (match !st.s_active with Some b -> [b] | None -> []) in
  match List.filter (fun b -> int_of_n b.b_id = id) all with b :: _ -> Some b | [] -> None
(* an index file that Index::from_file rejects (any proper prefix, cleared written flag, other key size, other blob
   size, other magic: theorems C03_*_rejected) is as good as removed: the model's ORmIndex *)
let damaged_idx : (int, unit) Hashtbl.t = Hashtbl.create 8     (* index files whose bytes on disk the model no longer follows *)
let reject_index id =
  Hashtbl.replace damaged_idx id ();
  if !st.s_open then tainted_ref := true
  else st := fst (step (n_of_int !st_k) !st_cfg !st (ORmIndex (n_of_int id)))

let storage_handlers = [
  ("cfg", cmd_cfg);
  ("open", (fun _ -> do_op "open" (OOpen !st_lazy)));
  ("W", (function [k; ts; meta; len; seed] ->
      let (m, ms) = meta_of meta in
      do_op "W" (OWrite (key_of k, n_of_string ts, (match m with Some i -> Some (n_of_int i) | None -> None), n_of_int ms, n_of_string len, n_of_string seed))
                  | _ -> failwith "W args"));
  ("D", (function [k; ts; meta; oip] ->
      let (m, ms) = meta_of meta in
      do_op "D" (ODelete (key_of k, n_of_string ts, (match m with Some i -> Some (n_of_int i) | None -> None), n_of_int ms, oip = "1"))
                  | _ -> failwith "D args"));
  ("R", (function [k] -> do_op "R" (ORead (key_of k)) | _ -> failwith "R args"));
  ("RW", (function [k; m] -> (match meta_of m with (Some i, _) -> do_op "RW" (OReadWith (key_of k, n_of_int i)) | _ -> failwith "RW meta") | _ -> failwith "RW args"));
  ("C", (function [k] -> do_op "C" (OContains (key_of k)) | _ -> failwith "C args"));
  ("RA", (function [k] -> do_op "RA" (OReadAll (key_of k)) | _ -> failwith "RA args"));
  ("RD", (function [k] -> do_op "RD" (OReadAllDm (key_of k)) | _ -> failwith "RD args"));
  ("close_active", (fun _ -> do_op "close_active" OCloseActive));
  ("create_active", (fun _ -> do_op "create_active" OCreateActive));
  ("restore_active", (fun _ -> do_op "restore_active" ORestoreActive));
  ("bg_close", (fun _ -> do_op "bg_close" OBgClose));
  ("bg_create", (fun _ -> do_op "bg_create" OBgCreate));
  ("bg_restore", (fun _ -> do_op "bg_restore" OBgRestore));
  ("force_update", (function [p] ->
      let n = (match p with "always" -> 0 | "never" -> 1 | "some" -> 2 | "nonempty" -> 3
                      | "panics" -> 1   (* a predicate that fails: the request is dropped, as for a predicate that says no *) | _ -> failwith "pred") in
      do_op "force_update" (OForceUpdate (n_of_int n)) | _ -> failwith "force_update args"));
  ("free_excess", (fun _ -> do_op "free_excess" OFreeExcess));
  ("quiesce", (fun _ -> do_op "quiesce" OQuiesce));
  ("sleep", (fun _ -> do_op "sleep" OSleep));
  ("counts", (fun _ -> do_op "counts" OCounts));
  ("close", (fun _ -> do_op "close" OClose));
  ("drop", (fun _ -> do_op "drop" ODrop));
  ("rmindex", (function
       | [id] when Hashtbl.mem damaged_idx (int_of_string id) ->
         (* the damaged file is still on disk although the model already treats it as removed *)
         st := fst (step (n_of_int !st_k) !st_cfg !st (ORmIndex (n_of_string id))); emit "*"
       | [id] -> do_op "rmindex" (ORmIndex (n_of_string id))
       | _ -> failwith "rmindex args"));
  ("filehex", (function
       | ["blob"; id] ->
         let id = int_of_string id in
         let all = closed_blobs !st @ (match !st.s_active with Some b -> [b] | None -> []) in
         (match List.filter (fun b -> int_of_n b.b_id = id) all with
          | b :: _ -> emit ("filehex " ^ hex_of_bytes (blob_file_bytes (n_of_int !st_k) b.b_recs))
          | [] -> emit "filehex absent")
       | ["index"; id] when not !tainted_ref && filters_known () && not (Hashtbl.mem damaged_idx (int_of_string id)) ->
         (match find_blob (int_of_string id) with
          | Some b -> (match index_bytes_of_blob b with Some bytes -> emit ("filehex " ^ hex_of_bytes bytes) | None -> emit "filehex absent")
          | None -> emit "filehex absent")
       | _ -> emit "*"));
  ("trace", (function ["on"] -> emit "trace on" | ["off"] -> emit "trace off" | _ -> emit "*"));
  ("tracecheck", (fun _ -> emit "tracecheck ok"));
  ("snapcheck", (fun _ -> emit "snapcheck ok"));
  ("par", (fun _ -> tainted_ref := true; hard_taint := true; emit "*"));
  ("powercut", (fun _ -> tainted_ref := true; hard_taint := true; emit "*"));
  ("GF", (fun _ -> emit "*"));      (* Storage::get_filter: judged by the oracle only (a stored key is never "no") *)
  ("cancel", (fun _ -> tainted_ref := true; hard_taint := true; emit "*"));
  ("fail", (fun _ -> tainted_ref := true; hard_taint := true; emit "fail armed"));  (* the L3 model has no faults: wildcard from here *)
  ("clearfail", (fun _ -> emit "clearfail"));
  ("dirty", (fun _ -> emit "*"));
  ("know", (fun _ -> emit "know"));
  ("nop", (fun _ -> emit "nop"));
  ("cfgnext", (function [kv] -> (match String.split_on_char '=' kv with ["init"; v] -> st_lazy := (v = "lazy") | _ -> ()); emit "cfgnext" | _ -> emit "cfgnext"));
  ("flip", (fun _ -> emit "*"));
  ("patch", (function
       | ["blob"; _; "8"; _] -> blob_version_patched_ref := true; tainted_ref := true; emit "*"
       | ["index"; id; pos; hex] when not !tainted_ref && filters_known () ->
         (* header fields that validation checks: magic (0), written flag + version (72), key size (73), blob size (75) *)
         let pos = int_of_string pos in
         (match find_blob (int_of_string id) with
          | Some b ->
            (match index_bytes_of_blob b with
             | Some bytes ->
               let nb = bytes_of_hex hex in
               let old = List.filteri (fun i _ -> i >= pos && i < pos + List.length nb) bytes in
               if pos + List.length nb > List.length bytes then ()        (* harness: `patch absent`, nothing changes *)
               else if old = nb then ()
               else if pos = 0 || pos = 72 || pos = 73 || pos = 75 then reject_index (int_of_string id)
               else tainted_ref := true
             | None -> ())
          | None -> ());
         emit "*"
       | _ -> tainted_ref := true; emit "*"));
  ("trunc", (function
       | ["blob"; id; n] when not !tainted_ref ->
         (* crash model: the blob file is cut to n bytes. What Blob::from_file makes of it is computed by the byte-level
            scan model (Blob/Scan.v) on the model's own bytes of that file; the OUTCOME enters the storage model as
            OCut (Storage/Model.v): cut at a record boundary / unreadable -> quarantined at the next start. *)
         let id = int_of_string id in
         let all = closed_blobs !st @ (match !st.s_active with Some b -> [b] | None -> []) in
         (match List.filter (fun b -> int_of_n b.b_id = id) all with
          | b :: _ ->
            let bytes = blob_file_bytes (n_of_int !st_k) b.b_recs in
            let len = List.length bytes in
            let n = int_of_string n in
            let n = if n < 0 then max 0 (len + n) else n in
            if n >= len then emit "*"                         (* truncation never extends a file: nothing happens *)
            else begin
              let cut = List.filteri (fun i _ -> i < n) bytes in
              Hashtbl.replace images id cut;
              let r = blob_open_scan cut (n_of_int !st_k) !st_validate in
              spec_pending := (match r with
                  | ROk hs -> Printf.sprintf "sc served %d" (List.length hs)
                  | RFail _ -> (match dispose r with DInitFails -> "sc initfails 0" | _ -> "sc quarantined 0"));
              (if !st.s_open || !st_ignore then tainted_ref := true
               else match r with
                 | ROk hs ->
                   let j = nat_of_int (List.length hs) in
                   if cut_applies (n_of_int !st_k) j b then st := fst (step (n_of_int !st_k) !st_cfg !st (OCut (n_of_int id, Some j)))
                   else tainted_ref := true       (* bytes an index file describes were lost: outside the crash model *)
                 | RFail _ ->
                   (match dispose r with
                    | DInitFails -> tainted_ref := true
                    | _ -> st := fst (step (n_of_int !st_k) !st_cfg !st (OCut (n_of_int id, None)))));
              emit "*"
            end
          | [] -> emit "*")
       | ["blob"; id; n] ->
         (* the storage model was already lost (earlier damage): only the scan prediction for this file *)
         let id = int_of_string id in
         (match Hashtbl.find_opt images id with
          | Some bytes ->
            let n = int_of_string n in
            let n = if n < 0 then max 0 (List.length bytes + n) else n in
            let cut = List.filteri (fun i _ -> i < n) bytes in
            Hashtbl.replace images id cut;
            let r = blob_open_scan cut (n_of_int !st_k) !st_validate in
            spec_pending := (match r with
                | ROk hs -> Printf.sprintf "sc served %d" (List.length hs)
                | RFail _ -> (match dispose r with DInitFails -> "sc initfails 0" | _ -> "sc quarantined 0"))
          | None -> ());
         emit "*"
       | ["index"; id; n] when not !tainted_ref && filters_known () ->
         (match find_blob (int_of_string id) with
          | Some b ->
            (match index_bytes_of_blob b with
             | Some bytes -> if int_of_string n < List.length bytes then reject_index (int_of_string id)
             | None -> ())
          | None -> ());
         emit "*"
       | _ -> tainted_ref := true; emit "*"));
  ("ls", (fun _ -> emit "*"));
  ("disk", (fun _ -> emit "*"));
  ("fsync", (fun _ ->
       (* Storage::fsyncdata: an explicit request always syncs the active blob *)
       (match !st.s_active with
        | Some b when !st.s_open -> pending_evs := !pending_evs @ [EvSync (FBlob, b.b_id)]
        | _ -> ());
       emit "fsync ok"));
  ("offload", (fun _ -> emit "*"));
  ("CF", (function
       | [k] when filters_known () && !st.s_open ->
         emit ("CF " ^ (if cf_answer (n_of_int !st_k) (bloom0 ()) !st (key_of k) then "maybe" else "no"))
       | _ -> emit "*"));
  ("CFS", (function
       | [k] when filters_known () && !st.s_open ->
         emit ("CFS " ^ (if cfs_answer (n_of_int !st_k) (bloom0 ()) !hier_tr !st (key_of k) then "maybe" else "no"))
       | _ -> emit "*"));
]
let () = handlers := storage_handlers @ (List.filter (fun (n, _) -> n <> "cfg") !handlers)



(* ---------- hierarchy of combined filters ---------- *)
(* the direct hierarchy stream runs on the instance lifted to filterless children (Filter/CombinedOpt.v) *)
let hier_st : ohier ref = ref (oh_new (nat_of_int 2))
let hier_pushed = ref 0
let describe_cf k (o : combined option) =
  match o with
  | None -> "none"
  | Some f ->
    let r = hex_of_bytes (range_bytes (n_of_int k) f.cf_range) in
    let b = (match f.cf_bloom with
        | None -> "none"
        | Some b -> (match bloom_to_raw b with None -> "off" | Some raw -> hex_of_bytes raw)) in
    "r=" ^ r ^ " b=" ^ b
let ids_str l = if l = [] then "-" else String.concat "," (List.map (fun c -> string_of_int (int_of_nat c)) l)
let cmd_hier args =
  let k = !st_k in
  let kn = n_of_int k in
  let present c = (match List.nth_opt !hier_st.h_children c with Some (Some _) -> true | _ -> false) in
  match args with
  | ["new"; g] -> hier_st := oh_new (nat_of_int (int_of_string g)); hier_pushed := 0; emit "hier new"
  | ["push"; cfg; hashers; bits; keys] ->
    let bloom = if cfg = "none" then None else Some (bloom_new (n_of_string bits) (n_of_string hashers) (bytes_of_hex cfg)) in
    let ks = if keys = "-" then [] else List.map n_of_hex (String.split_on_char ',' keys) in
    let f = List.fold_left (fun f key -> cf_add bloom_hash (ckey_bytes kn) f key) (cf_new bloom) ks in
    let id = List.length !hier_st.h_children in
    hier_st := oh_step !hier_st (HPush (Some f));
    emit ("hier push " ^ string_of_int id)
  | ["pushnone"] ->
    let id = List.length !hier_st.h_children in
    hier_st := oh_step !hier_st (HPush None);
    emit ("hier push " ^ string_of_int id)
  | ["pop"] ->
    let any = List.exists (fun x -> x <> None) !hier_st.h_children in
    hier_st := oh_step !hier_st HPop; emit ("hier pop " ^ (if any then "some" else "none"))
  | ["remove"; i] ->
    let i = int_of_string i in
    let was = present i in
    hier_st := oh_step !hier_st (HRemove (nat_of_int i)); emit ("hier remove " ^ (if was then "some" else "none"))
  | ["offload"; needed; level] ->
    let n = if needed = "max" then n_of_hex "ffffffffffffffff" else n_of_string needed in
    let (h, freed) = oh_offload !hier_st n (nat_of_int (int_of_string level)) in
    hier_st := h; emit ("hier offload " ^ dec_of_n freed)
  | ["iter"; key] -> emit ("hier iter " ^ ids_str (oh_iter kn !hier_st (n_of_hex key)))
  | ["iterrev"; key] -> emit ("hier iterrev " ^ ids_str (List.rev (oh_iter kn !hier_st (n_of_hex key))))
  | ["fast"; key] -> emit ("hier fast " ^ (if oh_iter kn !hier_st (n_of_hex key) = [] then "No" else "Maybe"))
  | ["check"; key] -> emit ("hier check " ^ (if oh_check kn !hier_st (n_of_hex key) then "Maybe" else "No"))
  | ["root"] -> emit ("hier root " ^ describe_cf k (match !hier_st.h_root_filter with Some (Some f) -> Some f | _ -> None))
  | ["mem"] -> emit ("hier mem " ^ dec_of_n (oh_mem !hier_st))
  | ["len"] ->
    let ch = !hier_st.h_children in
    let last = List.fold_left (fun (i, acc) x -> (i + 1, if x <> None then Some i else acc)) (0, None) ch |> snd in
    emit (Printf.sprintf "hier len %d last %s" (List.length ch) (match last with Some i -> string_of_int i | None -> "none"))
  | _ -> failwith "bad hier command"
let () = handlers := ("hier", cmd_hier) :: !handlers

(* ---------- index probe (H2) ---------- *)
type probe = { mutable pmem : (n * ih list) list; mutable pondisk : bool; mutable pfile : ((n * ih list) list * n) option;
               mutable prange : range; mutable pbloom : bloom option; pbloom_cfg : (string * bloom) option;
               mutable pcount : int; mutable pfilebytes : n list option }
let probes : (string, probe) Hashtbl.t = Hashtbl.create 8
let hv h = Printf.sprintf "(%s,%d,%s,%s,%s)" (dec_of_n h.ih_ts) (if h.ih_del then 1 else 0) (dec_of_n h.ih_msize) (dec_of_n h.ih_dsize) (dec_of_n h.ih_off)
let block_size = n_of_int 4096
let pfile_model k (m, _) meta_len = serialize block_size (n_of_int k) (n_of_int (57 + k)) (n_of_int (83 + meta_len + 16)) m
let rec cut_ih = function [] -> [] | h :: r -> if h.ih_del then [h] else h :: cut_ih r
let probe_bloom_of cfg =
  (* cfg bytes: elements, hashers, maxbits, step, fpr ; bits given by the script after ':' *)
  match String.split_on_char ':' cfg with
  | [c; hashers; bits] -> Some (bloom_new (n_of_string bits) (n_of_string hashers) (bytes_of_hex c))
  | _ -> None
let probe_meta k p =
  let braw = (match p.pbloom with Some b -> bloom_to_raw b | None -> None) in
  filters_bytes (n_of_int k) p.prange braw
let rev_hex s =
  let n = String.length s / 2 in
  String.concat "" (List.init n (fun i -> String.sub s (2 * (n - 1 - i)) 2))
let cmd_idx args =
  let k = !st_k in
  let kf h = h.ih_key in
  (* the model's key is a point of a total order (N); `order=le`: the order of the key type is the little-endian value of
     its bytes, so that is the number the model works with (the byte image of the index file is then not compared) *)
  let n_of_hex s = if !st_key_le then n_of_hex (rev_hex s) else n_of_hex s in
  let be_bytes kk n = if !st_key_le then List.rev (be_bytes kk n) else be_bytes kk n in
  match args with
  | ["new"; id; bloom] ->
    Hashtbl.replace probes id { pmem = []; pondisk = false; pfile = None; prange = range_empty;
                                pbloom = (if bloom = "none" then None else probe_bloom_of bloom); pbloom_cfg = None;
                                pcount = 0; pfilebytes = None };
    emit "idx new"
  | ["push"; id; key; ts; del; msize; dsize; off] ->
    let p = Hashtbl.find probes id in
    if p.pondisk then emit "idx push Err Index" else begin
      let h = { ih_key = n_of_hex key; ih_ts = n_of_string ts; ih_del = (del = "1"); ih_msize = n_of_string msize;
                ih_dsize = n_of_string dsize; ih_off = n_of_string off } in
      p.pmem <- pm_push p.pmem h; p.prange <- range_add p.prange h.ih_key; p.pcount <- p.pcount + 1;
      (match p.pbloom with Some b -> p.pbloom <- Some (bloom_add bloom_hash b (be_bytes (nat_of_int k) h.ih_key)) | None -> ());
      emit "idx push ok" end
  | ["dump"; id; bsize] ->
    let p = Hashtbl.find probes id in
    if p.pondisk || p.pmem = [] then emit "idx dump 0" else begin
      let meta = probe_meta k p in
      let bytes = index_file_bytes (n_of_int k) (List.init 32 (fun _ -> N0)) true meta p.pmem (n_of_string bsize) in
      p.pfile <- Some (p.pmem, n_of_string bsize); p.pfilebytes <- Some bytes; p.pondisk <- true; p.pmem <- [];
      emit ("idx dump " ^ string_of_int (List.length bytes)) end
  | ["latest"; id; key] ->
    let p = Hashtbl.find probes id in
    let r = if p.pondisk then
        (match p.pfile with Some f -> get_latest_file kf block_size (n_of_int k) (n_of_int (57 + k)) (pfile_model k f (List.length (probe_meta k p))) (n_of_hex key) | None -> None)
      else (match pm_get p.pmem (n_of_hex key) with Some v -> (match List.rev v with h :: _ -> Some h | [] -> None) | None -> None) in
    emit (match r with
        | Some h when h.ih_del -> "idx latest Deleted " ^ dec_of_n h.ih_ts
        | Some h -> "idx latest Found " ^ hv h
        | None -> "idx latest NotFound")
  | ["all"; id; key] ->
    let p = Hashtbl.find probes id in
    let r = if p.pondisk then
        (match p.pfile with Some f -> get_all_file kf block_size (n_of_int k) (n_of_int (57 + k)) (pfile_model k f (List.length (probe_meta k p))) (n_of_hex key) | None -> None)
      else (match pm_get p.pmem (n_of_hex key) with Some v -> Some (List.rev v) | None -> None) in
    emit ("idx all [" ^ String.concat " " (List.map hv (cut_ih (match r with Some l -> l | None -> []))) ^ "]")
  | ["count"; id] ->
    let p = Hashtbl.find probes id in
    let c = if p.pondisk then (match p.pfile with Some (m, _) -> int_of_n (count m) | None -> 0) else p.pcount in
    emit (Printf.sprintf "idx count %d ondisk=%d" c (if p.pondisk then 1 else 0))
  | ["load"; id; bsize] ->
    let p = Hashtbl.find probes id in
    if not p.pondisk then emit "idx load ok" else
      (match p.pfile with
       | Some ((m, bs) as f) ->
         if int_of_n bs <> int_of_string bsize then emit "idx load Err Validation:IndexBlobSize"
         else begin
           let fm = pfile_model k f (List.length (probe_meta k p)) in
           p.pmem <- load_file kf fm; p.pcount <- int_of_n (count m); p.pondisk <- false; emit "idx load ok" end
       | None -> emit "idx load Err ?")
  | ["filehex"; id] ->
    let p = Hashtbl.find probes id in
    if !st_key_le then emit "*" else
    (match p.pfilebytes with Some b -> emit ("idx filehex " ^ hex_of_bytes b) | None -> emit "idx filehex absent")
  | ["clear"; id] ->
    let p = Hashtbl.find probes id in
    p.pmem <- []; p.pondisk <- false; p.pcount <- 0; p.prange <- range_empty;
    (match p.pbloom with Some b -> p.pbloom <- Some (bloom_clear b) | None -> ());
    emit "idx clear"
  | ["drop"; _] -> emit "idx drop"
  | ["cut"; id; n] ->
    let p = Hashtbl.find probes id in
    (match p.pfilebytes with
     | Some b ->
       let n = if n = "last" then List.length b - 1 else int_of_string n in
       if n < List.length b then begin p.pfilebytes <- Some (List.filteri (fun i _ -> i < n) b); emit "idx cut ok" end
       else emit "idx cut noop"
     | None -> emit "idx cut absent")
  | ["poke"; id; pos; hex] ->
    let p = Hashtbl.find probes id in
    let pos = int_of_string pos in
    let bs = bytes_of_hex hex in
    (match p.pfilebytes with
     | Some b when pos + List.length bs <= List.length b ->
       p.pfilebytes <- Some (List.mapi (fun i x -> if i >= pos && i < pos + List.length bs then List.nth bs (i - pos) else x) b);
       emit "idx poke ok"
     | _ -> emit "idx poke absent")
  | ["open"; id; _bloom; bsize] ->
    (* BPTreeFileIndex::from_file + validate on the (possibly damaged) file bytes: Index/Open.v index_open *)
    let p = Hashtbl.find probes id in
    (match p.pfilebytes with
     | None -> emit "*"
     | Some b ->
       (match index_open b (n_of_int k) (n_of_string bsize) with
        | Inl _ -> emit "idx open ok"
        | Inr e -> emit (match e with
            | IEof | ICut -> "idx open Err Bincode"
            | INotWritten -> "idx open Err Validation:IndexNotWritten"
            | IVersion -> "idx open Err Validation:IndexVersion"
            | IKeySize -> "idx open Err Validation:IndexKeySize"
            | IBlobSize -> "idx open Err Validation:IndexBlobSize"
            | IMagic -> "idx open Err Validation:IndexMagicByte"
            | IPanicOrEof -> "idx open Err Io:UnexpectedEof")))
  | _ -> emit "*"
let () = handlers := ("idx", cmd_idx) :: !handlers


(* ---------- traces ---------- *)
let fid_str (k, i) = Printf.sprintf "t.%s.%s" (dec_of_n i) (match k with FBlob -> "blob" | FIndex -> "index")
let ev_str = function
  | EvCreate f -> "create:" ^ fid_str f
  | EvOpen f -> "open:" ^ fid_str f
  | EvAppend (f, off, len) -> Printf.sprintf "append@%s+%s:%s" (dec_of_n off) (dec_of_n len) (fid_str f)
  | EvWriteAt (f, off, len) -> Printf.sprintf "writeat@%s+%s:%s" (dec_of_n off) (dec_of_n len) (fid_str f)
  | EvSync f -> "sync:" ^ fid_str f
let parse_fid p =
  (* t.<id>.blob | t.<id>.index *)
  match String.split_on_char '.' p with
  | [_; id; "blob"] -> Some (FBlob, n_of_string id)
  | [_; id; "index"] -> Some (FIndex, n_of_string id)
  | _ -> None
let parse_ev tok =
  if String.length tok > 0 && tok.[String.length tok - 1] = '!' then None else
  match String.index_opt tok ':' with
  | None -> None
  | Some c ->
    let k = String.sub tok 0 c and p = String.sub tok (c + 1) (String.length tok - c - 1) in
    (match parse_fid p with
     | None -> None
     | Some f ->
       let offlen s = (match String.split_on_char '+' s with [a; b] -> (n_of_string a, n_of_string b) | _ -> failwith "offlen") in
       if k = "create" then Some (EvCreate f) else if k = "open" then Some (EvOpen f) else if k = "sync" then Some (EvSync f)
       else if String.length k > 7 && String.sub k 0 7 = "append@" then let (o, l) = offlen (String.sub k 7 (String.length k - 7)) in Some (EvAppend (f, o, l))
       else if String.length k > 8 && String.sub k 0 8 = "writeat@" then let (o, l) = offlen (String.sub k 8 (String.length k - 8)) in Some (EvWriteAt (f, o, l))
       else None)
let cmd_trace = function
  | ["on"] -> pending_evs := []; emit "trace on"
  | ["off"] -> emit "trace off"
  | _ -> spec_pending := "tr " ^ String.concat " " (List.map ev_str !pending_evs); pending_evs := []; emit "*"
let cmd_judge toks =
  let evs = List.filter_map parse_ev toks in
  let h = judge_from ev_harmless [] evs and a = judge_from ev_header_synced [] evs and b = judge_from ev_index_after_sync [] evs in
  emit (Printf.sprintf "judge harmless=%b header_synced=%b index_after_sync=%b" h a b)
let () = handlers := ("judge", cmd_judge) :: ("trace", cmd_trace) :: (List.filter (fun (n, _) -> n <> "trace") !handlers)


(* ---------- byte images of blob files for damage + offline tools (Blob/Scan.v Section Tools) ---------- *)
let image_of id =
  match Hashtbl.find_opt images id with
  | Some b -> Some b
  | None ->
    let all = closed_blobs !st @ (match !st.s_active with Some b -> [b] | None -> []) in
    (match List.filter (fun b -> int_of_n b.b_id = id) all with
     | b :: _ -> let bytes = blob_file_bytes (n_of_int !st_k) b.b_recs in Hashtbl.replace images id bytes; Some bytes
     | [] -> None)
(* the tools' reader accepts a metadata image iff Format/Meta.v meta_ok does (decodes, takes exactly its bytes) *)
let meta_ok (m : n list) = meta_ok m
let blob_version_patched = blob_version_patched_ref
let cmd_flip = function
  | ["blob"; id; pos; mask] ->
    let id = int_of_string id and pos = int_of_string pos and mask = int_of_string ("0x" ^ mask) in
    (match image_of id with
     | Some b when pos < List.length b ->
       Hashtbl.replace images id (List.mapi (fun i x -> if i = pos then n_of_int ((int_of_n x) lxor mask) else x) b); emit "flip ok"
     | _ -> emit "flip absent")
  | _ -> emit "*"
let cmd_tool = function
  | ["validate_blob"; id] ->
    (match image_of (int_of_string id) with
     | Some b -> emit ("tool validate_blob " ^ (if tool_validate_blob meta_ok b then "ok" else "Err"))
     | None -> emit "tool validate_blob Err")
  | ["recover"; id; _every; skip] ->
    (match image_of (int_of_string id) with
     | Some b ->
       (match tool_recover meta_ok b (skip = "1") with
        | Some o -> Hashtbl.replace outs (int_of_string id) o; emit (Printf.sprintf "tool recover ok %d" (List.length o))
        | None -> emit "tool recover Err")
     | None -> emit "tool recover Err")
  | ["validate_out"; _] when !blob_version_patched -> emit "*"
  | ["validate_out"; id] ->
    (match Hashtbl.find_opt outs (int_of_string id) with
     | Some b -> emit ("tool validate_out " ^ (if tool_validate_blob meta_ok b then "ok" else "Err"))
     | None -> emit "tool validate_out Err")
  | ["outhex"; id] ->
    (match Hashtbl.find_opt outs (int_of_string id) with Some b -> emit ("tool outhex " ^ hex_of_bytes b) | None -> emit "tool outhex absent")
  | ["migrate"; _; _] when !blob_version_patched -> emit "*"    (* a blob of another format version: migration proper is not modelled *)
  | ["migrate"; id; _target] ->
    (* current-version blob: migration is the re-serialising copy without skipping *)
    (match image_of (int_of_string id) with
     | Some b -> (match tool_recover meta_ok b false with
         | Some o -> Hashtbl.replace outs (int_of_string id) o; emit "tool migrate ok"
         | None -> emit "tool migrate Err")
     | None -> emit "tool migrate Err")
  | ["recover_quarantined"; _; _; _] -> tainted_ref := true; emit "*"   (* the file in the quarantine directory is outside the model *)
  | ["install"; _] -> tainted_ref := true; emit "*"    (* a blob file is replaced by a tool's output: outside the storage model *)
  | _ -> emit "*"
let () = handlers := ("tool", cmd_tool) :: ("flip", cmd_flip) :: (List.filter (fun (n, _) -> n <> "flip") !handlers)

(* after the script damages a file byte-wise the L3 model no longer predicts outcomes: wildcard *)
let tainted = tainted_ref
let run_script path outpath =
  let ic = open_in path in
  (try
     while true do
       let line = String.trim (input_line ic) in
       if line <> "" && line.[0] <> '#' then begin
         let toks = List.filter (fun s -> s <> "") (String.split_on_char ' ' line) in
         match toks with
         | [] -> ()
         | "model:" :: (c :: args) ->
           (* replay of the history that produced a corpus directory: executed by the model only *)
           (match List.assoc_opt c !handlers with
            | Some h -> let n0 = Buffer.length out and s0 = Buffer.length spec_out in
              (try h args with _ -> ());
              Buffer.truncate out n0; Buffer.truncate spec_out s0; emit "model"
            | None -> emit "model")
         | c :: args when !hard_taint && c <> "cfg" -> emit "*"
         | c :: args when !tainted && c <> "cfg" && c <> "tool" && c <> "flip" && c <> "trunc" -> emit "*"
         | c :: args ->
           if c = "flip" then tainted := true;
           (match List.assoc_opt c !handlers with
            | Some h -> (try h args with
                | Not_found -> emit ("MODEL-ERROR not_found: " ^ line)
                | Failure m -> emit ("MODEL-ERROR " ^ m ^ ": " ^ line))
            | None -> emit ("MODEL-ERROR unknown command: " ^ line))
       end
     done
   with End_of_file -> ());
  close_in ic;
  let oc = open_out outpath in
  Buffer.output_buffer oc out; close_out oc; Buffer.clear out;
  let oc = open_out (outpath ^ ".spec") in
  Buffer.output_buffer oc spec_out; close_out oc; Buffer.clear spec_out

let main () =
  (* usage: driver script out [script out ...] *)
  let n = Array.length Sys.argv in
  let i = ref 1 in
  while !i + 1 < n do
    tainted := false; hard_taint := false; auto_q := true; Hashtbl.reset damaged_idx; st_ignore := false; st_group := 2; st_bloom_cfg := None; st_bloom_bits := None; hier_tr := ch_new (nat_of_int 2); hier_valid := true; Hashtbl.reset images; Hashtbl.reset outs; pending_evs := []; Hashtbl.reset probes; Hashtbl.reset blooms; Hashtbl.reset raws; st := init_storage; st_k := 4; st_key_le := false; blob_version_patched_ref := false; st_lazy := false; st_validate := false;
    st_cfg := { c_dup = true; c_maxrec = n_of_int 1000000; c_maxsize = n_of_int 1000000000 };
    run_script Sys.argv.(!i) Sys.argv.(!i + 1);
    i := !i + 2
  done
let () = main ()
