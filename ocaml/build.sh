#!/bin/sh
# Build the extracted model + driver. Run from /verif/ocaml.
set -e
cd "$(dirname "$0")"
coqc -Q ../coq/theories Pearl ../coq/theories/Extract/Extract.v
ocamlfind ocamlopt -O2 -w -a -package str model.mli model.ml driver.ml -o driver 2>/dev/null || \
ocamlfind ocamlopt -w -a model.mli model.ml driver.ml -o driver
