//! Script interpreter: storage-level commands + dispatch to the object-level command families.
use crate::util::*;
use crate::Ctx;
use bytes::Bytes;
use futures::FutureExt;
use pearl::{ArrayKey, BlobRecordTimestamp, BloomConfig, BloomProvider, Builder, ReadResult, Storage};
use std::collections::HashMap;
use std::panic::AssertUnwindSafe;
use std::path::{Path, PathBuf};
use std::time::Duration;

#[derive(Clone, Debug)]
pub struct Cfg {
    pub dup: bool,
    pub bloom: Option<BloomConfig>,
    pub group: usize,
    pub maxrec: u64,
    pub maxsize: u64,
    pub validate: bool,
    pub ignore: bool,
    pub dirty: Option<u64>,
    pub defer: Option<(u64, u64)>,
    pub runtime_ct: bool,
    pub lazy: bool,
    pub usedir: Option<String>,
    pub savedir: Option<String>,
    /// `order=le`: the index probe uses a key type ordered as a little-endian number (its order is NOT the byte order)
    pub key_le: bool,
    /// `prefix=`: blob file name prefix (default `t`; the file commands of the harness assume the default)
    pub prefix: String,
    /// `corrdir=`: name of the directory for quarantined blobs (default `corrupted`; listings print it as `corrupted`)
    pub corrdir: String,
}

impl Default for Cfg {
    fn default() -> Self {
        Cfg {
            dup: true,
            bloom: None,
            group: 8,
            maxrec: 1_000_000,
            maxsize: 1_000_000_000,
            validate: false,
            ignore: false,
            dirty: None,
            defer: None,
            runtime_ct: false,
            lazy: false,
            usedir: None,
            savedir: None,
            key_le: false,
            prefix: "t".to_string(),
            corrdir: "corrupted".to_string(),
        }
    }
}

pub fn parse_cfg(script: &str) -> Cfg {
    let mut c = Cfg::default();
    for line in script.lines() {
        let line = line.trim();
        if let Some(rest) = line.strip_prefix("cfg ") {
            for tok in rest.split_whitespace() {
                let (k, v) = tok.split_once('=').expect("cfg k=v");
                match k {
                    "K" => {}
                    "dup" => c.dup = v == "1",
                    "bloom" => {
                        c.bloom = if v == "none" {
                            None
                        } else {
                            Some(crate::bloom_cmds::config_from_bytes(&hex_decode(v)))
                        }
                    }
                    "group" => c.group = v.parse().unwrap(),
                    "maxrec" => c.maxrec = v.parse().unwrap(),
                    "maxsize" => c.maxsize = v.parse().unwrap(),
                    "validate" => c.validate = v == "1",
                    "ignore" => c.ignore = v == "1",
                    "dirty" => c.dirty = Some(v.parse().unwrap()),
                    "defer" => {
                        let (a, b) = v.split_once(':').unwrap();
                        c.defer = Some((a.parse().unwrap(), if b == "max" { u64::MAX } else { b.parse().unwrap() }));
                    }
                    "runtime" => c.runtime_ct = v == "ct",
                    "init" => c.lazy = v == "lazy",
                    "nomodel" | "bloombits" => {}
                    "order" => c.key_le = v == "le",
                    "prefix" => c.prefix = v.to_string(),
                    "corrdir" => c.corrdir = v.to_string(),
                    "usedir" => c.usedir = Some(v.to_string()),
                    "savedir" => c.savedir = Some(v.to_string()),
                    _ => panic!("unknown cfg key {}", k),
                }
            }
        }
    }
    c
}

pub struct St<const N: usize> {
    pub cfg: Cfg,
    pub dir: PathBuf,
    pub storage: Option<Storage<ArrayKey<N>>>,
    pub written: HashMap<(usize, u32), u64>,
    pub auto_quiesce: bool,
    pub snaps: HashMap<String, Vec<u8>>,
    pub eof: HashMap<String, Option<u64>>,
    /// blob files whose tracked end is only a lower bound (re-opened, or after a failed append)
    pub eof_loose: std::collections::HashSet<String>,
    /// names of blob files ever seen in the corrupted-blobs directory
    pub seen_corrupted: std::collections::HashSet<String>,
    /// blob files re-opened by IoDriver::open (O_APPEND: the kernel ignores the offset of a positional write)
    pub oappend: std::collections::HashSet<String>,
    /// per blob file: the largest physical length seen at the entry of a successful sync (from the tap)
    pub synced: HashMap<String, u64>,
}

fn key_of<const N: usize>(hex: &str) -> ArrayKey<N> {
    let v = hex_decode(hex);
    assert!(v.len() == N, "key length {} != {}", v.len(), N);
    ArrayKey::<N>::from(v)
}

impl<const N: usize> St<N> {
    fn builder(&self) -> Builder {
        let mut b = Builder::new()
            .work_dir(&self.dir)
            .blob_file_name_prefix(self.cfg.prefix.clone())
            .max_blob_size(self.cfg.maxsize)
            .max_data_in_blob(self.cfg.maxrec)
            .set_bloom_filter_group_size(self.cfg.group)
            .set_validate_data_during_index_regen(self.cfg.validate);
        if self.cfg.dup {
            b = b.allow_duplicates();
        }
        if self.cfg.ignore {
            b = b.ignore_corrupted();
        }
        if self.cfg.corrdir != "corrupted" {
            b = b.corrupted_dir_name(self.cfg.corrdir.clone());
        }
        if let Some(bc) = &self.cfg.bloom {
            b = b.set_filter_config(bc.clone());
        }
        if let Some(d) = self.cfg.dirty {
            b = b.set_max_dirty_bytes_before_sync(d);
        }
        if let Some((a, c)) = self.cfg.defer {
            // `defer=<min>:max`: no upper bound (Duration::MAX)
            b = b.set_deferred_index_dump_times(Duration::from_millis(a), if c == u64::MAX { Duration::MAX } else { Duration::from_millis(c) });
        }
        b
    }

    async fn open(&mut self) -> Result<(), anyhow::Error> {
        let mut s: Storage<ArrayKey<N>> = self.builder().build()?;
        if self.cfg.lazy {
            s.init_lazy().await?;
        } else {
            s.init().await?;
        }
        self.storage = Some(s);
        Ok(())
    }

    fn data_name(&self, data: &[u8]) -> String {
        if data.is_empty() {
            return "0 0".to_string();
        }
        match self.written.get(&(data.len(), crc32c(data))) {
            Some(seed) if gen_data(*seed, data.len()) == data => format!("{} {}", data.len(), seed),
            _ => format!("{} ?{:08x}", data.len(), crc32c(data)),
        }
    }

    fn file_path(&self, kind: &str, id: &str) -> PathBuf {
        self.dir.join(format!("{}.{}.{}", self.cfg.prefix, id, kind))
    }

    /// take the tap's events, remembering what successful syncs covered
    #[cfg(pearl_verif)]
    fn take_events(&mut self) -> Vec<pearl::verif_io::Event> {
        let evs = pearl::verif_io::take_events();
        for e in &evs {
            if e.kind == pearl::verif_io::Kind::Sync && e.ok {
                let c = self.synced.entry(e.path.clone()).or_insert(0);
                if e.len > *c { *c = e.len; }
            }
        }
        evs
    }

    /// the script itself damaged a file (the environment, not pearl): the C07 bookkeeping restarts from the damaged content
    fn damaged(&mut self, p: &std::path::Path) {
        let name = p.file_name().map(|x| x.to_string_lossy().to_string()).unwrap_or_default();
        if name.ends_with(".blob") {
            if let Ok(b) = std::fs::read(p) {
                if self.snaps.contains_key(&name) {
                    self.snaps.insert(name.clone(), b);
                }
            }
            if self.eof.contains_key(&name) {
                self.eof.insert(name, None);
            }
        }
    }
}

fn ts_of(t: BlobRecordTimestamp) -> u64 {
    t.into()
}

async fn entries_str<const N: usize>(st: &St<N>, entries: Vec<pearl::Entry>, again: Option<Vec<pearl::Entry>>) -> String {
    // `again`: the same query asked a second time; its entries go through the other two public ways to an entry's content
    // (`load_data`, `load_meta`: code paths of their own), which must agree with `load` on the first list. The first
    // list is left untouched before `load` (a preloaded meta would change what `load` does).
    let mut side: Vec<(Option<Vec<u8>>, Option<String>)> = Vec::new();
    if let Some(es2) = again {
        for mut e in es2 {
            let ld = e.load_data().await.ok().map(|b| b.to_vec());
            let lm = e.load_meta().await.ok().map(|m| m.map(|x| meta_name(x).to_string()).unwrap_or_else(|| "m0".to_string()));
            side.push((ld, lm));
        }
    }
    let n = entries.len();
    let mut parts = Vec::new();
    for (i, e) in entries.into_iter().enumerate() {
        let ts = ts_of(e.timestamp());
        let del = e.is_deleted();
        let sd = if side.len() == n { Some(&side[i]) } else { None };
        match e.load().await {
            Ok(rec) => {
                let m = meta_name(rec.meta());
                let d = rec.into_data();
                let mut extra = String::new();
                if let Some((ld, lm)) = sd {
                    match ld { Some(x) if x[..] == d[..] => {} Some(_) => extra.push_str(",LOAD_DATA_DIFFERS"), None => extra.push_str(",LOAD_DATA_FAILS") }
                    match lm { Some(x) if x.as_str() == m || (x.as_str() == "m0" && m == "-") => {} Some(x) => extra.push_str(&format!(",LOAD_META_DIFFERS:{}", x)), None => extra.push_str(",LOAD_META_FAILS") }
                }
                parts.push(format!("({},{},{},{}{})", ts, if del { 1 } else { 0 }, m, st.data_name(&d).replace(' ', ":"), extra));
            }
            Err(err) => {
                let cls = err_class(&err);
                // a record whose data fails its checksum in `load` must not be handed out by `load_data`
                let extra = if cls.contains("DataChecksum") && sd.map_or(false, |x| x.0.is_some()) { ",LOAD_DATA_ACCEPTS_ALTERED_BYTES" } else { "" };
                parts.push(format!("({},{},Err:{}{})", ts, if del { 1 } else { 0 }, cls, extra))
            }
        }
    }
    format!("[{}]", parts.join(" "))
}

fn copy_dir(src: &Path, dst: &Path) {
    if let Ok(rd) = std::fs::read_dir(src) {
        for e in rd.flatten() {
            let p = e.path();
            let t = dst.join(e.file_name());
            if p.is_dir() {
                let _ = std::fs::create_dir_all(&t);
                copy_dir(&p, &t);
            } else {
                let _ = std::fs::copy(&p, &t);
            }
        }
    }
}

fn list_dir(dir: &Path) -> String {
    list_dir_as(dir, "corrupted")
}

/// the configured quarantine directory is printed as `corrupted/` whatever its name is
fn list_dir_as(dir: &Path, corrdir: &str) -> String {
    let mut items = Vec::new();
    fn walk(base: &Path, dir: &Path, items: &mut Vec<String>) {
        if let Ok(rd) = std::fs::read_dir(dir) {
            for e in rd.flatten() {
                let p = e.path();
                if p.is_dir() {
                    walk(base, &p, items);
                } else if let Ok(md) = p.metadata() {
                    let rel = p.strip_prefix(base).unwrap().to_string_lossy().to_string();
                    if rel.ends_with(".lock") {
                        continue;
                    }
                    items.push(format!("{}:{}", rel, md.len()));
                }
            }
        }
    }
    walk(dir, dir, &mut items);
    if corrdir != "corrupted" {
        let pre = format!("{}/", corrdir);
        for it in items.iter_mut() {
            if let Some(rest) = it.strip_prefix(&pre) { *it = format!("corrupted/{}", rest); }
        }
    }
    items.sort();
    items.join(" ")
}

macro_rules! need_storage {
    ($st:expr, $ctx:expr, $name:expr) => {
        match $st.storage.as_ref() {
            Some(s) => s,
            None => {
                $ctx.emit(format!("{} NoStorage", $name));
                return;
            }
        }
    };
}

async fn quiesce<const N: usize>(st: &St<N>) -> bool {
    #[cfg(pearl_verif)]
    {
        if let Some(s) = st.storage.as_ref() {
            return s.verif_quiesce().await;
        }
        true
    }
    #[cfg(not(pearl_verif))]
    {
        let _ = st;
        tokio::time::sleep(Duration::from_millis(30)).await;
        true
    }
}

async fn exec<const N: usize>(st: &mut St<N>, ctx: &mut Ctx, toks: &[&str]) {
    let c = toks[0];
    let a = &toks[1..];
    match (c, a) {
        ("cfg", _) => ctx.emit("cfg"),
        ("model:", _) => ctx.emit("model"),
        ("open", []) => match st.open().await {
            Ok(()) => ctx.emit("open ok"),
            Err(e) => ctx.emit(format!("open Err {}", err_class(&e))),
        },
        ("cfgnext", [kv]) => {
            if let Some(v) = kv.strip_prefix("init=") {
                st.cfg.lazy = v == "lazy";
            }
            ctx.emit("cfgnext");
        }
        ("nop", _) => ctx.emit("nop"),
        ("know", [len, seed]) => {
            // register a payload written by an earlier process so that reads can name it
            let len: usize = len.parse().unwrap();
            let seed: u64 = seed.parse().unwrap();
            let data = gen_data(seed, len);
            st.written.insert((len, crc32c(&data)), seed);
            ctx.emit("know");
        }
        ("W", [key, ts, meta, len, seed]) => {
            let s = need_storage!(st, ctx, "W");
            let len: usize = len.parse().unwrap();
            let seed: u64 = seed.parse().unwrap();
            let data = gen_data(seed, len);
            let crc = crc32c(&data);
            let k = key_of::<N>(key);
            let t = BlobRecordTimestamp::new(ts.parse().unwrap());
            let r = match meta_of(meta) {
                None => s.write(k, Bytes::from(data), t).await,
                Some(m) => s.write_with(k, Bytes::from(data), t, m).await,
            };
            st.written.insert((len, crc), seed);
            match r {
                Ok(()) => ctx.emit("W ok"),
                Err(e) => ctx.emit(format!("W Err {}", err_class(&e))),
            }
        }
        ("D", [key, ts, meta, oip]) => {
            let s = need_storage!(st, ctx, "D");
            let k = key_of::<N>(key);
            let t = BlobRecordTimestamp::new(ts.parse().unwrap());
            let oip = *oip == "1";
            let r = match meta_of(meta) {
                None => s.delete(k, t, oip).await,
                Some(m) => s.delete_with(k, t, m, oip).await,
            };
            match r {
                Ok(n) => ctx.emit(format!("D {}", n)),
                Err(e) => ctx.emit(format!("D Err {}", err_class(&e))),
            }
        }
        ("R", [key]) | ("RW", [key, _]) => {
            let s = need_storage!(st, ctx, c);
            let k = key_of::<N>(key);
            let r = if c == "R" {
                s.read(k).await
            } else {
                s.read_with(k, &meta_of(a[1]).expect("meta")).await
            };
            match r {
                Ok(ReadResult::Found(d)) => ctx.emit(format!("{} Found {}", c, st.data_name(&d))),
                Ok(ReadResult::Deleted(t)) => ctx.emit(format!("{} Deleted {}", c, ts_of(t))),
                Ok(ReadResult::NotFound) => ctx.emit(format!("{} NotFound", c)),
                Err(e) => ctx.emit(format!("{} Err {}", c, err_class(&e))),
            }
        }
        ("C", [key]) => {
            let s = need_storage!(st, ctx, "C");
            match s.contains(key_of::<N>(key)).await {
                Ok(ReadResult::Found(t)) => ctx.emit(format!("C Found {}", ts_of(t))),
                Ok(ReadResult::Deleted(t)) => ctx.emit(format!("C Deleted {}", ts_of(t))),
                Ok(ReadResult::NotFound) => ctx.emit("C NotFound"),
                Err(e) => ctx.emit(format!("C Err {}", err_class(&e))),
            }
        }
        ("RA", [key]) | ("RD", [key]) => {
            let s = need_storage!(st, ctx, c);
            let k = key_of::<N>(key);
            let r = if c == "RA" {
                s.read_all(k).await
            } else {
                s.read_all_with_deletion_marker(k).await
            };
            match r {
                Ok(es) => {
                    let k2 = key_of::<N>(key);
                    let again = if c == "RA" { s.read_all(k2).await.ok() } else { s.read_all_with_deletion_marker(k2).await.ok() };
                    let s = entries_str(st, es, again).await;
                    ctx.emit(format!("{} {}", c, s))
                }
                Err(e) => ctx.emit(format!("{} Err {}", c, err_class(&e))),
            }
        }
        ("CF", [key]) => {
            let s = need_storage!(st, ctx, "CF");
            let r = s.check_filters(key_of::<N>(key)).await;
            ctx.emit(format!("CF {}", match r { Some(true) => "maybe", Some(false) => "no", None => "none" }));
        }
        ("GF", [key]) => {
            // <Storage as BloomProvider>::get_filter(): one filter for the whole storage (closed blobs and the active
            // one), None when nothing can be said; probed with the key
            let s = need_storage!(st, ctx, "GF");
            use pearl::filter::FilterTrait;
            let r = match pearl::BloomProvider::get_filter(s).await {
                None => "none",
                Some(f) => match f.contains_fast(&key_of::<N>(key)) { pearl::FilterResult::NeedAdditionalCheck => "maybe", pearl::FilterResult::NotContains => "no" },
            };
            ctx.emit(format!("GF {}", r));
        }
        ("CFS", [key]) => {
            let s = need_storage!(st, ctx, "CFS");
            let r = s.check_filter(&key_of::<N>(key)).await;
            ctx.emit(format!("CFS {}", match r { pearl::FilterResult::NeedAdditionalCheck => "maybe", pearl::FilterResult::NotContains => "no" }));
        }
        ("close_active", []) | ("create_active", []) | ("restore_active", []) => {
            let s = need_storage!(st, ctx, c);
            let r = match c {
                "close_active" => s.try_close_active_blob().await,
                "create_active" => s.try_create_active_blob().await,
                _ => s.try_restore_active_blob().await,
            };
            match r {
                Ok(()) => ctx.emit(format!("{} ok", c)),
                Err(e) => ctx.emit(format!("{} Err {}", c, err_class(&e))),
            }
        }
        ("bg_close", []) | ("bg_create", []) | ("bg_restore", []) => {
            let s = need_storage!(st, ctx, c);
            match c {
                "bg_close" => s.close_active_blob_in_background().await,
                "bg_create" => s.create_active_blob_in_background().await,
                _ => s.restore_active_blob_in_background().await,
            };
            ctx.emit(format!("{} sent", c));
        }
        ("force_update", [pred]) => {
            let s = need_storage!(st, ctx, c);
            match *pred {
                "always" => s.force_update_active_blob(|_| true).await,
                "never" => s.force_update_active_blob(|_| false).await,
                "some" => s.force_update_active_blob(|x| x.is_some()).await,
                "nonempty" => s.force_update_active_blob(|x| x.map_or(false, |x| x.records_count > 0)).await,
                // code of the caller that fails: it runs inside the worker task
                "panics" => s.force_update_active_blob(|_| panic!("predicate of the caller")).await,
                _ => panic!("pred"),
            };
            ctx.emit("force_update sent");
        }
        ("free_excess", []) => {
            let s = need_storage!(st, ctx, c);
            let _ = s.free_excess_resources().await;
            ctx.emit("free_excess sent");
        }
        ("offload", [need, lvl]) => {
            let need: usize = need.parse().unwrap();
            let lvl: usize = lvl.parse().unwrap();
            match st.storage.as_mut() {
                Some(s) => {
                    let freed = s.offload_buffer(need, lvl).await;
                    ctx.emit(format!("offload {}", freed));
                }
                None => ctx.emit("offload NoStorage"),
            }
        }
        ("fsync", []) => {
            let s = need_storage!(st, ctx, c);
            match s.fsyncdata().await {
                Ok(()) => ctx.emit("fsync ok"),
                Err(e) => ctx.emit(format!("fsync Err Io:{:?}", e.kind())),
            }
        }
        ("quiesce", []) => {
            let alive = quiesce(st).await;
            ctx.emit(format!("quiesce {}", if alive { "alive" } else { "dead" }));
        }
        ("autoquiesce", [v]) => {
            st.auto_quiesce = *v == "1";
            ctx.emit("autoquiesce");
        }
        ("sleep", [ms]) => {
            tokio::time::sleep(Duration::from_millis(ms.parse().unwrap())).await;
            ctx.emit("sleep");
        }
        ("counts", []) => {
            let s = need_storage!(st, ctx, c);
            let rc = s.records_count().await;
            let det = s.records_count_detailed().await;
            let act = s.records_count_in_active_blob().await;
            let blobs = s.blobs_count().await;
            let next = s.next_blob_id();
            let corr = s.corrupted_blobs_count();
            let has = s.has_active_blob().await;
            ctx.emit(format!(
                "counts records={} detailed=[{}] active={} blobs={} next={} corrupted={} has_active={}",
                rc,
                det.iter().map(|(i, n)| format!("{}:{}", i, n)).collect::<Vec<_>>().join(","),
                act.map(|n| n.to_string()).unwrap_or_else(|| "none".into()),
                blobs,
                next,
                corr,
                if has { 1 } else { 0 }
            ));
        }
        ("disk", []) => {
            let s = need_storage!(st, ctx, c);
            ctx.emit(format!("disk {}", s.disk_used().await));
        }
        ("ls", []) => {
            ctx.emit(format!("ls {}", list_dir_as(&st.dir, &st.cfg.corrdir)));
        }
        ("close", []) => match st.storage.take() {
            // close has to return: it is given 20 s (the longest failpoint delay of the scripts is well below 1 s)
            Some(s) => match tokio::time::timeout(Duration::from_secs(20), s.close()).await {
                Ok(Ok(())) => ctx.emit("close ok"),
                Ok(Err(e)) => ctx.emit(format!("close Err {}", err_class(&e))),
                Err(_) => ctx.emit("close Timeout"),
            },
            None => ctx.emit("close NoStorage"),
        },
        ("drop", []) => {
            // end the session without close(): the storage object is leaked so that no destructor
            // runs index dumps; file descriptors stay open (like a killed process whose files persist)
            if let Some(s) = st.storage.take() {
                std::mem::forget(s);
            }
            ctx.emit("drop");
        }
        ("rmindex", [id]) => {
            let r = std::fs::remove_file(st.file_path("index", id));
            ctx.emit(format!("rmindex {}", if r.is_ok() { "ok" } else { "absent" }));
        }
        ("trunc", [kind, id, n]) => {
            let p = st.file_path(kind, id);
            let n: i64 = n.parse().unwrap();
            // truncation only ever shortens a file; a negative n is relative to the current end
            let cur = std::fs::metadata(&p).map(|m| m.len());
            match cur {
                Ok(len) if n >= 0 && n as u64 >= len => ctx.emit("trunc noop"),
                Ok(len) => {
                    let n = if n < 0 { (len as i64 + n).max(0) as u64 } else { n as u64 };
                    let r = std::fs::OpenOptions::new().write(true).open(&p).and_then(|f| f.set_len(n));
                    st.damaged(&p);
                    ctx.emit(format!("trunc {}", if r.is_ok() { "ok" } else { "absent" }));
                }
                Err(_) => ctx.emit("trunc absent"),
            }
        }
        ("flip", [kind, id, pos, mask]) => {
            let p = st.file_path(kind, id);
            let pos: usize = pos.parse().unwrap();
            let mask: u8 = u8::from_str_radix(mask, 16).unwrap();
            match std::fs::read(&p) {
                Ok(mut b) if pos < b.len() => {
                    b[pos] ^= mask;
                    std::fs::write(&p, b).unwrap();
                    st.damaged(&p);
                    ctx.emit("flip ok");
                }
                _ => ctx.emit("flip absent"),
            }
        }
        ("patch", [kind, id, pos, hex]) => {
            let p = st.file_path(kind, id);
            let pos: usize = pos.parse().unwrap();
            let bytes = hex_decode(hex);
            match std::fs::read(&p) {
                Ok(mut b) if pos + bytes.len() <= b.len() => {
                    b[pos..pos + bytes.len()].copy_from_slice(&bytes);
                    std::fs::write(&p, b).unwrap();
                    st.damaged(&p);
                    ctx.emit("patch ok");
                }
                _ => ctx.emit("patch absent"),
            }
        }
        ("filehex", [kind, id]) => match std::fs::read(st.file_path(kind, id)) {
            Ok(mut b) => {
                // the SHA-256 field of an index header (bytes 40..72) is not modelled: masked
                if *kind == "index" && b.len() >= 72 {
                    for x in &mut b[40..72] { *x = 0; }
                    // the two checksums at the end of every record header in the leaf section are masked too (the index
                    // model carries the header fields the lookups use; record checksums are the subject of C05)
                    let count = u64::from_le_bytes(b[8..16].try_into().unwrap()) as usize;
                    let rhs = u64::from_le_bytes(b[16..24].try_into().unwrap()) as usize;
                    if rhs >= 8 && count.checked_mul(rhs).map_or(false, |t| t <= b.len()) {
                        let start = b.len() - count * rhs;
                        for i in 0..count { let e = start + (i + 1) * rhs; for x in &mut b[e - 8..e] { *x = 0; } }
                    }
                }
                ctx.emit(format!("filehex {}", hex_encode(&b)))
            }
            Err(_) => ctx.emit("filehex absent"),
        },

        #[cfg(pearl_verif)]
        ("trace", [sub]) => {
            use pearl::verif_io;
            match *sub {
                "on" => { verif_io::start_recording(); ctx.emit("trace on"); }
                "off" => { verif_io::stop_recording(); ctx.emit("trace off"); }
                _ => {
                    // dump: events since the last dump, paths relative to the work dir
                    let evs = st.take_events();
                    let base = st.dir.to_string_lossy().to_string();
                    let mut parts = Vec::new();
                    for e in evs {
                        let p = e.path.strip_prefix(&base).unwrap_or(&e.path).trim_start_matches('/').to_string();
                        let k = match e.kind {
                            verif_io::Kind::Create => "create".to_string(),
                            verif_io::Kind::Open => "open".to_string(),
                            verif_io::Kind::Append => format!("append@{}+{}", e.offset, e.len),
                            verif_io::Kind::WriteAt => format!("writeat@{}+{}", e.offset, e.len),
                            verif_io::Kind::Sync => "sync".to_string(),
                        };
                        parts.push(format!("{}:{}{}", k, p, if e.ok { "" } else { "!" }));
                    }
                    ctx.emit(format!("trace {}", parts.join(" ")));
                }
            }
        }
        #[cfg(pearl_verif)]
        ("tracecheck", [mode]) => {
            // C07 on the recorded events: appends to a blob file land exactly at its end, nothing else
            // ever writes into a blob file; mode `quiet` additionally demands no write event at all
            use pearl::verif_io;
            let evs = st.take_events();
            let base = st.dir.to_string_lossy().to_string();
            let mut problems = Vec::new();
            let mut writes = 0;
            for e in &evs {
                let p = e.path.strip_prefix(&base).unwrap_or(&e.path).trim_start_matches('/').to_string();
                let is_blob = p.ends_with(".blob");
                match e.kind {
                    verif_io::Kind::Create => { writes += 1; if is_blob {
                        if std::path::Path::new(&e.path).exists() && st.eof.contains_key(&p) { problems.push(format!("create-over-existing:{}", p)); }
                        // a blob id that was ever used by a file of this directory (also one quarantined since) is never handed out again
                        else if e.ok && (st.eof.contains_key(&p) || st.seen_corrupted.contains(&p)) { problems.push(format!("blob-id-reused:{}", p)); }
                        st.eof_loose.remove(&p);
                        st.oappend.remove(&p);
                        st.eof.insert(p.clone(), Some(0)); } }
                    verif_io::Kind::Open => { if is_blob { st.eof.insert(p.clone(), None); st.oappend.insert(p.clone()); } }
                    verif_io::Kind::Append => { writes += 1; if is_blob {
                        let cur = st.eof.get(&p).cloned().flatten();
                        if let Some(c) = cur {
                            if st.eof_loose.contains(&p) {
                                // after a failed (possibly partial) append or a re-open only "never below the physical end" is demanded
                                if e.offset < c { problems.push(format!("append-below-eof:{}@{}<{}", p, e.offset, c)); }
                            } else if c != e.offset { problems.push(format!("append-not-at-eof:{}@{}!={}", p, e.offset, c)); }
                        }
                        if st.oappend.contains(&p) {
                            // O_APPEND: the bytes land at the physical end whatever the offset says; only "never shrinks" is tracked
                            if let Some(c) = cur { st.eof.insert(p.clone(), Some(c)); st.eof_loose.insert(p.clone()); }
                        } else if e.ok { st.eof.insert(p.clone(), Some(e.offset + e.len)); st.eof_loose.remove(&p); } else { st.eof.insert(p.clone(), None); } } }
                    verif_io::Kind::WriteAt => { writes += 1; if is_blob { problems.push(format!("positional-write-into-blob:{}@{}", p, e.offset)); } }
                    verif_io::Kind::Sync => {}
                }
            }
            // the tracked end of every blob file must be its real length
            for (p, eof) in st.eof.iter() {
                if let (Some(c), Ok(md)) = (eof, std::fs::metadata(st.dir.join(p))) {
                    if st.eof_loose.contains(p) { if md.len() < *c { problems.push(format!("shrunk:{}:{}<{}", p, md.len(), c)); } }
                    else if md.len() != *c { problems.push(format!("length-mismatch:{}:{}!={}", p, md.len(), c)); }
                }
            }
            // a blob file that was created or written to in this window (also by an operation that failed) is never
            // removed: it is still in the work directory, or it was moved to the quarantine directory
            let mut touched: Vec<String> = evs.iter().filter(|e| e.path.ends_with(".blob") && matches!(e.kind, verif_io::Kind::Create | verif_io::Kind::Append))
                .map(|e| e.path.strip_prefix(&base).unwrap_or(&e.path).trim_start_matches('/').to_string()).collect();
            touched.sort(); touched.dedup();
            for p in touched {
                if !st.dir.join(&p).exists() && !st.dir.join(&st.cfg.corrdir).join(&p).exists() {
                    problems.push(format!("blob-file-removed:{}", p));
                }
            }
            // unknown ends (re-opened file, failed append): from now on the physical length is a lower bound for appends
            let unknown: Vec<String> = st.eof.iter().filter(|(_, v)| v.is_none()).map(|(k, _)| k.clone()).collect();
            for p in unknown {
                if let Ok(md) = std::fs::metadata(st.dir.join(&p)) {
                    st.eof.insert(p.clone(), Some(md.len()));
                    st.eof_loose.insert(p);
                }
            }
            if *mode == "quiet" && writes > 0 { problems.push(format!("writes-during-queries:{}", writes)); }
            problems.sort();
            ctx.emit(if problems.is_empty() { "tracecheck ok".to_string() } else { format!("tracecheck VIOLATION {}", problems.join(" ")) });
        }
        #[cfg(pearl_verif)]
        ("powercut", []) => {
            // power loss seen from the blob files: every blob file of the work directory keeps only what a successful
            // sync covered (its physical length at the entry of the last successful sync, from the I/O tap); index files
            // are left as they are (the best case for them, the worst case for a blob whose index was written first)
            let _ = st.take_events();
            let mut parts = Vec::new();
            if let Ok(rd) = std::fs::read_dir(&st.dir) {
                let mut names: Vec<_> = rd.flatten().filter(|e| e.file_name().to_string_lossy().ends_with(".blob")).collect();
                names.sort_by_key(|e| e.file_name());
                for e in names {
                    let p = e.path();
                    let len = std::fs::metadata(&p).map(|m| m.len()).unwrap_or(0);
                    let cov = st.synced.get(&p.to_string_lossy().to_string()).copied().unwrap_or(0).min(len);
                    if cov < len {
                        let _ = std::fs::OpenOptions::new().write(true).open(&p).and_then(|f| f.set_len(cov));
                        st.damaged(&p);
                    }
                    parts.push(format!("{}:{}->{}", e.file_name().to_string_lossy(), len, cov));
                }
            }
            ctx.emit(format!("powercut {}", parts.join(" ")));
        }
        ("snapcheck", []) => {
            // C07 on bytes: every blob file seen earlier is still there (or in the corrupted dir) with its
            // earlier content as a prefix
            let mut problems = Vec::new();
            let mut cur: HashMap<String, Vec<u8>> = HashMap::new();
            let corrdir = st.cfg.corrdir.clone();
            for sub in ["", corrdir.as_str()] {
                if let Ok(rd) = std::fs::read_dir(st.dir.join(sub)) {
                    for e in rd.flatten() {
                        let name = e.file_name().to_string_lossy().to_string();
                        if name.ends_with(".blob") {
                            if let Ok(b) = std::fs::read(e.path()) {
                                if !sub.is_empty() { st.seen_corrupted.insert(name.clone()); }
                                if sub.is_empty() || !cur.contains_key(&name) { cur.insert(name, b); }
                            }
                        }
                    }
                }
            }
            for (name, old) in st.snaps.iter() {
                match cur.get(name) {
                    None => problems.push(format!("missing:{}", name)),
                    Some(now) => if now.len() < old.len() || now[..old.len()] != old[..] { problems.push(format!("not-a-prefix:{}", name)); }
                }
            }
            for (name, b) in cur { st.snaps.insert(name, b); }
            problems.sort();
            ctx.emit(if problems.is_empty() { "snapcheck ok".to_string() } else { format!("snapcheck VIOLATION {}", problems.join(" ")) });
        }
        #[cfg(pearl_verif)]
        ("fail", [kind, pat, nth, action]) => {
            use pearl::verif_io::{self, Action, Kind};
            let k = match *kind { "create" => Kind::Create, "open" => Kind::Open, "append" => Kind::Append, "writeat" => Kind::WriteAt, "sync" => Kind::Sync, _ => panic!("kind") };
            let a = if let Some(n) = action.strip_prefix("short:") { Action::Short(n.parse().unwrap()) }
                else if let Some(ms) = action.strip_prefix("delay:") { Action::Delay(ms.parse().unwrap()) } else {
                Action::Fail(match *action { "ENOSPC" => libc::ENOSPC, "EIO" => libc::EIO, "EACCES" => libc::EACCES, x => x.parse().unwrap() }) };
            verif_io::arm(k, pat, nth.parse().unwrap(), a);
            ctx.emit("fail armed");
        }
        #[cfg(pearl_verif)]
        ("clearfail", []) => { pearl::verif_io::clear_failpoints(); ctx.emit("clearfail"); }
        ("overlap", [ms, rest @ ..]) => {
            // two operations overlapping in time: `overlap <ms> <op1...> | <op2...>`: op1 is started, op2 is started <ms>
            // later while op1 may still be running (typically held back by a failpoint delay), both are awaited.
            use std::sync::Arc;
            let storage = match st.storage.take() { Some(s) => Arc::new(s), None => { ctx.emit("overlap NoStorage"); return; } };
            let ms: u64 = ms.parse().unwrap();
            let split = rest.iter().position(|x| *x == "|").expect("overlap needs `|`");
            let o1: Vec<String> = rest[..split].iter().map(|x| x.to_string()).collect();
            let o2: Vec<String> = rest[split + 1..].iter().map(|x| x.to_string()).collect();
            async fn one<const N: usize>(s: Arc<Storage<ArrayKey<N>>>, o: Vec<String>) -> String {
                let k = |h: &str| key_of::<N>(h);
                match o[0].as_str() {
                    "close_active" => match s.try_close_active_blob().await { Ok(()) => "close_active ok".into(), Err(e) => format!("close_active Err {}", err_class(&e)) },
                    "create_active" => match s.try_create_active_blob().await { Ok(()) => "create_active ok".into(), Err(e) => format!("create_active Err {}", err_class(&e)) },
                    "restore_active" => match s.try_restore_active_blob().await { Ok(()) => "restore_active ok".into(), Err(e) => format!("restore_active Err {}", err_class(&e)) },
                    "fsync" => match s.fsyncdata().await { Ok(()) => "fsync ok".into(), Err(_) => "fsync Err".into() },
                    "W" => {
                        let data = gen_data(o[5].parse().unwrap(), o[4].parse().unwrap());
                        let r = match meta_of(&o[3]) {
                            Some(m) => s.write_with(k(&o[1]), data.into(), BlobRecordTimestamp::new(o[2].parse().unwrap()), m).await,
                            None => s.write(k(&o[1]), data.into(), BlobRecordTimestamp::new(o[2].parse().unwrap())).await,
                        };
                        match r { Ok(()) => "W ok".into(), Err(e) => format!("W Err {}", err_class(&e)) }
                    }
                    "D" => match s.delete(k(&o[1]), BlobRecordTimestamp::new(o[2].parse().unwrap()), o[4] == "1").await { Ok(n) => format!("D {}", n), Err(e) => format!("D Err {}", err_class(&e)) },
                    x => format!("HARNESS-ERROR overlap op {}", x),
                }
            }
            let (s1, s2) = (storage.clone(), storage.clone());
            let h1 = tokio::spawn(async move { one::<N>(s1, o1).await });
            tokio::time::sleep(Duration::from_millis(ms)).await;
            let h2 = tokio::spawn(async move { one::<N>(s2, o2).await });
            let both = tokio::time::timeout(Duration::from_secs(15), async { (h1.await, h2.await) }).await;
            match both {
                Ok((a, b)) => {
                    ctx.emit(format!("overlap {} | {}", a.unwrap_or_else(|_| "Panic".into()), b.unwrap_or_else(|_| "Panic".into())));
                    match Arc::try_unwrap(storage) { Ok(s) => st.storage = Some(s), Err(_) => ctx.emit("HARNESS-ERROR storage still shared") }
                }
                Err(_) => { std::mem::forget(storage); ctx.emit("overlap Timeout"); }
            }
        }
        #[cfg(pearl_verif)]
        ("truedirty_all", []) => {
            // per blob file of the work directory: physical length minus what the last successful sync covered at its entry
            let _ = st.take_events();
            let mut parts = Vec::new();
            if let Ok(rd) = std::fs::read_dir(&st.dir) {
                let mut names: Vec<_> = rd.flatten().filter(|e| e.file_name().to_string_lossy().ends_with(".blob")).collect();
                names.sort_by_key(|e| e.file_name());
                for e in names {
                    let p = e.path();
                    let len = std::fs::metadata(&p).map(|m| m.len()).unwrap_or(0);
                    let cov = st.synced.get(&p.to_string_lossy().to_string()).copied().unwrap_or(0);
                    parts.push(format!("{}:{}", e.file_name().to_string_lossy(), len.saturating_sub(cov)));
                }
            }
            ctx.emit(format!("truedirty_all {}", parts.join(" ")));
        }
        #[cfg(pearl_verif)]
        ("truedirty", []) => {
            // un-synced bytes of the ACTIVE blob file computed from the tap alone: physical length minus what the
            // last successful sync covered at its entry (independent of pearl's own size / synced_size counters)
            let _ = st.take_events();
            let mut best: Option<(usize, std::path::PathBuf)> = None;
            if let Ok(rd) = std::fs::read_dir(&st.dir) {
                for e in rd.flatten() {
                    let name = e.file_name().to_string_lossy().to_string();
                    if let Some(id) = name.strip_prefix("t.").and_then(|x| x.strip_suffix(".blob")).and_then(|x| x.parse::<usize>().ok()) {
                        if best.as_ref().map_or(true, |(b, _)| id > *b) { best = Some((id, e.path())); }
                    }
                }
            }
            match best {
                Some((_, p)) => {
                    let len = std::fs::metadata(&p).map(|m| m.len()).unwrap_or(0);
                    let cov = st.synced.get(&p.to_string_lossy().to_string()).copied().unwrap_or(0);
                    ctx.emit(format!("truedirty {}", len.saturating_sub(cov)));
                }
                None => ctx.emit("truedirty none"),
            }
        }
        #[cfg(pearl_verif)]
        ("dirty", []) => {
            let s = need_storage!(st, ctx, c);
            let d = s.verif_dirty_bytes().await;
            ctx.emit(format!("dirty {}", d.map(|x| x.to_string()).unwrap_or_else(|| "none".into())));
        }

        ("tool", [sub, rest @ ..]) => {
            // offline tools through the public API (pearl::tools); files of the (closed) storage directory
            let blob = |id: &str| st.dir.join(format!("t.{}.blob", id));
            let index = |id: &str| st.dir.join(format!("t.{}.index", id));
            let out = |id: &str| st.dir.join(format!("t.{}.recovered", id));
            let r: String = match (*sub, rest) {
                ("validate_blob", [id]) => match pearl::tools::validate_blob(&blob(id)) { Ok(()) => "ok".into(), Err(_) => "Err".into() },
                ("validate_index", [id]) => {
                    let p = index(id);
                    // validate_index uses block_on internally: run it on a plain thread
                    let res = std::thread::spawn(move || pearl::tools::validate_index::<ArrayKey<N>>(&p).is_ok()).join();
                    match res { Ok(true) => "ok".into(), Ok(false) => "Err".into(), Err(_) => "Panic".into() }
                }
                ("recover", [id, every, skip]) => {
                    let (i, o) = (blob(id), out(id));
                    let every: usize = every.parse().unwrap();
                    let skip = *skip == "1";
                    let res = std::thread::spawn(move || pearl::tools::recovery_blob(&i, &o, every, skip).is_ok()).join();
                    match res {
                        Ok(true) => format!("ok {}", std::fs::metadata(out(id)).map(|m| m.len()).unwrap_or(0)),
                        Ok(false) => "Err".into(),
                        Err(_) => "Panic".into(),
                    }
                }
                ("recover_quarantined", [id, every, skip]) => {
                    // the recovery tool run on the file in the quarantine directory (what an operator does after a crash)
                    let i = st.dir.join(&st.cfg.corrdir).join(format!("{}.{}.blob", st.cfg.prefix, id));
                    let o = out(id);
                    let every: usize = every.parse().unwrap();
                    let skip = *skip == "1";
                    if !i.exists() { "absent".into() } else {
                        let res = std::thread::spawn(move || pearl::tools::recovery_blob(&i, &o, every, skip).is_ok()).join();
                        match res {
                            Ok(true) => format!("ok {}", std::fs::metadata(out(id)).map(|m| m.len()).unwrap_or(0)),
                            Ok(false) => "Err".into(),
                            Err(_) => "Panic".into(),
                        }
                    }
                }
                ("validate_out", [id]) => match pearl::tools::validate_blob(&out(id)) { Ok(()) => "ok".into(), Err(_) => "Err".into() },
                ("outhex", [id]) => match std::fs::read(out(id)) { Ok(b) => hex_encode(&b), Err(_) => "absent".into() },
                ("install", [id]) => {
                    // the recovered file replaces the blob; its index file (if any) is removed
                    let _ = std::fs::remove_file(index(id));
                    match std::fs::rename(out(id), blob(id)) { Ok(()) => "ok".into(), Err(_) => "Err".into() }
                }
                ("migrate", [id, target]) => {
                    let (i, o) = (blob(id), out(id));
                    let t: u32 = target.parse().unwrap();
                    let res = std::thread::spawn(move || pearl::tools::migrate_blob(&i, &o, 1, t).is_ok()).join();
                    match res { Ok(true) => "ok".into(), Ok(false) => "Err".into(), Err(_) => "Panic".into() }
                }
                ("read_index", [id]) => {
                    let p = index(id);
                    let res = std::thread::spawn(move || pearl::tools::read_index_sync(&p).map(|m| {
                        let mut n = 0usize; let mut keys = 0usize;
                        for (_, v) in m.iter() { keys += 1; n += v.len(); }
                        (keys, n)
                    })).join();
                    match res { Ok(Ok((k, n))) => format!("ok keys={} headers={}", k, n), Ok(Err(_)) => "Err".into(), Err(_) => "Panic".into() }
                }
                _ => "HARNESS-ERROR bad tool command".into(),
            };
            ctx.emit(format!("tool {} {}", sub, r));
        }

        ("cancel", [polls, op, rest @ ..]) => {
            // poll the operation's future `polls` times (5 ms apart, so that blocking closures can finish),
            // then drop it; a future that completes earlier reports its result
            let polls: usize = polls.parse().unwrap();
            let s = need_storage!(st, ctx, "cancel");
            macro_rules! drive {
                ($fut:expr, $fmt:expr) => {{
                    let mut fut = Box::pin($fut);
                    let mut done = None;
                    for _ in 0..polls {
                        match futures::poll!(fut.as_mut()) {
                            std::task::Poll::Ready(r) => { done = Some(r); break; }
                            std::task::Poll::Pending => tokio::time::sleep(Duration::from_millis(5)).await,
                        }
                    }
                    match done {
                        Some(r) => format!("cancel done {}", $fmt(r)),
                        None => { drop(fut); "cancel dropped".to_string() }
                    }
                }};
            }
            let line = match (*op, rest) {
                ("W", [key, ts, meta, len, seed]) => {
                    let len: usize = len.parse().unwrap();
                    let seed: u64 = seed.parse().unwrap();
                    let data = gen_data(seed, len);
                    st.written.insert((len, crc32c(&data)), seed);
                    let k = key_of::<N>(key);
                    let t = BlobRecordTimestamp::new(ts.parse().unwrap());
                    let _ = meta;
                    drive!(s.write(k, Bytes::from(data), t), |r: anyhow::Result<()>| match r { Ok(()) => "W ok".to_string(), Err(e) => format!("W Err {}", err_class(&e)) })
                }
                ("D", [key, ts, _meta, oip]) => {
                    let k = key_of::<N>(key);
                    let t = BlobRecordTimestamp::new(ts.parse().unwrap());
                    drive!(s.delete(k, t, *oip == "1"), |r: anyhow::Result<u64>| match r { Ok(n) => format!("D {}", n), Err(e) => format!("D Err {}", err_class(&e)) })
                }
                ("R", [key]) => {
                    let k = key_of::<N>(key);
                    drive!(s.read(k), |r: anyhow::Result<ReadResult<Bytes>>| match r { Ok(_) => "R ok".to_string(), Err(e) => format!("R Err {}", err_class(&e)) })
                }
                ("close_active", []) => drive!(s.try_close_active_blob(), |r: anyhow::Result<()>| match r { Ok(()) => "close_active ok".to_string(), Err(e) => format!("close_active Err {}", err_class(&e)) }),
                ("create_active", []) => drive!(s.try_create_active_blob(), |r: anyhow::Result<()>| match r { Ok(()) => "create_active ok".to_string(), Err(e) => format!("create_active Err {}", err_class(&e)) }),
                ("restore_active", []) => drive!(s.try_restore_active_blob(), |r: anyhow::Result<()>| match r { Ok(()) => "restore_active ok".to_string(), Err(e) => format!("restore_active Err {}", err_class(&e)) }),
                ("fsync", []) => drive!(s.fsyncdata(), |r: std::io::Result<()>| match r { Ok(()) => "fsync ok".to_string(), Err(_) => "fsync Err".to_string() }),
                _ => "HARNESS-ERROR bad cancel op".to_string(),
            };
            // let detached blocking closures of the dropped future finish (failpoint delays are <= 60 ms)
            tokio::time::sleep(Duration::from_millis(130)).await;
            ctx.emit(line);
        }

        ("par", _) => {
            // concurrent clients: `par tasks=T ops=O keys=Kn seed=S kinds=WRDCM base=TS`
            // every client is a SPAWNED task running O operations chosen by a deterministic LCG; timestamps are
            // globally unique (base + task*1000 + i); invocation/response order is recorded with a global counter
            use std::sync::atomic::{AtomicU64, Ordering};
            use std::sync::Arc;
            let storage = match st.storage.take() { Some(s) => Arc::new(s), None => { ctx.emit("par NoStorage"); return; } };
            let mut tasks = 4usize; let mut ops = 10usize; let mut nkeys = 2usize; let mut seed = 1u64; let mut kinds = "WRD".to_string(); let mut base = 1000u64;
            for tok in a {
                let (k, v) = tok.split_once('=').unwrap();
                match k { "tasks" => tasks = v.parse().unwrap(), "ops" => ops = v.parse().unwrap(), "keys" => nkeys = v.parse().unwrap(),
                          "seed" => seed = v.parse().unwrap(), "kinds" => kinds = v.to_string(), "base" => base = v.parse().unwrap(), _ => {} }
            }
            let clock = Arc::new(AtomicU64::new(0));
            // payloads written earlier in the script use seed == timestamp by convention of the par scripts
            let known: Arc<std::sync::Mutex<HashMap<(usize, u32), u64>>> = Arc::new(std::sync::Mutex::new(st.written.clone()));
            let kinds: Vec<char> = kinds.chars().collect();
            let mut handles = Vec::new();
            for t in 0..tasks {
                let clock = clock.clone();
                let kinds = kinds.clone();
                let known = known.clone();
                let s = storage.clone();
                handles.push(tokio::spawn(async move {
                    let mk_key = |i: usize| { let mut b = vec![0u8; N]; b[N - 1] = ((i + 1) & 0xff) as u8; if N >= 2 { b[N - 2] = (((i + 1) >> 8) & 0xff) as u8; } ArrayKey::<N>::from(b) };
                    let mut log: Vec<String> = Vec::new();
                    let mut x = seed.wrapping_mul(6364136223846793005).wrapping_add((t as u64).wrapping_mul(1442695040888963407).wrapping_add(1));
                    for i in 0..ops {
                        x = x.wrapping_mul(6364136223846793005).wrapping_add(1442695040888963407);
                        let kind = kinds[((x >> 33) as usize) % kinds.len()];
                        let ki = ((x >> 20) as usize) % nkeys;
                        let key = mk_key(ki);
                        let ts = base + (t as u64) * 1000 + i as u64;
                        let inv = clock.fetch_add(1, Ordering::SeqCst);
                        let res = match kind {
                            'W' => {
                                let len = [5usize, 8, 40, 5000][((x >> 10) as usize) % 4];
                                let data = gen_data(ts, len);
                                known.lock().unwrap().insert((len, crc32c(&data)), ts);
                                match s.write(&key, Bytes::from(data), BlobRecordTimestamp::new(ts)).await { Ok(()) => format!("W:{}:{}:{}:ok", ki, ts, len), Err(e) => format!("W:{}:{}:{}:Err_{}", ki, ts, len, err_class(&e)) }
                            }
                            'D' => match s.delete(&key, BlobRecordTimestamp::new(ts), ((x >> 5) & 1) == 1).await { Ok(n) => format!("D:{}:{}:{}:ok", ki, ts, n), Err(e) => format!("D:{}:{}:0:Err_{}", ki, ts, err_class(&e)) },
                            'R' => match s.read(&key).await {
                                Ok(ReadResult::Found(d)) => {
                                    // which write produced these bytes? (a torn or foreign payload is reported as ts 0)
                                    let ts_of = known.lock().unwrap().get(&(d.len(), crc32c(&d))).cloned().filter(|t| gen_data(*t, d.len()) == d).unwrap_or(0);
                                    format!("R:{}:F:{}:{}", ki, ts_of, d.len())
                                }
                                Ok(ReadResult::Deleted(t)) => format!("R:{}:X:{}:0", ki, Into::<u64>::into(t)),
                                Ok(ReadResult::NotFound) => format!("R:{}:N:0:0", ki),
                                Err(e) => format!("R:{}:Err_{}:0:0", ki, err_class(&e)),
                            },
                            'C' => match s.contains(&key).await {
                                Ok(ReadResult::Found(t)) => format!("C:{}:F:{}:0", ki, Into::<u64>::into(t)),
                                Ok(ReadResult::Deleted(t)) => format!("C:{}:X:{}:0", ki, Into::<u64>::into(t)),
                                Ok(ReadResult::NotFound) => format!("C:{}:N:0:0", ki),
                                Err(e) => format!("C:{}:Err_{}:0:0", ki, err_class(&e)),
                            },
                            'M' => {
                                match (x >> 7) % 3 { 0 => { let _ = s.try_close_active_blob().await; } 1 => { s.force_update_active_blob(|_| true).await; } _ => { let _ = s.free_excess_resources().await; } }
                                "M:0:0:0:ok".to_string()
                            }
                            'S' => {
                                // the statistics calls take the closed-blobs lock first and the active blob's lock inside it
                                match (x >> 7) % 4 {
                                    0 => { let _ = s.records_count().await; }
                                    1 => { let _ = s.records_count_detailed().await; }
                                    2 => { let _ = s.disk_used().await; }
                                    _ => { let _ = s.blobs_count().await; let _ = s.records_count_in_active_blob().await; }
                                }
                                "S:0:0:0:ok".to_string()
                            }
                            _ => "?".to_string(),
                        };
                        let ret = clock.fetch_add(1, Ordering::SeqCst);
                        log.push(format!("{}/{}/{}/{}", t, inv, ret, res));
                        if (x >> 3) % 4 == 0 { tokio::task::yield_now().await; }
                    }
                    log
                }));
            }
            let all = tokio::time::timeout(Duration::from_secs(15), futures::future::join_all(handles)).await;
            for ((len, crc), ts) in known.lock().unwrap().iter() {
                st.written.insert((*len, *crc), *ts);
            }
            match all {
                Ok(logs) => {
                    let mut evs: Vec<String> = logs.into_iter().filter_map(|r| r.ok()).flatten().collect();
                    evs.sort_by_key(|e| e.split('/').nth(1).unwrap().parse::<u64>().unwrap());
                    ctx.emit(format!("par {}", evs.join(" ")));
                    match Arc::try_unwrap(storage) { Ok(s) => st.storage = Some(s), Err(_) => ctx.emit("HARNESS-ERROR storage still shared") }
                }
                Err(_) => {
                    // stuck clients keep their references: the storage object is abandoned
                    std::mem::forget(storage);
                    ctx.emit("par Timeout");
                }
            }
        }
        ("bloom", _) => crate::bloom_cmds::cmd_bloom(ctx, a).await,
        ("hier", _) => crate::hier_cmds::cmd_hier::<N>(ctx, a).await,
        #[cfg(pearl_verif)]
        ("idx", _) => crate::index_cmds::cmd_idx::<N>(st, ctx, a).await,
        _ => ctx.emit(format!("HARNESS-ERROR unknown command: {}", toks.join(" "))),
    }
}

static DIR_COUNTER: std::sync::atomic::AtomicUsize = std::sync::atomic::AtomicUsize::new(0);

pub fn run_script<const N: usize>(script: &str) -> String {
    let cfg = parse_cfg(script);
    let base = std::env::var("VERIF_TMP").unwrap_or_else(|_| "/tmp".to_string());
    let dir = PathBuf::from(base).join(format!(
        "pearl_verif_{}_{}",
        std::process::id(),
        DIR_COUNTER.fetch_add(1, std::sync::atomic::Ordering::SeqCst)
    ));
    let _ = std::fs::remove_dir_all(&dir);
    std::fs::create_dir_all(&dir).expect("mkdir");
    if let Some(src) = &cfg.usedir {
        copy_dir(Path::new(src), &dir);
    }
    let savedir = cfg.savedir.clone();
    let rt = if cfg.runtime_ct {
        tokio::runtime::Builder::new_current_thread().enable_all().build().unwrap()
    } else {
        tokio::runtime::Builder::new_multi_thread().worker_threads(4).enable_all().build().unwrap()
    };
    #[cfg(pearl_verif)]
    {
        pearl::verif_io::clear_failpoints();
        pearl::verif_io::stop_recording();
        let _ = pearl::verif_io::take_events();
    }
    let live = crate::LIVE_PATH.lock().unwrap().clone().and_then(|p| std::fs::File::create(p).ok());
    let mut ctx = Ctx { out: String::new(), blooms: HashMap::new(), raws: HashMap::new(), live };
    let mut st = St::<N> { cfg, dir: dir.clone(), storage: None, written: HashMap::new(), auto_quiesce: true, snaps: HashMap::new(), eof: HashMap::new(), eof_loose: Default::default(), seen_corrupted: Default::default(), oappend: Default::default(), synced: HashMap::new() };
    rt.block_on(async {
        for line in script.lines() {
            let line = line.trim();
            if line.is_empty() || line.starts_with('#') {
                continue;
            }
            let toks: Vec<&str> = line.split_whitespace().collect();
            let fut = AssertUnwindSafe(exec(&mut st, &mut ctx, &toks)).catch_unwind();
            match tokio::time::timeout(Duration::from_secs(20), fut).await {
                Ok(Ok(())) => {}
                Ok(Err(p)) => {
                    let msg = p
                        .downcast_ref::<String>()
                        .cloned()
                        .or_else(|| p.downcast_ref::<&str>().map(|s| s.to_string()))
                        .unwrap_or_default();
                    let short: String = msg.chars().take(60).collect();
                    ctx.emit(format!("{} Panic {}", toks[0], short.replace('\n', " ")));
                }
                Err(_) => {
                    ctx.emit(format!("{} Timeout", toks[0]));
                    break;
                }
            }
            if st.auto_quiesce && st.storage.is_some() && !matches!(toks[0], "quiesce" | "cfg" | "bloom" | "hier" | "idx") {
                let _ = tokio::time::timeout(Duration::from_secs(20), quiesce(&st)).await;
            }
        }
        if let Some(s) = st.storage.take() {
            let _ = tokio::time::timeout(Duration::from_secs(10), s.close()).await;
        }
    });
    rt.shutdown_timeout(Duration::from_millis(200));
    if let Some(dst) = savedir {
        let _ = std::fs::remove_dir_all(&dst);
        std::fs::create_dir_all(&dst).expect("mkdir savedir");
        copy_dir(&dir, Path::new(&dst));
    }
    // kill mode: the parent inspects the directory of a killed child; a child that finished its script before the kill
    // must not be caught in the middle of deleting it
    if std::env::var("VERIF_KEEP").is_err() {
        let _ = std::fs::remove_dir_all(&dir);
    }
    ctx.out
}
