//! `bloom ...` commands: pearl::Bloom driven through its public API.
use crate::util::*;
use crate::Ctx;
use pearl::{Bloom, BloomConfig, BloomDataProvider, FilterResult};

struct RawProvider(Vec<u8>);

#[async_trait::async_trait]
impl BloomDataProvider for RawProvider {
    async fn read_byte(&self, index: u64) -> anyhow::Result<u8> {
        self.0
            .get(index as usize)
            .copied()
            .ok_or_else(|| anyhow::anyhow!("out of range"))
    }
}

fn fr(r: FilterResult) -> &'static str {
    match r {
        FilterResult::NeedAdditionalCheck => "Maybe",
        FilterResult::NotContains => "No",
    }
}

pub fn config_from_bytes(cfg: &[u8]) -> BloomConfig {
    assert!(cfg.len() == 40);
    let u = |i: usize| u64::from_le_bytes(cfg[8 * i..8 * i + 8].try_into().unwrap()) as usize;
    BloomConfig {
        elements: u(0),
        hashers_count: u(1),
        max_buf_bits_count: u(2),
        buf_increase_step: u(3),
        preferred_false_positive_rate: f64::from_le_bytes(cfg[32..40].try_into().unwrap()),
    }
}

pub async fn cmd_bloom(ctx: &mut Ctx, args: &[&str]) {
    match args {
        ["new", id, cfghex, _hashers, _bits] => {
            let cfg = config_from_bytes(&hex_decode(cfghex));
            let b = Bloom::new(cfg);
            // report the bit count the implementation chose (trailing u64 of the raw form)
            let raw = b.to_raw().expect("to_raw");
            let bits = u64::from_le_bytes(raw[raw.len() - 8..].try_into().unwrap());
            ctx.blooms.insert(id.to_string(), b);
            ctx.emit(format!("bits {}", bits));
        }
        ["newbits", id, cfghex, _hashers, bits] => {
            // a filter restored from a saved form whose bit count is NOT what the current formula gives for its
            // config (files written by versions that sized the buffer differently): built through `from_raw`
            let cfgb = hex_decode(cfghex);
            let bits: u64 = bits.parse().unwrap();
            let words = (bits + 63) / 64;
            let mut raw = cfgb.clone();
            raw.extend_from_slice(&words.to_le_bytes());
            raw.extend(std::iter::repeat(0u8).take(8 * words as usize));
            raw.extend_from_slice(&bits.to_le_bytes());
            match Bloom::from_raw(&raw) {
                Ok(b) => {
                    let raw = b.to_raw().expect("to_raw");
                    let got = u64::from_le_bytes(raw[raw.len() - 8..].try_into().unwrap());
                    ctx.blooms.insert(id.to_string(), b);
                    ctx.emit(format!("bits {}", got));
                }
                Err(_) => { ctx.blooms.insert(id.to_string(), Bloom::new(config_from_bytes(&cfgb))); ctx.emit("bits Err"); }
            }
        }
        ["add", id, key] => {
            let r = ctx.blooms.get(*id).expect("bloom").add(hex_decode(key));
            ctx.emit(format!("add {}", if r.is_ok() { "ok" } else { "err" }));
        }
        ["probe", id, key] => {
            let r = ctx.blooms.get(*id).expect("bloom").contains_in_memory(hex_decode(key));
            ctx.emit(format!("mem {}", r.map(fr).unwrap_or("None")));
        }
        ["raw", id] => {
            let r = ctx.blooms.get(*id).expect("bloom").to_raw().ok();
            let s = r.as_ref().map(|b| hex_encode(b)).unwrap_or_else(|| "none".into());
            ctx.raws.insert(id.to_string(), r);
            ctx.emit(format!("raw {}", s));
        }
        ["fileprobe", id, rawid, key] => match ctx.raws.get(*rawid).cloned().flatten() {
            None => ctx.emit("file noraw"),
            Some(raw) => {
                let p = RawProvider(raw);
                let r = ctx
                    .blooms
                    .get(*id)
                    .expect("bloom")
                    .contains_in_file(&p, hex_decode(key))
                    .await;
                ctx.emit(format!("file {}", r.ok().map(fr).unwrap_or("None")));
            }
        },
        ["offload", id] => {
            ctx.blooms.get_mut(*id).expect("bloom").offload_from_memory();
            ctx.emit("offload");
        }
        ["clear", id] => {
            ctx.blooms.get_mut(*id).expect("bloom").clear();
            ctx.emit("clear");
        }
        ["merge", dst, src] => {
            let other = ctx.blooms.get(*src).expect("bloom").clone();
            let r = ctx.blooms.get_mut(*dst).expect("bloom").checked_add_assign(&other);
            ctx.emit(format!("merge {}", r));
        }
        ["hash", _i, _key] => {
            // the hash family is private to the crate; it is observed through `raw` after `add`
            ctx.emit("hash skipped");
        }
        _ => ctx.emit(format!("HARNESS-ERROR bad bloom command {:?}", args)),
    }
}
