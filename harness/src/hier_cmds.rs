//! `hier ...` commands: pearl::filter::HierarchicalFilters<ArrayKey<N>, CombinedFilter, Child> (level = 1, as the
//! storage builds it) with a harness-defined child that owns one CombinedFilter, like a closed blob owns its index filter.
use crate::util::*;
use crate::Ctx;
use pearl::filter::{BloomProvider, CombinedFilter, FilterTrait, HierarchicalFilters, RangeFilter};
use pearl::{ArrayKey, Bloom, FilterResult};
use std::collections::HashMap;
use std::sync::Mutex;

pub struct Child<const N: usize> {
    /// None: a child that cannot say anything about its content (`get_filter() = None`, like a storage without closed blobs)
    filter: Option<CombinedFilter<ArrayKey<N>>>,
}

#[async_trait::async_trait]
impl<const N: usize> BloomProvider<ArrayKey<N>> for Child<N> {
    type Filter = CombinedFilter<ArrayKey<N>>;
    async fn check_filter(&self, item: &ArrayKey<N>) -> FilterResult {
        self.filter.as_ref().map_or(FilterResult::NeedAdditionalCheck, |f| f.contains_fast(item))
    }
    fn check_filter_fast(&self, item: &ArrayKey<N>) -> FilterResult {
        self.filter.as_ref().map_or(FilterResult::NeedAdditionalCheck, |f| f.contains_fast(item))
    }
    async fn offload_buffer(&mut self, _needed_memory: usize, _level: usize) -> usize {
        self.filter.as_mut().map_or(0, |f| f.offload_filter())
    }
    async fn get_filter(&self) -> Option<Self::Filter> {
        self.filter.clone()
    }
    fn get_filter_fast(&self) -> Option<&Self::Filter> {
        self.filter.as_ref()
    }
    async fn filter_memory_allocated(&self) -> usize {
        self.filter.as_ref().map_or(0, |f| f.memory_allocated())
    }
}

type Hier<const N: usize> = HierarchicalFilters<ArrayKey<N>, CombinedFilter<ArrayKey<N>>, Child<N>>;

static HIERS: Mutex<Option<HashMap<usize, Box<dyn std::any::Any + Send>>>> = Mutex::new(None);

fn fr(r: FilterResult) -> &'static str {
    match r {
        FilterResult::NeedAdditionalCheck => "Maybe",
        FilterResult::NotContains => "No",
    }
}

fn key_of<const N: usize>(hex: &str) -> ArrayKey<N> {
    ArrayKey::<N>::from(hex_decode(hex))
}

fn describe<const N: usize>(f: Option<&CombinedFilter<ArrayKey<N>>>) -> String {
    match f {
        None => "none".to_string(),
        Some(f) => {
            let r = f.range().to_raw().map(|b| hex_encode(&b)).unwrap_or_else(|_| "err".into());
            let b = match f.bloom() {
                None => "none".to_string(),
                Some(b) if b.is_offloaded() => "off".to_string(),
                Some(b) => b.to_raw().map(|x| hex_encode(&x)).unwrap_or_else(|_| "err".into()),
            };
            format!("r={} b={}", r, b)
        }
    }
}

pub async fn cmd_hier<const N: usize>(ctx: &mut Ctx, args: &[&str]) {
    // one hierarchy per script (scripts run one after another inside a process; `hier new` replaces it)
    let slot = N;
    macro_rules! take {
        () => {{
            let mut g = HIERS.lock().unwrap();
            match g.get_or_insert_with(HashMap::new).remove(&slot) {
                Some(b) => match b.downcast::<Hier<N>>() {
                    Ok(h) => *h,
                    Err(_) => {
                        ctx.emit("HARNESS-ERROR hier type");
                        return;
                    }
                },
                None => {
                    ctx.emit("HARNESS-ERROR no hier");
                    return;
                }
            }
        }};
    }
    macro_rules! put {
        ($h:expr) => {{
            let mut g = HIERS.lock().unwrap();
            g.get_or_insert_with(HashMap::new).insert(slot, Box::new($h));
        }};
    }
    match args {
        ["new", group] => {
            let h: Hier<N> = HierarchicalFilters::new(group.parse().unwrap(), 1);
            put!(h);
            ctx.emit("hier new");
        }
        ["push", cfg, _hashers, _bits, keys] => {
            let mut h = take!();
            let bloom = if *cfg == "none" { None } else { Some(Bloom::new(crate::bloom_cmds::config_from_bytes(&hex_decode(cfg)))) };
            let filter = CombinedFilter::new(bloom, RangeFilter::new());
            if *keys != "-" {
                for k in keys.split(',') {
                    filter.add(&key_of::<N>(k));
                }
            }
            let id = h.push(Child { filter: Some(filter) }).await;
            put!(h);
            ctx.emit(format!("hier push {}", id));
        }
        ["pushnone"] => {
            let mut h = take!();
            let id = h.push(Child { filter: None }).await;
            put!(h);
            ctx.emit(format!("hier push {}", id));
        }
        ["pop"] => {
            let mut h = take!();
            let r = h.pop();
            put!(h);
            ctx.emit(format!("hier pop {}", if r.is_some() { "some" } else { "none" }));
        }
        ["remove", i] => {
            let mut h = take!();
            let r = h.remove(i.parse().unwrap());
            put!(h);
            ctx.emit(format!("hier remove {}", if r.is_some() { "some" } else { "none" }));
        }
        ["offload", needed, level] => {
            let mut h = take!();
            let n = if *needed == "max" { usize::MAX } else { needed.parse().unwrap() };
            let freed = h.offload_buffer(n, level.parse().unwrap()).await;
            put!(h);
            ctx.emit(format!("hier offload {}", freed));
        }
        ["iter", key] | ["iterrev", key] => {
            let h = take!();
            let k = key_of::<N>(key);
            let ids: Vec<String> = if args[0] == "iter" {
                h.iter_possible_childs(&k).map(|(i, _)| i.to_string()).collect()
            } else {
                h.iter_possible_childs_rev(&k).map(|(i, _)| i.to_string()).collect()
            };
            put!(h);
            ctx.emit(format!("hier {} {}", args[0], if ids.is_empty() { "-".to_string() } else { ids.join(",") }));
        }
        ["fast", key] => {
            let h = take!();
            let r = h.check_filter_fast(&key_of::<N>(key));
            put!(h);
            ctx.emit(format!("hier fast {}", fr(r)));
        }
        ["check", key] => {
            let h = take!();
            let r = h.check_filter(&key_of::<N>(key)).await;
            put!(h);
            ctx.emit(format!("hier check {}", fr(r)));
        }
        ["root"] => {
            let h = take!();
            let s = describe::<N>(h.get_filter_fast());
            put!(h);
            ctx.emit(format!("hier root {}", s));
        }
        ["mem"] => {
            let h = take!();
            let m = h.filter_memory_allocated().await;
            put!(h);
            ctx.emit(format!("hier mem {}", m));
        }
        ["len"] => {
            let h = take!();
            let n = h.len();
            let last = h.last_id();
            put!(h);
            ctx.emit(format!("hier len {} last {}", n, last.map(|x| x.to_string()).unwrap_or_else(|| "none".into())));
        }
        _ => ctx.emit(format!("HARNESS-ERROR bad hier command {:?}", args)),
    }
}
