//! `hier ...` commands: pearl::filter::HierarchicalFilters with a harness-defined child type.
use crate::Ctx;

pub async fn cmd_hier<const N: usize>(ctx: &mut Ctx, args: &[&str]) {
    ctx.emit(format!("HARNESS-ERROR hier not implemented {:?}", args));
}
