//! Harness: executes a script against the real pearl crate and prints canonical observations,
//! one per line, in the same vocabulary as the extracted Coq model's driver (/verif/ocaml/driver.ml).
//! usage: pearl_harness script out [script out ...]
use std::collections::HashMap;
use std::fmt::Write as _;

mod util;
mod bloom_cmds;
mod hier_cmds;
mod storage_cmds;
#[cfg(pearl_verif)]
mod index_cmds;

pub struct Ctx {
    pub out: String,
    pub blooms: HashMap<String, pearl::Bloom>,
    pub raws: HashMap<String, Option<Vec<u8>>>,
    pub live: Option<std::fs::File>,
}

impl Ctx {
    pub fn emit(&mut self, s: impl AsRef<str>) {
        let _ = writeln!(self.out, "{}", s.as_ref());
        if let Some(f) = self.live.as_mut() {
            use std::io::Write as _;
            let _ = writeln!(f, "{}", s.as_ref());
            let _ = f.flush();
        }
    }
}

fn key_size_of(script: &str) -> usize {
    for line in script.lines() {
        let line = line.trim();
        if let Some(rest) = line.strip_prefix("cfg ") {
            for tok in rest.split_whitespace() {
                if let Some(v) = tok.strip_prefix("K=") {
                    return v.parse().expect("K");
                }
            }
        }
    }
    4
}

pub static LIVE_PATH: std::sync::Mutex<Option<String>> = std::sync::Mutex::new(None);

fn run_one(script: &str) -> String {
    let k = key_size_of(script);
    match k {
        1 => storage_cmds::run_script::<1>(script),
        2 => storage_cmds::run_script::<2>(script),
        4 => storage_cmds::run_script::<4>(script),
        8 => storage_cmds::run_script::<8>(script),
        32 => storage_cmds::run_script::<32>(script),
        138 => storage_cmds::run_script::<138>(script),
        250 => storage_cmds::run_script::<250>(script),
        503 => storage_cmds::run_script::<503>(script),
        1000 => storage_cmds::run_script::<1000>(script),
        _ => format!("HARNESS-ERROR unsupported key size {}\n", k),
    }
}

fn main() {
    let args: Vec<String> = std::env::args().collect();
    let mut i = 1;
    // silence panic messages on stderr: panics are observations ("Panic ...")
    std::panic::set_hook(Box::new(|_| {}));
    while i + 1 < args.len() {
        let script = std::fs::read_to_string(&args[i]).expect("read script");
        if std::env::var("VERIF_LIVE").is_ok() {
            *LIVE_PATH.lock().unwrap() = Some(format!("{}.live", args[i + 1]));
        }
        let out = run_one(&script);
        std::fs::write(&args[i + 1], out).expect("write out");
        i += 2;
    }
}
