use pearl::error::{AsPearlError, ValidationErrorKind};
use pearl::{ErrorKind, Meta};

pub fn hex_decode(s: &str) -> Vec<u8> {
    if s == "-" {
        return vec![];
    }
    assert!(s.len() % 2 == 0, "odd hex");
    (0..s.len() / 2)
        .map(|i| u8::from_str_radix(&s[2 * i..2 * i + 2], 16).expect("hex"))
        .collect()
}

pub fn hex_encode(b: &[u8]) -> String {
    if b.is_empty() {
        return "-".to_string();
    }
    let mut s = String::with_capacity(b.len() * 2);
    for x in b {
        s.push_str(&format!("{:02x}", x));
    }
    s
}

/// Deterministic payload shared with the script generators and the Coq model (Blob/Bytes.v gen_data):
/// byte i = (seed_byte(i mod 8) + 7 i + 13 (i >> 8)) mod 256, so that payloads of at least as many bytes as the
/// seed has significant bytes identify their seed
pub fn gen_data(seed: u64, len: usize) -> Vec<u8> {
    let sb = seed.to_le_bytes();
    (0..len)
        .map(|i| ((sb[i % 8] as u64).wrapping_add((i as u64) * 7).wrapping_add(((i as u64) >> 8) * 13) & 0xff) as u8)
        .collect()
}

pub fn crc32c(data: &[u8]) -> u32 {
    // bitwise reflected CRC-32C (Castagnoli), independent of the crate under test
    let mut crc: u32 = 0xFFFF_FFFF;
    for &b in data {
        crc ^= b as u32;
        for _ in 0..8 {
            crc = if crc & 1 != 0 { (crc >> 1) ^ 0x82F6_3B78 } else { crc >> 1 };
        }
    }
    !crc
}

/// Known metadata values of the script vocabulary
pub fn meta_of(name: &str) -> Option<Meta> {
    match name {
        "-" => None,
        "m0" => Some(Meta::new()),
        "m1" => {
            let mut m = Meta::new();
            m.insert("v".to_string(), b"1".to_vec());
            Some(m)
        }
        "m2" => {
            let mut m = Meta::new();
            m.insert("v".to_string(), b"2".to_vec());
            m.insert("x".to_string(), b"0123456789".to_vec());
            Some(m)
        }
        "m3" => {
            let mut m = Meta::new();
            m.insert("longname-longname-longname".to_string(), vec![7u8; 300]);
            Some(m)
        }
        _ => panic!("unknown meta {}", name),
    }
}

pub fn meta_name(m: &Meta) -> &'static str {
    for n in ["m0", "m1", "m2", "m3"] {
        if meta_of(n).as_ref() == Some(m) {
            return n;
        }
    }
    "m?"
}

fn io_kind_name(k: std::io::ErrorKind) -> String {
    format!("{:?}", k)
}

fn validation_name(k: &ValidationErrorKind) -> &'static str {
    match k {
        ValidationErrorKind::BlobKeySize => "BlobKeySize",
        ValidationErrorKind::BlobMagicByte => "BlobMagicByte",
        ValidationErrorKind::BlobVersion => "BlobVersion",
        ValidationErrorKind::IndexChecksum => "IndexChecksum",
        ValidationErrorKind::IndexVersion => "IndexVersion",
        ValidationErrorKind::IndexKeySize => "IndexKeySize",
        ValidationErrorKind::IndexMagicByte => "IndexMagicByte",
        ValidationErrorKind::RecordDataChecksum => "RecordDataChecksum",
        ValidationErrorKind::RecordHeaderChecksum => "RecordHeaderChecksum",
        ValidationErrorKind::RecordMagicByte => "RecordMagicByte",
        ValidationErrorKind::IndexBlobSize => "IndexBlobSize",
        ValidationErrorKind::IndexNotWritten => "IndexNotWritten",
    }
}

pub fn kind_class(k: &ErrorKind) -> String {
    match k {
        ErrorKind::ActiveBlobNotSet => "ActiveBlobNotSet".into(),
        ErrorKind::WrongConfig => "WrongConfig".into(),
        ErrorKind::Uninitialized => "Uninitialized".into(),
        ErrorKind::WorkDirInUse => "WorkDirInUse".into(),
        ErrorKind::WorkDirUnavailable { io_err_kind, .. } => format!("WorkDirUnavailable:{}", io_kind_name(*io_err_kind)),
        ErrorKind::FileUnavailable(k) => format!("FileUnavailable:{}", io_kind_name(*k)),
        ErrorKind::KeySizeMismatch => "KeySizeMismatch".into(),
        ErrorKind::ActiveBlobDoesntExist => "ActiveBlobDoesntExist".into(),
        ErrorKind::ActiveBlobExists => "ActiveBlobExists".into(),
        ErrorKind::RecordExists => "RecordExists".into(),
        ErrorKind::EmptyIndexBunch => "EmptyIndexBunch".into(),
        ErrorKind::Index(_) => "Index".into(),
        ErrorKind::Bincode(_) => "Bincode".into(),
        ErrorKind::IO(_) => "IO".into(),
        ErrorKind::WrongFileNamePattern(_) => "WrongFileNamePattern".into(),
        ErrorKind::Conversion(_) => "Conversion".into(),
        ErrorKind::Validation { kind, .. } => format!("Validation:{}", validation_name(kind)),
        ErrorKind::Other => "Other".into(),
    }
}

/// Canonical class of an error: the first pearl::Error in the chain, else the first io::Error, else Other
pub fn err_class(e: &anyhow::Error) -> String {
    if let Some(pe) = e.as_pearl_error() {
        return kind_class(pe.kind());
    }
    for cause in e.chain() {
        if let Some(pe) = cause.downcast_ref::<pearl::Error>() {
            return kind_class(pe.kind());
        }
    }
    for cause in e.chain() {
        if let Some(ioe) = cause.downcast_ref::<std::io::Error>() {
            return format!("Io:{}", io_kind_name(ioe.kind()));
        }
    }
    for cause in e.chain() {
        if cause.downcast_ref::<bincode::Error>().is_some() {
            return "BincodeRaw".into();
        }
    }
    "Other".into()
}
