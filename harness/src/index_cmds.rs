//! `idx ...` commands: the crate-private blob index through the H2 probe (cfg pearl_verif).
use crate::storage_cmds::St;
use crate::util::*;
use crate::Ctx;
use pearl::verif::{HeaderView, IndexProbe};
use pearl::{ArrayKey, ReadResult};
use std::collections::HashMap;
use std::sync::Mutex;

// probes live for the duration of one script; keyed by (script dir, id)
static PROBES: Mutex<Option<HashMap<String, Box<dyn std::any::Any + Send>>>> = Mutex::new(None);

fn hv(h: &HeaderView) -> String {
    format!("({},{},{},{},{})", h.timestamp, if h.deleted { 1 } else { 0 }, h.meta_size, h.data_size, h.blob_offset)
}

/// A key whose order is NOT the order of its bytes: N bytes compared as a little-endian number (last byte first).
/// The crate's `Key` trait lets the user define the order; the index must use it everywhere (C09).
#[derive(Debug, Clone, PartialEq, Eq)]
pub struct LeKey<const N: usize>([u8; N]);
#[derive(Debug, PartialEq, Eq)]
pub struct LeRef<'a>(&'a [u8]);
fn le_cmp(a: &[u8], b: &[u8]) -> std::cmp::Ordering {
    a.iter().rev().cmp(b.iter().rev())
}
impl<const N: usize> Default for LeKey<N> { fn default() -> Self { Self([0; N]) } }
impl<const N: usize> AsRef<[u8]> for LeKey<N> { fn as_ref(&self) -> &[u8] { &self.0 } }
impl<const N: usize> AsRef<LeKey<N>> for LeKey<N> { fn as_ref(&self) -> &LeKey<N> { self } }
impl<const N: usize> From<Vec<u8>> for LeKey<N> { fn from(v: Vec<u8>) -> Self { Self(v.try_into().expect("size mismatch")) } }
impl<const N: usize> From<&[u8]> for LeKey<N> { fn from(v: &[u8]) -> Self { Self(v.try_into().expect("size mismatch")) } }
impl<const N: usize> PartialOrd for LeKey<N> { fn partial_cmp(&self, o: &Self) -> Option<std::cmp::Ordering> { Some(self.cmp(o)) } }
impl<const N: usize> Ord for LeKey<N> { fn cmp(&self, o: &Self) -> std::cmp::Ordering { le_cmp(&self.0, &o.0) } }
impl<'a> From<&'a [u8]> for LeRef<'a> { fn from(v: &'a [u8]) -> Self { Self(v) } }
impl<'a> PartialOrd for LeRef<'a> { fn partial_cmp(&self, o: &Self) -> Option<std::cmp::Ordering> { Some(self.cmp(o)) } }
impl<'a> Ord for LeRef<'a> { fn cmp(&self, o: &Self) -> std::cmp::Ordering { le_cmp(self.0, o.0) } }
impl<'a> pearl::RefKey<'a> for LeRef<'a> {}
impl<'a, const N: usize> pearl::Key<'a> for LeKey<N> {
    const LEN: u16 = N as u16;
    const MEM_SIZE: usize = N;
    type Ref = LeRef<'a>;
}

pub async fn cmd_idx<const N: usize>(st: &mut St<N>, ctx: &mut Ctx, args: &[&str]) {
    if st.cfg.key_le {
        cmd_idx_k::<N, LeKey<N>>(st, ctx, args).await
    } else {
        cmd_idx_k::<N, ArrayKey<N>>(st, ctx, args).await
    }
}

async fn cmd_idx_k<const N: usize, KT>(st: &mut St<N>, ctx: &mut Ctx, args: &[&str])
where
    for<'a> KT: pearl::Key<'a> + 'static,
{
    let key_of = |hex: &str| -> KT { KT::from(hex_decode(hex)) };
    let pkey = |id: &str| format!("{}#{}", st.dir.display(), id);
    macro_rules! take {
        ($id:expr) => {{
            let mut g = PROBES.lock().unwrap();
            let m = g.get_or_insert_with(HashMap::new);
            match m.remove(&pkey($id)) {
                Some(b) => match b.downcast::<IndexProbe<KT>>() {
                    Ok(p) => *p,
                    Err(_) => {
                        ctx.emit("HARNESS-ERROR probe type");
                        return;
                    }
                },
                None => {
                    ctx.emit(format!("HARNESS-ERROR no probe {}", $id));
                    return;
                }
            }
        }};
    }
    macro_rules! put {
        ($id:expr, $p:expr) => {{
            let mut g = PROBES.lock().unwrap();
            g.get_or_insert_with(HashMap::new).insert(pkey($id), Box::new($p));
        }};
    }
    match args {
        ["new", id, bloom] => {
            let bc = if *bloom == "none" { None } else { Some(crate::bloom_cmds::config_from_bytes(&hex_decode(bloom))) };
            let p: IndexProbe<KT> = IndexProbe::new(&st.dir, id.parse().unwrap(), bc);
            put!(id, p);
            ctx.emit("idx new");
        }
        ["push", id, key, ts, del, msize, dsize, off] => {
            let p = take!(id);
            let r = p.push(&key_of(key), ts.parse().unwrap(), *del == "1", msize.parse().unwrap(), dsize.parse().unwrap(), off.parse().unwrap());
            put!(id, p);
            ctx.emit(match r { Ok(()) => "idx push ok".to_string(), Err(e) => format!("idx push Err {}", err_class(&e)) });
        }
        ["dump", id, bsize] => {
            let mut p = take!(id);
            let r = p.dump(bsize.parse().unwrap()).await;
            put!(id, p);
            ctx.emit(match r { Ok(n) => format!("idx dump {}", n), Err(e) => format!("idx dump Err {}", err_class(&e)) });
        }
        ["load", id, bsize] => {
            let mut p = take!(id);
            let r = p.load(bsize.parse().unwrap()).await;
            put!(id, p);
            ctx.emit(match r { Ok(()) => "idx load ok".to_string(), Err(e) => format!("idx load Err {}", err_class(&e)) });
        }
        ["open", id, bloom, bsize] => {
            let bc = if *bloom == "none" { None } else { Some(crate::bloom_cmds::config_from_bytes(&hex_decode(bloom))) };
            match IndexProbe::<KT>::open(&st.dir, id.parse().unwrap(), bc, bsize.parse().unwrap()).await {
                Ok(p) => { put!(id, p); ctx.emit("idx open ok"); }
                Err(e) => ctx.emit(format!("idx open Err {}", err_class(&e))),
            }
        }
        ["latest", id, key] => {
            let p = take!(id);
            let r = p.get_latest(&key_of(key)).await;
            put!(id, p);
            ctx.emit(match r {
                Ok(ReadResult::Found(h)) => format!("idx latest Found {}", hv(&h)),
                Ok(ReadResult::Deleted(t)) => format!("idx latest Deleted {}", Into::<u64>::into(t)),
                Ok(ReadResult::NotFound) => "idx latest NotFound".to_string(),
                Err(e) => format!("idx latest Err {}", err_class(&e)),
            });
        }
        ["all", id, key] => {
            let p = take!(id);
            let r = p.get_all_with_deletion_marker(&key_of(key)).await;
            put!(id, p);
            ctx.emit(match r {
                Ok(v) => format!("idx all [{}]", v.iter().map(hv).collect::<Vec<_>>().join(" ")),
                Err(e) => format!("idx all Err {}", err_class(&e)),
            });
        }
        ["count", id] => {
            let p = take!(id);
            let c = p.count();
            let od = p.on_disk();
            put!(id, p);
            ctx.emit(format!("idx count {} ondisk={}", c, if od { 1 } else { 0 }));
        }
        ["filter", id, key] => {
            let p = take!(id);
            let r = p.check_filter(&key_of(key)).await;
            put!(id, p);
            ctx.emit(format!("idx filter {}", match r { pearl::FilterResult::NeedAdditionalCheck => "maybe", pearl::FilterResult::NotContains => "no" }));
        }
        ["offload", id] => {
            let mut p = take!(id);
            let n = p.offload_filter();
            put!(id, p);
            ctx.emit(format!("idx offload {}", if n > 0 { "freed" } else { "0" }));
        }
        ["clear", id] => {
            let mut p = take!(id);
            p.clear();
            put!(id, p);
            ctx.emit("idx clear");
        }
        ["filehex", id] => {
            let path = st.dir.join(format!("probe.{}.index", id));
            match std::fs::read(&path) {
                Ok(mut b) => {
                    // the SHA-256 field (bytes 40..72 of the header) is not modelled: masked
                    if b.len() >= 72 { for x in &mut b[40..72] { *x = 0; } }
                    ctx.emit(format!("idx filehex {}", hex_encode(&b)));
                }
                Err(_) => ctx.emit("idx filehex absent"),
            }
        }
        ["drop", id] => {
            let p = take!(id);
            drop(p);
            ctx.emit("idx drop");
        }
        // damage to the probe's index file (the probe object, if any, should have been dropped before)
        ["cut", id, n] => {
            let path = st.dir.join(format!("probe.{}.index", id));
            let n: u64 = if *n == "last" { std::fs::metadata(&path).map(|m| m.len().saturating_sub(1)).unwrap_or(0) } else { n.parse().unwrap() };
            match std::fs::metadata(&path) {
                Ok(m) if n < m.len() => {
                    let r = std::fs::OpenOptions::new().write(true).open(&path).and_then(|f| f.set_len(n));
                    ctx.emit(format!("idx cut {}", if r.is_ok() { "ok" } else { "absent" }));
                }
                Ok(_) => ctx.emit("idx cut noop"),
                Err(_) => ctx.emit("idx cut absent"),
            }
        }
        ["poke", id, pos, hex] => {
            let path = st.dir.join(format!("probe.{}.index", id));
            let pos: usize = pos.parse().unwrap();
            let bytes = hex_decode(hex);
            match std::fs::read(&path) {
                Ok(mut b) if pos + bytes.len() <= b.len() => {
                    b[pos..pos + bytes.len()].copy_from_slice(&bytes);
                    std::fs::write(&path, b).unwrap();
                    ctx.emit("idx poke ok");
                }
                _ => ctx.emit("idx poke absent"),
            }
        }
        _ => ctx.emit(format!("HARNESS-ERROR bad idx command {:?}", args)),
    }
}
