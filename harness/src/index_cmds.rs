//! `idx ...` commands: the crate-private blob index through the H2 probe (cfg pearl_verif).
use crate::storage_cmds::St;
use crate::Ctx;

pub async fn cmd_idx<const N: usize>(_st: &mut St<N>, ctx: &mut Ctx, args: &[&str]) {
    ctx.emit(format!("HARNESS-ERROR idx not implemented {:?}", args));
}
