(* C06 Crash recovery: acknowledged records are served or recoverable, never wrong. Statements only. *)
Require Import Pearl.Base.Prelude Pearl.Base.LE Pearl.Generated.Consts Pearl.Format.Record Pearl.Blob.Scan
               Pearl.Blob.ScanBasics Pearl.Blob.ScanProofs.

Require Pearl.Generated.Facts.
Require Pearl.Storage.Model Pearl.Storage.Spec Pearl.Storage.Inv Pearl.Storage.InvProofs Pearl.Storage.WorkerProofs
        Pearl.Storage.Theorems Pearl.Storage.CrashProofs.
(* THE theorem: for EVERY well-formed blob (any number of records, any key length K, any metadata and data of any size) and EVERY byte length n at which the file may be cut by a crash, the exact outcome of opening the first n bytes (Blob::from_file + index regeneration scan), in BOTH validation modes: a prefix of the records exactly at record boundaries; EBincode when the cut is inside the blob header; and EBincode when the cut is anywhere strictly inside a record -- header, metadata or data alike. EBincode = the blob is moved to the corrupted blobs (quarantine). Before commit 865f94b of the code a record whose header was complete but whose metadata/data was cut was ACCEPTED whenever its data was not read back (validation off, or empty data): finding F6. *)
Theorem C06_scan_every_prefix :
  forall K rs n v, wf_recs K rs -> (n <= length (blob_bytes rs))%nat ->
  let r := blob_open_scan (firstn n (blob_bytes rs)) K v in
  ((n < 20)%nat /\ r = RFail EBincode)
  \/ (exists j, (j <= length rs)%nat /\ n = boundary rs j /\ r = ROk (firstn j (blob_hdrs rs)))
  \/ (exists j, (j < length rs)%nat /\
        (boundary rs j < n)%nat /\ (n < boundary rs (S j))%nat /\ r = RFail EBincode).
Proof. exact scan_prefix_exact. Qed.

(* an untouched blob is served in full *)
Theorem C06_scan_complete :
  forall K rs validate, wf_recs K rs ->
  blob_open_scan (blob_bytes rs) K validate = ROk (blob_hdrs rs).
Proof. exact scan_complete. Qed.

(* a truncated blob is served or quarantined; it never makes init fail *)
Theorem C06_truncation_never_fails_init :
  forall K rs n v, wf_recs K rs -> (n <= length (blob_bytes rs))%nat ->
  dispose (blob_open_scan (firstn n (blob_bytes rs)) K v) <> DInitFails.
Proof. exact scan_prefix_disposition. Qed.

(* in both validation modes, and also with empty-data records, the blob is served exactly when the cut is at a record boundary *)
Theorem C06_served_iff_boundary :
  forall K rs n v, wf_recs K rs -> (n <= length (blob_bytes rs))%nat ->
  (dispose (blob_open_scan (firstn n (blob_bytes rs)) K v) = DServed <->
   exists j, (j <= length rs)%nat /\ n = boundary rs j).
Proof. exact scan_prefix_served_iff_boundary. Qed.

Theorem C06_only_version_fails_init :
  forall r : res (list header), dispose r = DInitFails <-> r = RFail EBlobVersion.
Proof. exact only_version_fails_init. Qed.

(* computed examples, by kernel computation, on the data that witnessed finding F6: a file cut inside the data of its tail record is rejected (quarantined) with and without data validation; so is a file cut inside the metadata of a record with EMPTY data (every deletion marker), which used to be indexed even with validation *)
Theorem C06_torn_record_rejected :
  blob_open_scan f6_cut 4 false = RFail EBincode /\ blob_open_scan f6_cut 4 true = RFail EBincode.
Proof. exact f6_torn_record_rejected. Qed.
Theorem C06_torn_empty_record_rejected :
  (length z_cut < length (blob_bytes z_recs))%nat /\
  blob_open_scan z_cut 4 true = RFail EBincode /\ blob_open_scan z_cut 4 false = RFail EBincode.
Proof. exact empty_data_torn_meta_rejected. Qed.

(* ---- structural facts re-extracted from the Rust source on every run (tools/extract_src.py, Generated/Facts.v):
   the orderings inside the code that the models used above assume. A change of the code that invalidates one turns
   the generated boolean into `false` and this file no longer compiles. ---- *)
(* Blob/Scan.v `dispose`: which failures quarantine a blob and which make init fail *)
Theorem C06_source_quarantine_rule : Pearl.Generated.Facts.QUARANTINE_RULE = true.
Proof. reflexivity. Qed.
(* a short read during the scan is the quarantining error class *)
Theorem C06_source_scan_maps_eof : Pearl.Generated.Facts.SCAN_MAPS_EOF_TO_BINCODE = true.
Proof. reflexivity. Qed.
(* Blob/Scan.v scan_loop checks cur1 + data_size against the file length after the meta size was added and before the data is read *)
Theorem C06_source_scan_checks_record_end : Pearl.Generated.Facts.SCAN_CHECKS_RECORD_END = true.
Proof. reflexivity. Qed.
(* an index file older than its blob is never trusted after a crash *)
Theorem C06_source_index_size_must_be_equal : Pearl.Generated.Facts.INDEX_BLOB_SIZE_MUST_BE_EQUAL = true.
Proof. reflexivity. Qed.

(* ================= the storage level: a blob file cut by a crash, in the L3 model =================
   The byte-level theorems above say what opening a cut blob FILE gives. The L3 model (Storage/Model.v) takes the two
   outcomes as the operation `OCut id keep` between two sessions: keep = Some j, the file ends behind its j-th record
   (C06_scan_every_prefix, second case: exactly the records in front of the cut are served); keep = None, it ends inside a
   record or inside the blob header (first and third case: EBincode, the file is moved to the corrupted directory).
   `cut_applies` (part of cut_blob / cut_log): a crash loses only bytes that were not synced; Blob::dump syncs the blob
   before it writes the index file, so a boundary cut never goes below the size an index file of the blob records. *)
Section StorageLevel.
Import Pearl.Storage.Model Pearl.Storage.Spec Pearl.Storage.Inv Pearl.Storage.InvProofs Pearl.Storage.WorkerProofs
       Pearl.Storage.Theorems Pearl.Storage.CrashProofs.

(* (a) cut at a record boundary: after  end of session (close or drop); cut; start (eager or lazy)  the log is the log of
   the files the session left, the file of blob `id` reduced to its first j records ... *)
Theorem C06_cut_boundary_restart :
  forall (K : N) (cfg : config) (ops : list op) (e : op) (id : N) (j : nat) (lazy : bool),
    s_open (reach K cfg ops) = true -> ends_session e ->
    abs (reach K cfg (ops ++ [e; OCut id (Some j); OOpen lazy])) = cut_log K id j (files_left K e (reach K cfg ops)).
Proof. exact cut_boundary_restart. Qed.

Theorem C06_cut_blob_records :
  forall (K id : N) (j : nat) (b : blob),
    b_recs (cut_blob K id j b) = if (b_id b =? id) && cut_applies K j b then firstn j (b_recs b) else b_recs b.
Proof. exact cut_blob_recs. Qed.

(* ... every read answers from that log ... *)
Theorem C06_cut_boundary_reads :
  forall (K : N) (cfg : config) (ops : list op) (e : op) (id : N) (j : nat) (lazy : bool) (k : N),
    s_open (reach K cfg ops) = true -> ends_session e ->
    get_latest_entry (reach K cfg (ops ++ [e; OCut id (Some j); OOpen lazy])) k None
    = spec_read (cut_log K id j (files_left K e (reach K cfg ops))) k.
Proof. exact cut_boundary_reads. Qed.

(* ... and a key that has no record in blob `id` reads exactly as before the crash *)
Theorem C06_cut_boundary_other_keys :
  forall (K : N) (cfg : config) (ops : list op) (e : op) (id : N) (j : nat) (lazy : bool) (k : N),
    s_open (reach K cfg ops) = true -> ends_session e ->
    (forall b, In b (blobs_in_order (reach K cfg ops)) -> b_id b = id -> of_key k (b_recs b) = []) ->
    get_latest_entry (reach K cfg (ops ++ [e; OCut id (Some j); OOpen lazy])) k None
    = get_latest_entry (reach K cfg ops) k None.
Proof. exact cut_boundary_other_keys. Qed.

(* (b) cut inside a record: the next start moves the file to the corrupted directory; the log is the old log without
   the records of that blob, every other blob keeps all its records, the counter of corrupted blobs grows by one, and
   no blob of that or of any later state has the id *)
Theorem C06_cut_inside_quarantines :
  forall (K : N) (cfg : config) (ops : list op) (e : op) (id : N) (lazy : bool),
    let s := reach K cfg ops in
    let s' := reach K cfg (ops ++ [e; OCut id None; OOpen lazy]) in
    s_open s = true -> ends_session e -> (exists b, In b (blobs_in_order s) /\ b_id b = id) ->
    s_quar s' = s_quar s ++ [id] /\
    s_corrupted s' = s_corrupted s + 1 /\
    abs s' = flat_map b_recs (without id (blobs_in_order s)) /\
    (forall b, In b (blobs_in_order s) -> b_id b <> id ->
       exists b', In b' (blobs_in_order s') /\ b_id b' = b_id b /\ b_recs b' = b_recs b) /\
    id < s_next s' /\
    (forall ops2 b', In b' (blobs_in_order (reach K cfg ((ops ++ [e; OCut id None; OOpen lazy]) ++ ops2))) -> b_id b' <> id).
Proof. exact cut_inside_quarantines. Qed.

(* whatever happened before (any damage, any number of times), `open` makes the log the records of the blob files that
   can be read back *)
Theorem C06_open_serves_the_readable_files :
  forall (K : N) (cfg : config) (ops : list op) (lazy : bool),
    abs (reach K cfg (ops ++ [OOpen lazy])) = readable_log (reach K cfg ops).
Proof. exact reach_open_abs. Qed.

(* (c) every blob file unreadable: an eager start creates a fresh active blob with an id above every id of both
   directories; a lazy start has no blob at all, and the start after it (init_new on the empty work directory) does
   the same *)
Theorem C06_all_quarantined_eager :
  forall (K : N) (cfg : config) (ops : list op),
    let s := reach K cfg ops in
    let s' := reach K cfg (ops ++ [OOpen false]) in
    s_open s = false -> closed_blobs s <> [] -> (forall b, In b (closed_blobs s) -> In (b_id b) (s_bad s)) ->
    exists n, s_active s' = Some (new_blob n) /\ s_closed s' = [] /\ s_next s' = n + 1 /\
              s_quar s' = s_quar s ++ map b_id (closed_blobs s) /\
              (forall q, In q (s_quar s') -> q < n) /\
              s_corrupted s' = N.of_nat (length (s_quar s')) /\ abs s' = [].
Proof. exact all_quarantined_eager. Qed.

Theorem C06_all_quarantined_lazy :
  forall (K : N) (cfg : config) (ops : list op),
    let s := reach K cfg ops in
    let s' := reach K cfg (ops ++ [OOpen true]) in
    s_open s = false -> closed_blobs s <> [] -> (forall b, In b (closed_blobs s) -> In (b_id b) (s_bad s)) ->
    s_active s' = None /\ s_closed s' = [] /\ s_open s' = true /\
    s_quar s' = s_quar s ++ map b_id (closed_blobs s) /\
    (forall q, In q (s_quar s') -> q < s_next s') /\
    s_corrupted s' = N.of_nat (length (s_quar s')).
Proof. exact all_quarantined_lazy. Qed.

Theorem C06_all_quarantined_lazy_restart :
  forall (K : N) (cfg : config) (ops : list op) (e : op) (lazy2 : bool),
    let s := reach K cfg ops in
    let s' := reach K cfg (ops ++ [OOpen true]) in
    let s'' := reach K cfg ((ops ++ [OOpen true]) ++ [e; OOpen lazy2]) in
    s_open s = false -> closed_blobs s <> [] -> (forall b, In b (closed_blobs s) -> In (b_id b) (s_bad s)) ->
    ends_session e ->
    exists n, s_active s'' = Some (new_blob n) /\ s_closed s'' = [] /\ s_next s'' = n + 1 /\
              s_quar s'' = s_quar s' /\ (forall q, In q (s_quar s'') -> q < n) /\
              s_corrupted s'' = N.of_nat (length (s_quar s'')).
Proof. exact all_quarantined_lazy_restart. Qed.

(* (d) after EVERY history, crash damage at any place included: the invariant, the reads, the worker, the writes *)
Theorem C06_invariant_after_crash_damage :
  forall (K : N) (cfg : config) (ops1 : list op) (id : N) (keep : option nat) (ops2 : list op),
    Inv K (reach K cfg (ops1 ++ OCut id keep :: ops2)).
Proof. exact crash_history_Inv. Qed.

Theorem C06_reads_after_crash_damage :
  forall (K : N) (cfg : config) (ops1 : list op) (id : N) (keep : option nat) (ops2 : list op) (k : N),
    get_latest_entry (reach K cfg (ops1 ++ OCut id keep :: ops2)) k None
    = spec_read (abs (reach K cfg (ops1 ++ OCut id keep :: ops2))) k.
Proof. exact crash_history_read_latest. Qed.

Theorem C06_never_index_error_after_crash_damage :
  forall (K : N) (cfg : config) (ops1 : list op) (id : N) (keep : option nat) (ops2 : list op),
    s_f2 (reach K cfg (ops1 ++ OCut id keep :: ops2)) = false.
Proof. exact crash_history_never_f2. Qed.

Theorem C06_worker_alive_after_crash_damage :
  forall (K : N) (cfg : config) (ops1 : list op) (id : N) (keep : option nat) (ops2 : list op),
    s_open (reach K cfg (ops1 ++ OCut id keep :: ops2)) = true -> s_alive (reach K cfg (ops1 ++ OCut id keep :: ops2)) = true.
Proof. exact crash_history_alive. Qed.

Theorem C06_writable_after_crash_damage :
  forall (K : N) (cfg : config) (ops1 : list op) (id : N) (keep : option nat) (ops2 : list op)
         (k ts : N) (meta : option N) (msize dlen dseed : N),
    s_open (reach K cfg (ops1 ++ OCut id keep :: ops2)) = true ->
    snd (step K cfg (reach K cfg (ops1 ++ OCut id keep :: ops2)) (OWrite k ts meta msize dlen dseed)) = RUnit.
Proof. exact crash_history_writable. Qed.

(* computed, on concrete histories (Storage/CrashProofs.v: x_hist_a, x_hist_b, x_hist_c) *)
Theorem C06_quarantine_computed :
  let s := reach 4 x_cfg x_hist_b in
  x_ids s = [1] /\ x_keys s = [2] /\ s_quar s = [0] /\ s_corrupted s = 1 /\ s_next s = 2 /\ s_bad s = [] /\
  get_latest_entry s 1 None = NotFound /\ is_found (get_latest_entry s 2 None) = true /\
  counts s = RCounts 1 [(1, 1)] (Some 1) 1 2 1 true /\
  x_ids (reach 4 x_cfg (x_hist_b ++ [OForceUpdate 0])) = [1; 2] /\
  s_quar (reach 4 x_cfg (x_hist_b ++ [OForceUpdate 0; OClose; OOpen true])) = [0].
Proof. exact quarantine_computed. Qed.

Theorem C06_all_quarantined_computed :
  let se := reach 4 x_cfg (x_hist_c ++ [OOpen false]) in
  let sl := reach 4 x_cfg (x_hist_c ++ [OOpen true]) in
  let sr := reach 4 x_cfg (x_hist_c ++ [OOpen true; OClose; OOpen false]) in
  s_bad (reach 4 x_cfg x_hist_c) = [0] /\
  (s_active se = Some (new_blob 1) /\ s_closed se = [] /\ s_next se = 2 /\ s_quar se = [0] /\ s_corrupted se = 1) /\
  (s_active sl = None /\ s_closed sl = [] /\ s_next sl = 1 /\ s_quar sl = [0] /\ s_corrupted sl = 1) /\
  (s_active sr = Some (new_blob 1) /\ s_closed sr = [] /\ s_next sr = 2 /\ s_quar sr = [0] /\ s_corrupted sr = 1).
Proof. exact all_quarantined_computed. Qed.

Theorem C06_cut_boundary_computed :
  x_keys (reach 4 x_cfg (x_hist_a ODrop)) = [1] /\
  get_latest_entry (reach 4 x_cfg (x_hist_a ODrop)) 2 None = NotFound /\
  is_found (get_latest_entry (reach 4 x_cfg (x_hist_a ODrop)) 1 None) = true /\
  x_keys (reach 4 x_cfg (x_hist_a OClose)) = [1; 2].
Proof. exact cut_boundary_computed. Qed.

(* OUTSIDE the crash model (why cut_applies is there): a cut below the size an index file records -- the loss of synced
   bytes -- leaves a stale index file on disk (a regenerated index does not remove it); a later coincidence of sizes
   makes a later start trust it: an acknowledged record is not found, a lost one is *)
Theorem C06_cut_below_index_breaks_reads :
  let s1 := reach 4 x_cfg [OOpen false; OWrite 1 7 None 8 5 1; OWrite 2 8 None 8 5 2; OClose] in
  let s3 := fst (run 4 x_cfg (raw_cut 0 1 s1) [OOpen false; OWrite 3 9 None 8 5 3; ODrop; OOpen false]) in
  x_keys s3 = [1; 3] /\
  get_latest_entry s3 3 None = NotFound /\ spec_read (abs s3) 3 <> NotFound /\
  is_found (get_latest_entry s3 2 None) = true /\ spec_read (abs s3) 2 = NotFound.
Proof. exact cut_below_index_breaks_reads. Qed.
End StorageLevel.

Print Assumptions C06_scan_every_prefix.
Print Assumptions C06_scan_complete.
Print Assumptions C06_truncation_never_fails_init.
Print Assumptions C06_served_iff_boundary.
Print Assumptions C06_only_version_fails_init.
Print Assumptions C06_torn_record_rejected.
Print Assumptions C06_torn_empty_record_rejected.
Print Assumptions C06_source_scan_checks_record_end.
Print Assumptions C06_source_index_size_must_be_equal.
Print Assumptions C06_cut_boundary_restart.
Print Assumptions C06_cut_blob_records.
Print Assumptions C06_cut_boundary_reads.
Print Assumptions C06_cut_boundary_other_keys.
Print Assumptions C06_cut_inside_quarantines.
Print Assumptions C06_open_serves_the_readable_files.
Print Assumptions C06_all_quarantined_eager.
Print Assumptions C06_all_quarantined_lazy.
Print Assumptions C06_all_quarantined_lazy_restart.
Print Assumptions C06_invariant_after_crash_damage.
Print Assumptions C06_reads_after_crash_damage.
Print Assumptions C06_never_index_error_after_crash_damage.
Print Assumptions C06_worker_alive_after_crash_damage.
Print Assumptions C06_writable_after_crash_damage.
Print Assumptions C06_quarantine_computed.
Print Assumptions C06_all_quarantined_computed.
Print Assumptions C06_cut_boundary_computed.
Print Assumptions C06_cut_below_index_breaks_reads.
Print Assumptions C06_source_quarantine_rule.
Print Assumptions C06_source_scan_maps_eof.
