(* C06 Crash recovery: acknowledged records are served or recoverable, never wrong. Statements only. *)
Require Import Pearl.Base.Prelude Pearl.Base.LE Pearl.Generated.Consts Pearl.Format.Record Pearl.Blob.Scan
               Pearl.Blob.ScanBasics Pearl.Blob.ScanProofs.

Require Pearl.Generated.Facts.
(* THE theorem: for EVERY well-formed blob (any number of records, any key length K, any metadata and data of any size) and EVERY byte length n at which the file may be cut by a crash, the exact outcome of opening the first n bytes (Blob::from_file + index regeneration scan), in BOTH validation modes: a prefix of the records exactly at record boundaries; EBincode when the cut is inside the blob header; and EBincode when the cut is anywhere strictly inside a record -- header, metadata or data alike. EBincode = the blob is moved to the corrupted blobs (quarantine). Before commit 865f94b of the code a record whose header was complete but whose metadata/data was cut was ACCEPTED whenever its data was not read back (validation off, or empty data): finding F6. *)
Theorem C06_scan_every_prefix :
  forall K rs n v, wf_recs K rs -> (n <= length (blob_bytes rs))%nat ->
  let r := blob_open_scan (firstn n (blob_bytes rs)) K v in
  ((n < 20)%nat /\ r = RFail EBincode)
  \/ (exists j, (j <= length rs)%nat /\ n = boundary rs j /\ r = ROk (firstn j (blob_hdrs rs)))
  \/ (exists j, (j < length rs)%nat /\
        (boundary rs j < n)%nat /\ (n < boundary rs (S j))%nat /\ r = RFail EBincode).
Proof. exact scan_prefix_exact. Qed.

(* an untouched blob is served in full *)
Theorem C06_scan_complete :
  forall K rs validate, wf_recs K rs ->
  blob_open_scan (blob_bytes rs) K validate = ROk (blob_hdrs rs).
Proof. exact scan_complete. Qed.

(* a truncated blob is served or quarantined; it never makes init fail *)
Theorem C06_truncation_never_fails_init :
  forall K rs n v, wf_recs K rs -> (n <= length (blob_bytes rs))%nat ->
  dispose (blob_open_scan (firstn n (blob_bytes rs)) K v) <> DInitFails.
Proof. exact scan_prefix_disposition. Qed.

(* in both validation modes, and also with empty-data records, the blob is served exactly when the cut is at a record boundary *)
Theorem C06_served_iff_boundary :
  forall K rs n v, wf_recs K rs -> (n <= length (blob_bytes rs))%nat ->
  (dispose (blob_open_scan (firstn n (blob_bytes rs)) K v) = DServed <->
   exists j, (j <= length rs)%nat /\ n = boundary rs j).
Proof. exact scan_prefix_served_iff_boundary. Qed.

Theorem C06_only_version_fails_init :
  forall r : res (list header), dispose r = DInitFails <-> r = RFail EBlobVersion.
Proof. exact only_version_fails_init. Qed.

(* computed examples, by kernel computation, on the data that witnessed finding F6: a file cut inside the data of its tail record is rejected (quarantined) with and without data validation; so is a file cut inside the metadata of a record with EMPTY data (every deletion marker), which used to be indexed even with validation *)
Theorem C06_torn_record_rejected :
  blob_open_scan f6_cut 4 false = RFail EBincode /\ blob_open_scan f6_cut 4 true = RFail EBincode.
Proof. exact f6_torn_record_rejected. Qed.
Theorem C06_torn_empty_record_rejected :
  (length z_cut < length (blob_bytes z_recs))%nat /\
  blob_open_scan z_cut 4 true = RFail EBincode /\ blob_open_scan z_cut 4 false = RFail EBincode.
Proof. exact empty_data_torn_meta_rejected. Qed.

(* ---- structural facts re-extracted from the Rust source on every run (tools/extract_src.py, Generated/Facts.v):
   the orderings inside the code that the models used above assume. A change of the code that invalidates one turns
   the generated boolean into `false` and this file no longer compiles. ---- *)
(* Blob/Scan.v scan_loop checks cur1 + data_size against the file length after the meta size was added and before the data is read *)
Theorem C06_source_scan_checks_record_end : Pearl.Generated.Facts.SCAN_CHECKS_RECORD_END = true.
Proof. reflexivity. Qed.
(* an index file older than its blob is never trusted after a crash *)
Theorem C06_source_index_size_must_be_equal : Pearl.Generated.Facts.INDEX_BLOB_SIZE_MUST_BE_EQUAL = true.
Proof. reflexivity. Qed.

Print Assumptions C06_scan_every_prefix.
Print Assumptions C06_scan_complete.
Print Assumptions C06_truncation_never_fails_init.
Print Assumptions C06_served_iff_boundary.
Print Assumptions C06_only_version_fails_init.
Print Assumptions C06_torn_record_rejected.
Print Assumptions C06_torn_empty_record_rejected.
Print Assumptions C06_source_scan_checks_record_end.
Print Assumptions C06_source_index_size_must_be_equal.
