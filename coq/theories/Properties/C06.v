(* C06 Crash recovery: acknowledged records are served or recoverable, never wrong. Statements only. *)
Require Import Pearl.Base.Prelude Pearl.Base.LE Pearl.Generated.Consts Pearl.Format.Record Pearl.Blob.Scan
               Pearl.Blob.ScanBasics Pearl.Blob.ScanProofs.

(* THE theorem: for EVERY well-formed blob (any number of records, any key length K, any metadata and data of any size) and EVERY byte length n at which the file may be cut by a crash, the exact outcome of opening the first n bytes (Blob::from_file + index regeneration scan, with or without data validation): a prefix of the records exactly at record boundaries; EBincode (= quarantine) when the cut is inside a record header or the blob header; and, when the cut is inside the meta/data of a record whose header is complete, the record is ACCEPTED iff its data is not read back (validation off, or empty data) -- finding F6 -- else EBincode. *)
Theorem C06_scan_every_prefix :
  forall K rs n v, wf_recs K rs -> (n <= length (blob_bytes rs))%nat ->
  let r := blob_open_scan (firstn n (blob_bytes rs)) K v in
  ((n < 20)%nat /\ r = RFail EBincode)
  \/ (exists j, (j <= length rs)%nat /\ n = boundary rs j /\ r = ROk (firstn j (blob_hdrs rs)))
  \/ (exists j x, nth_error rs j = Some x /\
        (boundary rs j + 57 + N.to_nat K <= n)%nat /\ (n < boundary rs (S j))%nat /\
        r = if torn_ok v x then ROk (firstn (S j) (blob_hdrs rs)) else RFail EBincode)
  \/ (exists j, (j < length rs)%nat /\
        (boundary rs j < n)%nat /\ (n < boundary rs j + 57 + N.to_nat K)%nat /\ r = RFail EBincode).
Proof. exact scan_prefix_exact. Qed.

(* an untouched blob is served in full *)
Theorem C06_scan_complete :
  forall K rs validate, wf_recs K rs ->
  blob_open_scan (blob_bytes rs) K validate = ROk (blob_hdrs rs).
Proof. exact scan_complete. Qed.

(* a truncated blob is served or quarantined; it never makes init fail *)
Theorem C06_truncation_never_fails_init :
  forall K rs n v, wf_recs K rs -> (n <= length (blob_bytes rs))%nat ->
  dispose (blob_open_scan (firstn n (blob_bytes rs)) K v) <> DInitFails.
Proof. exact scan_prefix_disposition. Qed.

(* with data validation on and no empty-data record, the blob is served exactly when the cut is at a record boundary *)
Theorem C06_served_iff_boundary :
  forall K rs n, wf_recs K rs -> (n <= length (blob_bytes rs))%nat ->
  Forall (fun x => rdata x <> []) rs ->
  (dispose (blob_open_scan (firstn n (blob_bytes rs)) K true) = DServed <->
   exists j, (j <= length rs)%nat /\ n = boundary rs j).
Proof. exact scan_prefix_served_iff_boundary. Qed.

Theorem C06_only_version_fails_init :
  forall r : res (list header), dispose r = DInitFails <-> r = RFail EBlobVersion.
Proof. exact only_version_fails_init. Qed.

(* REFUTATION witnesses (finding F6), by kernel computation: a torn tail record is indexed without data
   validation, and even WITH validation when its data is empty (every deletion marker) *)
Theorem C06_torn_record_indexed_refuted :
  blob_open_scan f6_cut 4 false = ROk (blob_hdrs f6_recs).
Proof. exact f6_torn_record_indexed. Qed.
Theorem C06_torn_empty_record_indexed_with_validation_refuted :
  (length z_cut < length (blob_bytes z_recs))%nat /\
  blob_open_scan z_cut 4 true = ROk (blob_hdrs z_recs) /\
  entry_load z_cut (nth 0 (blob_hdrs z_recs) (new_header [] 0 [] [])) = RFail EBincode.
Proof. exact empty_data_torn_meta_indexed_with_validation. Qed.

Print Assumptions C06_scan_every_prefix.
Print Assumptions C06_scan_complete.
Print Assumptions C06_truncation_never_fails_init.
Print Assumptions C06_served_iff_boundary.
Print Assumptions C06_only_version_fails_init.
