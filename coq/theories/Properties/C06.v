(* C06 Crash recovery. Statements only; the scan-prefix theorems (Blob/ScanProofs.v) are added when proved. *)
Require Import Pearl.Base.Prelude Pearl.Base.LE Pearl.Generated.Consts Pearl.Format.Record Pearl.Blob.Scan Pearl.Blob.ScanBasics.

(* classification of open failures: only a blob-version mismatch makes init fail; every deserialisation
   (unexpected EOF) or validation error sends the blob to quarantine *)
Theorem C06_only_version_fails_init :
  forall r : res (list header), dispose r = DInitFails <-> r = RFail EBlobVersion.
Proof. exact only_version_fails_init. Qed.

(* files shorter than the blob header are quarantined, for every content *)
Theorem C06_short_file_quarantined :
  forall (b : bytes) (K : N) (validate : bool), (length b < 20)%nat -> blob_open_scan b K validate = RFail EBincode.
Proof. exact short_file_quarantined. Qed.

Print Assumptions C06_only_version_fails_init.
Print Assumptions C06_short_file_quarantined.
