(* C16 Offline tools validate exactly well-formed files and recover without loss. Statements only. *)
Require Import Pearl.Base.Prelude Pearl.Base.LE Pearl.Generated.Consts Pearl.Format.Record Pearl.Storage.Model
               Pearl.Blob.Bytes Pearl.Blob.Scan Pearl.Blob.ScanProofs Pearl.Blob.ToolsProofs.

Definition c16_meta_ok (m : bytes) : bool := forallb (fun x => x =? 0) m.
Definition c16_recs : list Pearl.Storage.Model.rec :=
  [mk_rec 16 7 false None 8 5 1; mk_rec 17 7 false None 8 40 2; mk_rec 18 7 false None 8 5 3].
Definition c16_blob : bytes := blob_file_bytes 4 c16_recs.
Definition flip_at (b : bytes) (pos : nat) : bytes := firstn pos b ++ [N.lxor (nth pos b 0) 1] ++ skipn (S pos) b.

(* the tools model accepts a blob the storage model produces and rejects it once a data byte is flipped or
   it is cut inside a record (conformance examples; the general statements are in Blob/ToolsProofs.v) *)
Theorem C16_accepts_produced_blob : tool_validate_blob c16_meta_ok c16_blob = true.
Proof. vm_compute. reflexivity. Qed.
Theorem C16_rejects_flipped_data : tool_validate_blob c16_meta_ok (flip_at c16_blob 170) = false.
Proof. vm_compute. reflexivity. Qed.
Theorem C16_rejects_cut_record : tool_validate_blob c16_meta_ok (firstn 150 c16_blob) = false.
Proof. vm_compute. reflexivity. Qed.

(* recovery of the flipped blob with skipping keeps records 1 and 3 and the result validates ... *)
Theorem C16_recovery_validates :
  match tool_recover c16_meta_ok (flip_at c16_blob 170) true with
  | Some out => tool_validate_blob c16_meta_ok out = true /\ length out = 168%nat
  | None => False
  end.
Proof. vm_compute. split; reflexivity. Qed.

(* ... and the storage reads records 1 and 3 from it with their original bytes: the scan that regenerates the index
   returns two headers, record 3's header carries its NEW blob_offset 94 (it was at 203, behind the damaged record),
   Entry::load succeeds through both, and the recovered file is byte for byte the blob the storage writes for
   records 1 and 3 alone. Before commit 34bfd5d of the code (BlobWriter::write_record stamps the output position)
   this was REFUTED (finding F7): the header was copied verbatim, record 3 kept its old offset and was unreadable. *)
Definition c16_kept : list Pearl.Storage.Model.rec := [mk_rec 16 7 false None 8 5 1; mk_rec 18 7 false None 8 5 3].
Theorem C16_recovered_records_readable :
  match tool_recover c16_meta_ok (flip_at c16_blob 170) true with
  | Some out =>
    match blob_open_scan out 4 false with
    | ROk [h1; h3] => entry_load out h1 = ROk (meta_bytes 0, gen_data 1 5) /\
                      entry_load out h3 = ROk (meta_bytes 0, gen_data 3 5) /\
                      h_off h1 = 20 /\ h_off h3 = 94 /\
                      [h1; h3] = blob_headers 4 c16_kept /\ out = blob_file_bytes 4 c16_kept
    | _ => False
    end
  | None => False
  end.
Proof. vm_compute. repeat split; reflexivity. Qed.

(* a record whose METADATA does not decode (here: the middle record carries the map {"v": "1"}, which c16_meta_ok
   rejects) is stepped over like a record with a wrong data checksum: without skipping only record 1 survives,
   with skipping records 1 and 3 do, and the storage reads both from the recovered file *)
Definition c16m_recs : list Pearl.Storage.Model.rec :=
  [mk_rec 16 7 false None 8 5 1; mk_rec 17 7 false (Some 1) 8 40 2; mk_rec 18 7 false None 8 5 3].
Definition c16m_blob : bytes := blob_file_bytes 4 c16m_recs.
Example C16_recovery_skips_undecodable_meta :
  map (fun r => c16_meta_ok (meta_bytes (r_meta r))) c16m_recs = [true; false; true] /\
  tool_validate_blob c16_meta_ok c16m_blob = false /\
  tool_recover c16_meta_ok c16m_blob false = Some (blob_file_bytes 4 [mk_rec 16 7 false None 8 5 1]) /\
  match tool_recover c16_meta_ok c16m_blob true with
  | Some out =>
    tool_validate_blob c16_meta_ok out = true /\ length out = 168%nat /\
    match blob_open_scan out 4 false with
    | ROk [h1; h3] => entry_load out h1 = ROk (meta_bytes 0, gen_data 1 5) /\
                      entry_load out h3 = ROk (meta_bytes 0, gen_data 3 5) /\
                      h_off h1 = 20 /\ h_off h3 = 94 /\
                      [h1; h3] = blob_headers 4 c16_kept /\ out = blob_file_bytes 4 c16_kept
    | _ => False
    end
  | None => False
  end.
Proof. vm_compute. repeat split; reflexivity. Qed.

(* the writer's stamp: the header written carries the given position; a right header checksum stays right;
   a header already at its position is written unchanged; no other field changes *)
Theorem C16_stamp_off : forall h o, h_off (stamp h o) = o.
Proof. exact stamp_off. Qed.
Theorem C16_stamp_crc : forall h o, h_hcrc h = header_crc h -> h_hcrc (stamp h o) = header_crc (stamp h o).
Proof. exact stamp_crc. Qed.
Theorem C16_stamp_same : forall h o, h_off h = o -> stamp h o = h.
Proof. exact stamp_same. Qed.
Theorem C16_stamp_other_fields : forall h o,
  h_magic (stamp h o) = h_magic h /\ h_key (stamp h o) = h_key h /\ h_msize (stamp h o) = h_msize h /\
  h_dsize (stamp h o) = h_dsize h /\ h_flags (stamp h o) = h_flags h /\ h_ts (stamp h o) = h_ts h /\
  h_dcrc (stamp h o) = h_dcrc h.
Proof. exact stamp_other_fields. Qed.
Theorem C16_stamp_valid : forall h o, validate_header h = None -> validate_header (stamp h o) = None.
Proof. exact stamp_valid. Qed.

Print Assumptions C16_accepts_produced_blob.
Print Assumptions C16_rejects_flipped_data.
Print Assumptions C16_rejects_cut_record.
Print Assumptions C16_recovery_validates.
Print Assumptions C16_recovered_records_readable.
Print Assumptions C16_recovery_skips_undecodable_meta.
Print Assumptions C16_stamp_off.
Print Assumptions C16_stamp_crc.
Print Assumptions C16_stamp_same.
Print Assumptions C16_stamp_other_fields.
Print Assumptions C16_stamp_valid.

(* ---- general theorems over every well-formed blob (Blob/ToolsProofs.v; `rec` there is (key, ts, meta, data)) ---- *)
Section General.
Variable meta_ok : bytes -> bool.   (* any decidable notion of decodable metadata *)
(* validate_blob accepts a byte-prefix of a blob EXACTLY when the cut is at a record boundary: every produced blob is accepted, every truncation elsewhere is rejected *)
Theorem C16_validate_accepts_exactly_record_boundaries :
  forall K rs n, wf_recs K rs -> metas_ok meta_ok rs -> (n <= length (blob_bytes rs))%nat ->
  (tool_validate_blob meta_ok (firstn n (blob_bytes rs)) = true
   <-> exists j, (j <= length rs)%nat /\ n = boundary rs j).
Proof. exact (tool_validate_prefix meta_ok). Qed.

Theorem C16_validate_accepts_produced :
  forall K rs, wf_recs K rs -> metas_ok meta_ok rs ->
  tool_validate_blob meta_ok (blob_bytes rs) = true.
Proof. exact (tool_validate_complete meta_ok). Qed.

(* recovery of a blob cut at any length >= 20 returns exactly the blob of the records that lie completely inside the cut (with or without skipping), which validates by the theorem above *)
Theorem C16_recovery_keeps_exactly_the_complete_records :
  forall K rs n skip, wf_recs K rs -> metas_ok meta_ok rs ->
  (20 <= n)%nat -> (n <= length (blob_bytes rs))%nat ->
  let j := ncomplete 20 rs n in
  tool_recover meta_ok (firstn n (blob_bytes rs)) skip = Some (blob_bytes (firstn j rs)) /\
  (j <= length rs)%nat /\ (boundary rs j <= n)%nat /\ ((j < length rs)%nat -> (n < boundary rs (S j))%nat).
Proof. exact (tool_recover_prefix meta_ok). Qed.

End General.
Print Assumptions C16_validate_accepts_exactly_record_boundaries.
Print Assumptions C16_validate_accepts_produced.
Print Assumptions C16_recovery_keeps_exactly_the_complete_records.

(* ---- recovery of ANY input file (damaged or not, with or without skipping): the positive theorem that replaces the
   refutation F7 (Blob/ToolsProofs.v; an `item` is (header as read, meta, data); `out_of items out` writes the items
   behind `out`, each through the stamping writer; `out_hdrs 20 items` are the stamped headers) ---- *)
Section Recovered.
Variable meta_ok : bytes -> bool.
(* every record the tool appends was read successfully from the input, starts at the length of the output so far,
   carries that position and a right checksum in its header, and Entry::load through that header returns the
   metadata and data that were read *)
Theorem C16_recovered_record_carries_its_position :
  forall fuel b skip pos out,
  exists items, tool_recover_loop meta_ok fuel b skip pos out = out_of items out /\
    Forall (was_read meta_ok b) items /\
    forall its1 h m d its2, items = its1 ++ (h, m, d) :: its2 ->
      let o1 := out_of its1 out in
      let h' := stamp h (N.of_nat (length o1)) in
      (exists suf, out_of items out = o1 ++ encode_header h' ++ m ++ d ++ suf) /\
      h_off h' = N.of_nat (length o1) /\ validate_header h' = None /\
      entry_load (out_of items out) h' = ROk (m, d).
Proof. exact (tool_recover_loop_offsets meta_ok). Qed.

(* the storage opens the recovered file (scan with or without data validation), gets one header per written record,
   and reads every one of them back *)
Theorem C16_recovered_blob_is_served :
  forall K b skip out v,
  wf_bytes b -> blob_header_check b = None ->
  (forall pos h m d p', tool_read meta_ok b pos = inl (h, m, d, p') -> N.of_nat (length (h_key h)) = K) ->
  tool_recover meta_ok b skip = Some out -> N.of_nat (length out) < 2^64 ->
  exists items,
    Forall (was_read meta_ok b) items /\ out = out_of items (firstn 20 b) /\
    blob_open_scan out K v = ROk (out_hdrs 20 items) /\
    Forall2 (fun it h' => entry_load out h' = ROk (snd (fst it), snd it)) items (out_hdrs 20 items).
Proof. exact (tool_recover_served meta_ok). Qed.
End Recovered.
Print Assumptions C16_recovered_record_carries_its_position.
Print Assumptions C16_recovered_blob_is_served.

(* ---- the metadata map (Format/Meta.v: the bincode image of HashMap<String, Vec<u8>>; `meta_ok` is the acceptance test of
   the tools' reader, the `meta_ok` parameter of the theorems above is instantiated with it by the driver) ---- *)
Require Pearl.Format.Meta Pearl.Format.MetaProofs.
Module M := Pearl.Format.Meta.
Module MP := Pearl.Format.MetaProofs.
(* every metadata map the storage can write (String keys, distinct) is accepted: the hypothesis `metas_ok` of the
   theorems above holds for every blob the storage produces *)
Theorem C16_tools_accept_every_written_metadata : forall es : list (bytes * bytes),
  N.of_nat (length es) < 2 ^ 64 ->
  Forall (fun e => N.of_nat (length (fst e)) < 2 ^ 64 /\ N.of_nat (length (snd e)) < 2 ^ 64) es ->
  Forall (fun e => M.is_utf8 (fst e) = true) es ->
  M.keys_distinct (map fst es) = true -> M.meta_ok (M.encode_meta es) = true.
Proof. exact MP.meta_ok_encode. Qed.
(* a map that decodes with bytes left over (a damaged length prefix) is rejected by the tools (code commit 186ae23);
   bincode alone ignores them, which is what made recovery write a shorter map under the old meta_size: finding F27 *)
Theorem C16_metadata_with_trailing_bytes_rejected : forall (es : list (bytes * bytes)) (x : N) (rest : bytes),
  N.of_nat (length es) < 2 ^ 64 ->
  Forall (fun e => N.of_nat (length (fst e)) < 2 ^ 64 /\ N.of_nat (length (snd e)) < 2 ^ 64) es ->
  Forall (fun e => M.is_utf8 (fst e) = true) es ->
  M.meta_ok (M.encode_meta es ++ x :: rest) = false /\ M.meta_decodes (M.encode_meta es ++ x :: rest) = true.
Proof. intros es x rest H1 H2 H3. split; [apply MP.meta_ok_no_trailing | apply MP.meta_decodes_ignores_trailing]; assumption. Qed.
(* REFUTED clause (finding F26, known): "corrupted files are rejected" fails for the metadata, which no checksum covers:
   two images of the same length that differ in one byte are both accepted *)
Theorem C16_metadata_content_flip_undetected_refuted :
  let m1' := updN MP.m1 25 (fun x : N => N.lxor x 64) in
  m1' <> MP.m1 /\ length m1' = length MP.m1 /\ M.meta_ok MP.m1 = true /\ M.meta_ok m1' = true.
Proof. pose proof MP.content_flip_is_accepted as H. cbv zeta in H |- *. destruct H as (_ & Hne & Hl & Hok & _).
       split; [exact Hne | split; [exact Hl | split; [exact (proj1 MP.m1_ok) | exact Hok]]]. Qed.
Print Assumptions C16_tools_accept_every_written_metadata.
Print Assumptions C16_metadata_with_trailing_bytes_rejected.
Print Assumptions C16_metadata_content_flip_undetected_refuted.

(* REFUTED clauses recorded as known findings (the model mirrors the code, so the witnesses are computed in it and
   replayed on the crate by regress/C16/f31_*.txt and f32_*.txt):
   F31 -- the version field of the blob header is covered by no checksum and the tools accept every version: the blob with
   its version byte flipped (1 -> 0) passes validate_blob, recovery copies the header, and the storage refuses the result;
   F32 -- recovery with skipping steps over a damaged record by that record's own sizes: one flipped bit in the data-size
   field of record 2 and the intact record 3 is not in the output (only record 1 is). *)
Theorem C16_blob_header_version_flip_undetected_refuted :
  flip_at c16_blob 8 <> c16_blob /\
  tool_validate_blob c16_meta_ok (flip_at c16_blob 8) = true /\
  match tool_recover c16_meta_ok (flip_at c16_blob 8) true with
  | Some out => dispose (blob_open_scan out 4 false) = DInitFails
  | None => False
  end.
Proof. vm_compute. split; [discriminate | split; reflexivity]. Qed.
Theorem C16_size_field_flip_ends_skipping_recovery_refuted :
  tool_validate_blob c16_meta_ok (flip_at c16_blob 122) = false /\
  tool_recover c16_meta_ok (flip_at c16_blob 122) true = Some (blob_file_bytes 4 [mk_rec 16 7 false None 8 5 1]) /\
  tool_recover c16_meta_ok (flip_at c16_blob 170) true = Some (blob_file_bytes 4 c16_kept).
Proof. vm_compute. repeat split; reflexivity. Qed.
Print Assumptions C16_blob_header_version_flip_undetected_refuted.
Print Assumptions C16_size_field_flip_ends_skipping_recovery_refuted.
