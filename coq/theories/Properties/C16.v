(* C16 Offline tools validate exactly well-formed files and recover without loss. Statements only. *)
Require Import Pearl.Base.Prelude Pearl.Base.LE Pearl.Generated.Consts Pearl.Format.Record Pearl.Storage.Model
               Pearl.Blob.Bytes Pearl.Blob.Scan Pearl.Blob.ScanProofs Pearl.Blob.ToolsProofs.

Definition c16_meta_ok (m : bytes) : bool := forallb (fun x => x =? 0) m.
Definition c16_recs : list Pearl.Storage.Model.rec :=
  [mk_rec 16 7 false None 8 5 1; mk_rec 17 7 false None 8 40 2; mk_rec 18 7 false None 8 5 3].
Definition c16_blob : bytes := blob_file_bytes 4 c16_recs.
Definition flip_at (b : bytes) (pos : nat) : bytes := firstn pos b ++ [N.lxor (nth pos b 0) 1] ++ skipn (S pos) b.

(* the tools model accepts a blob the storage model produces and rejects it once a data byte is flipped or
   it is cut inside a record (conformance examples; the general statements are in Blob/ToolsProofs.v) *)
Theorem C16_accepts_produced_blob : tool_validate_blob c16_meta_ok c16_blob = true.
Proof. vm_compute. reflexivity. Qed.
Theorem C16_rejects_flipped_data : tool_validate_blob c16_meta_ok (flip_at c16_blob 170) = false.
Proof. vm_compute. reflexivity. Qed.
Theorem C16_rejects_cut_record : tool_validate_blob c16_meta_ok (firstn 150 c16_blob) = false.
Proof. vm_compute. reflexivity. Qed.

(* recovery of the flipped blob with skipping keeps records 1 and 3 and the result validates ... *)
Theorem C16_recovery_validates :
  match tool_recover c16_meta_ok (flip_at c16_blob 170) true with
  | Some out => tool_validate_blob c16_meta_ok out = true /\ length out = 168%nat
  | None => False
  end.
Proof. vm_compute. split; reflexivity. Qed.

(* ... but the storage cannot read record 3 from it: REFUTATION of "the storage serves each contained record
   with its original bytes" (finding F7): the writer copies the header verbatim, so the index regenerated from
   the recovered blob holds record 3's OLD blob_offset, and Entry::load at that offset fails *)
Theorem C16_recovered_record_unreadable_refuted :
  match tool_recover c16_meta_ok (flip_at c16_blob 170) true with
  | Some out =>
    match blob_open_scan out 4 false with
    | ROk [h1; h3] => entry_load out h1 = ROk (meta_bytes 0, gen_data 1 5) /\
                      (exists e, entry_load out h3 = RFail e) /\ h_off h3 <> 94
    | _ => False
    end
  | None => False
  end.
Proof. vm_compute. split; [reflexivity|]. split; [eexists; reflexivity|discriminate]. Qed.

Print Assumptions C16_accepts_produced_blob.
Print Assumptions C16_recovery_validates.
Print Assumptions C16_recovered_record_unreadable_refuted.

(* ---- general theorems over every well-formed blob (Blob/ToolsProofs.v; `rec` there is (key, ts, meta, data)) ---- *)
Section General.
Variable meta_ok : bytes -> bool.   (* any decidable notion of decodable metadata *)
(* validate_blob accepts a byte-prefix of a blob EXACTLY when the cut is at a record boundary: every produced blob is accepted, every truncation elsewhere is rejected *)
Theorem C16_validate_accepts_exactly_record_boundaries :
  forall K rs n, wf_recs K rs -> metas_ok meta_ok rs -> (n <= length (blob_bytes rs))%nat ->
  (tool_validate_blob meta_ok (firstn n (blob_bytes rs)) = true
   <-> exists j, (j <= length rs)%nat /\ n = boundary rs j).
Proof. exact (tool_validate_prefix meta_ok). Qed.

Theorem C16_validate_accepts_produced :
  forall K rs, wf_recs K rs -> metas_ok meta_ok rs ->
  tool_validate_blob meta_ok (blob_bytes rs) = true.
Proof. exact (tool_validate_complete meta_ok). Qed.

(* recovery of a blob cut at any length >= 20 returns exactly the blob of the records that lie completely inside the cut (with or without skipping), which validates by the theorem above *)
Theorem C16_recovery_keeps_exactly_the_complete_records :
  forall K rs n skip, wf_recs K rs -> metas_ok meta_ok rs ->
  (20 <= n)%nat -> (n <= length (blob_bytes rs))%nat ->
  let j := ncomplete 20 rs n in
  tool_recover meta_ok (firstn n (blob_bytes rs)) skip = Some (blob_bytes (firstn j rs)) /\
  (j <= length rs)%nat /\ (boundary rs j <= n)%nat /\ ((j < length rs)%nat -> (n < boundary rs (S j))%nat).
Proof. exact (tool_recover_prefix meta_ok). Qed.

End General.
Print Assumptions C16_validate_accepts_exactly_record_boundaries.
Print Assumptions C16_validate_accepts_produced.
Print Assumptions C16_recovery_keeps_exactly_the_complete_records.
