(* C13 Background maintenance stays alive: rotation continues and close terminates. Statements only. *)
Require Import Pearl.Base.Prelude Pearl.Storage.Model Pearl.Storage.Spec Pearl.Storage.Inv Pearl.Storage.InvProofs
               Pearl.Storage.WorkerProofs.

(* In every state of an open storage, EVERY operation of the model -- data operations, direct lifecycle
   calls whether applicable or not, force_update with any predicate, free_excess, dump completion --
   leaves the worker alive, EXCEPT a background create/close/restore request made when it cannot apply
   (and the end of the session). The exception is exactly finding F1 (C13_inapplicable_request_kills). *)
Theorem C13_worker_stays_alive :
  forall (K : N) (cfg : config) (s : storage) (o : op),
    s_open s = true -> s_alive s = true -> ~ inapplicable s o -> ~ ends_session o ->
    s_alive (fst (step_q K cfg s o)) = true.
Proof. exact alive_preserved. Qed.

(* REFUTATION of the unconditional statement: the property says "including background create, close and
   restore requests made when they cannot apply"; in the faithful model each of them kills the worker,
   silently (the caller gets no error), and it never comes back within the session. *)
Theorem C13_inapplicable_request_kills :
  forall (K : N) (cfg : config) (s : storage) (o : op),
    s_open s = true -> s_alive s = true -> inapplicable s o -> s_alive (fst (step_q K cfg s o)) = false.
Proof. exact inapplicable_kills. Qed.

Theorem C13_dead_stays_dead :
  forall (K : N) (cfg : config) (s : storage) (o : op),
    s_open s = true -> s_alive s = false -> s_alive (fst (step_q K cfg s o)) = false.
Proof. exact dead_stays_dead. Qed.

(* rotation: with a live worker, a write that leaves the (aged) active blob full switches to a fresh blob *)
Theorem C13_rotation_happens :
  forall (K : N) (cfg : config) (s : storage) (k ts : N) (meta : option N) (msize dlen dseed : N) (b b' : blob),
    s_open s = true -> s_alive s = true -> s_aged s = true -> s_active s = Some b -> b_ondisk b = false ->
    c_dup cfg = true ->
    blob_append b (mk_rec k ts false meta msize dlen dseed) = (b', true) ->
    blob_full K cfg b' = true ->
    let s' := fst (step K cfg s (OWrite k ts meta msize dlen dseed)) in
    (exists nb, s_active s' = Some nb /\ b_id nb = s_next s /\ b_recs nb = []) /\
    In (Some b') (s_closed s') /\ s_next s' = s_next s + 1.
Proof. exact rotation_happens. Qed.

(* requested index dumps complete *)
Theorem C13_dumps_complete :
  forall (K : N) (s : storage),
    s_alive s = true -> s_dump_req s = true ->
    forall b, In (Some b) (s_closed (quiesce K s)) -> b_ondisk b = true \/ b_idx b = [].
Proof. exact dumps_complete. Qed.

(* close returns *)
Theorem C13_close_returns :
  forall (K : N) (cfg : config) (s : storage),
    s_open s = true -> snd (step_q K cfg s OClose) = RUnit /\ s_open (fst (step_q K cfg s OClose)) = false.
Proof. exact close_returns. Qed.

Print Assumptions C13_worker_stays_alive.
Print Assumptions C13_inapplicable_request_kills.
Print Assumptions C13_dead_stays_dead.
Print Assumptions C13_rotation_happens.
Print Assumptions C13_dumps_complete.
Print Assumptions C13_close_returns.
