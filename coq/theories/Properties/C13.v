(* C13 Background maintenance stays alive: rotation continues and close terminates. Statements only. *)
Require Import Pearl.Base.Prelude Pearl.Storage.Model Pearl.Storage.Spec Pearl.Storage.Inv Pearl.Storage.InvProofs
               Pearl.Storage.Theorems Pearl.Storage.WorkerProofs.

Require Pearl.Generated.Facts.
(* In every state of an open storage, EVERY operation of the model -- data operations, direct lifecycle
   calls whether applicable or not, background create/close/restore requests whether applicable or not,
   force_update with any predicate, free_excess, dump completion -- leaves the worker alive; only the end
   of the session (close, drop) stops it. Before commit 62103db of the code a background request made when
   it cannot apply was an exception (finding F1) and the statement carried `~ inapplicable s o`. *)
Theorem C13_worker_stays_alive :
  forall (K : N) (cfg : config) (s : storage) (o : op),
    s_open s = true -> s_alive s = true -> ~ ends_session o ->
    s_alive (fst (step_q K cfg s o)) = true.
Proof. exact alive_preserved. Qed.

(* "including background create, close and restore requests made when they cannot apply": such a request
   leaves the worker alive and the log as it was. (Before commit 62103db of the code this was refuted,
   finding F1: each of them killed the worker, silently, for the rest of the session.) *)
Theorem C13_inapplicable_request_is_harmless :
  forall (K : N) (cfg : config) (s : storage) (o : op),
    s_open s = true -> s_alive s = true -> inapplicable s o ->
    s_alive (fst (step_q K cfg s o)) = true /\ abs (fst (step_q K cfg s o)) = abs s.
Proof. exact inapplicable_harmless. Qed.

(* sharper: before the implicit quiesce the state is the one the request was made in, except that a close
   request still asks for the index dumps (s_dump_req), as every close request does *)
Theorem C13_inapplicable_request_changes_nothing :
  forall (K : N) (cfg : config) (s : storage) (o : op),
    s_open s = true -> inapplicable s o ->
    fst (step K cfg s o) = match o with OBgClose => request_dump s | _ => s end.
Proof. exact inapplicable_step. Qed.

(* true as before, but since the repair of F1 about no reachable state (C13_alive_after_every_history):
   within a session nothing stops the worker *)
Theorem C13_dead_stays_dead :
  forall (K : N) (cfg : config) (s : storage) (o : op),
    s_open s = true -> s_alive s = false -> s_alive (fst (step_q K cfg s o)) = false.
Proof. exact dead_stays_dead. Qed.

(* after EVERY history, a storage that is open has a live worker: open starts it (do_open), only close and
   drop stop it (closed_state), and they end the session. No side condition. *)
Theorem C13_alive_after_every_history :
  forall (K : N) (cfg : config) (ops : list op),
    s_open (reach K cfg ops) = true -> s_alive (reach K cfg ops) = true.
Proof. exact alive_after_every_history. Qed.

(* rotation: with a live worker, a write that leaves the (aged) active blob full switches to a fresh blob *)
Theorem C13_rotation_happens :
  forall (K : N) (cfg : config) (s : storage) (k ts : N) (meta : option N) (msize dlen dseed : N) (b b' : blob),
    s_open s = true -> s_alive s = true -> s_aged s = true -> s_active s = Some b -> b_ondisk b = false ->
    c_dup cfg = true ->
    blob_append b (mk_rec k ts false meta msize dlen dseed) = (b', true) ->
    blob_full K cfg b' = true ->
    let s' := fst (step K cfg s (OWrite k ts meta msize dlen dseed)) in
    (exists nb, s_active s' = Some nb /\ b_id nb = s_next s /\ b_recs nb = []) /\
    In (Some b') (s_closed s') /\ s_next s' = s_next s + 1.
Proof. exact rotation_happens. Qed.

(* requested index dumps complete *)
Theorem C13_dumps_complete :
  forall (K : N) (s : storage),
    s_alive s = true -> s_dump_req s = true ->
    forall b, In (Some b) (s_closed (quiesce K s)) -> b_ondisk b = true \/ b_idx b = [].
Proof. exact dumps_complete. Qed.

(* close returns *)
Theorem C13_close_returns :
  forall (K : N) (cfg : config) (s : storage),
    s_open s = true -> snd (step_q K cfg s OClose) = RUnit /\ s_open (fst (step_q K cfg s OClose)) = false.
Proof. exact close_returns. Qed.

(* ---- structural facts re-extracted from the Rust source on every run (tools/extract_src.py, Generated/Facts.v):
   the orderings inside the code that the models used above assume. A change of the code that invalidates one turns
   the generated boolean into `false` and this file no longer compiles. ---- *)
(* Storage/Model.v worker: a failed request leaves the worker alive *)
Theorem C13_source_background_failures_logged : Pearl.Generated.Facts.BACKGROUND_FAILURES_ARE_LOGGED = true.
Proof. reflexivity. Qed.

Print Assumptions C13_worker_stays_alive.
Print Assumptions C13_inapplicable_request_is_harmless.
Print Assumptions C13_inapplicable_request_changes_nothing.
Print Assumptions C13_dead_stays_dead.
Print Assumptions C13_alive_after_every_history.
Print Assumptions C13_rotation_happens.
Print Assumptions C13_dumps_complete.
Print Assumptions C13_close_returns.
Print Assumptions C13_source_background_failures_logged.
