(* C07 No harm: stored blob bytes are never modified, truncated or deleted. Statements only. *)
Require Import Pearl.Base.Prelude Pearl.Storage.Model Pearl.Storage.Spec Pearl.Storage.Inv Pearl.Storage.InvProofs
               Pearl.Blob.Bytes Pearl.Storage.NoHarmProofs Pearl.Io.Trace Pearl.Io.TraceProofs.

Require Pearl.Generated.Facts.
(* After ANY history (data operations, lifecycle, background requests, restarts with and without close,
   index removal), every blob that existed at any earlier point still exists with the same id and its
   record list has the earlier one as a prefix ... *)
Theorem C07_append_only :
  forall (K : N) (cfg : config) (ops : list op) (s : storage) (b : blob),
    NoActiveWhenClosed s -> In b (blobs_in_order s) ->
    exists b', In b' (blobs_in_order (fst (run K cfg s ops))) /\ b_id b' = b_id b /\ prefix_of (b_recs b) (b_recs b').
Proof. exact run_append_only. Qed.

(* ... and at byte level: the earlier content of the blob FILE is a prefix of the later content *)
Theorem C07_file_bytes_prefix :
  forall (K : N) (rs t : list rec), prefix_of (blob_file_bytes K rs) (blob_file_bytes K (rs ++ t)).
Proof. exact blob_bytes_prefix. Qed.

(* queries perform no state change at all *)
Theorem C07_queries_pure :
  forall (K : N) (cfg : config) (s : storage) (o : op), is_query o = true -> fst (step K cfg s o) = s.
Proof. exact queries_pure. Qed.

(* a blob created by a step never takes an id that exists, and ids only grow within a session *)
Theorem C07_new_blob_id_fresh :
  forall (K : N) (cfg : config) (s : storage) (o : op) (b' : blob),
    IdsOk s -> s_open s = true ->
    In b' (blobs_in_order (fst (step_q K cfg s o))) ->
    (forall b, In b (blobs_in_order s) -> b_id b <> b_id b') ->
    s_next s <= b_id b'.
Proof. exact new_blob_id_fresh. Qed.

(* the trace predicate that judges REAL traces (extracted): acceptance means every append to a blob file landed
   at the end of the file, nothing wrote into the middle of a blob, no blob file was re-created *)
Theorem C07_trace_append_at_eof :
  forall (tr1 tr2 : list ev) (i off len : N),
    judge_from ev_harmless [] (tr1 ++ EvAppend (FBlob, i) off len :: tr2) = true ->
    match fget (run_evs [] tr1) (FBlob, i) with Some (sz, _) => off = sz | None => True end.
Proof. exact harmless_meaning. Qed.
Theorem C07_trace_no_positional_write :
  forall (tr1 tr2 : list ev) (i off len : N),
    judge_from ev_harmless [] (tr1 ++ EvWriteAt (FBlob, i) off len :: tr2) = false.
Proof. exact harmless_no_positional. Qed.
Theorem C07_trace_no_recreate :
  forall (tr1 tr2 : list ev) (i : N),
    judge_from ev_harmless [] (tr1 ++ EvCreate (FBlob, i) :: tr2) = true -> fget (run_evs [] tr1) (FBlob, i) = None.
Proof. exact harmless_no_recreate. Qed.

(* ---- structural facts re-extracted from the Rust source on every run (tools/extract_src.py, Generated/Facts.v):
   the orderings inside the code that the models used above assume. A change of the code that invalidates one turns
   the generated boolean into `false` and this file no longer compiles. ---- *)
(* no append can start below the end of the file: the offset is reserved first, and falls back to the physical length after a failure *)
Theorem C07_source_append_reserves_then_writes : Pearl.Generated.Facts.APPEND_RESERVES_THEN_WRITES = true.
Proof. reflexivity. Qed.
(* a blob id ever used by a file of the directory is never handed out again *)
Theorem C07_source_quarantined_ids_count : Pearl.Generated.Facts.QUARANTINED_IDS_COUNT_FOR_NEXT_ID = true.
Proof. reflexivity. Qed.

Print Assumptions C07_trace_append_at_eof.
Print Assumptions C07_trace_no_positional_write.
Print Assumptions C07_trace_no_recreate.
Print Assumptions C07_append_only.
Print Assumptions C07_file_bytes_prefix.
Print Assumptions C07_queries_pure.
Print Assumptions C07_new_blob_id_fresh.
Print Assumptions C07_source_append_reserves_then_writes.
Print Assumptions C07_source_quarantined_ids_count.
