(* C07 No harm: stored blob bytes are never modified, truncated or deleted. Statements only. *)
Require Import Pearl.Base.Prelude Pearl.Storage.Model Pearl.Storage.Spec Pearl.Storage.Inv Pearl.Storage.InvProofs
               Pearl.Blob.Bytes Pearl.Storage.NoHarmProofs Pearl.Io.Trace Pearl.Io.TraceProofs.

Require Pearl.Generated.Facts.
Require Pearl.Storage.Theorems Pearl.Storage.CrashProofs.
(* After ANY history (data operations, lifecycle, background requests, restarts with and without close,
   index removal), every blob that existed at any earlier point still exists with the same id and its
   record list has the earlier one as a prefix ...
   (`no_cut ops`, `s_bad s = []`: this is about what the STORAGE does. A crash may cut a blob file (OCut), and the next
   start moves a file it cannot read back to the corrupted directory -- renamed, never modified:
   C07_quarantined_ids_never_reused, C06_cut_inside_quarantines.) *)
Theorem C07_append_only :
  forall (K : N) (cfg : config) (ops : list op) (s : storage) (b : blob),
    NoActiveWhenClosed s -> no_cut ops -> s_bad s = [] -> In b (blobs_in_order s) ->
    exists b', In b' (blobs_in_order (fst (run K cfg s ops))) /\ b_id b' = b_id b /\ prefix_of (b_recs b) (b_recs b').
Proof. exact run_append_only. Qed.

(* ... and at byte level: the earlier content of the blob FILE is a prefix of the later content *)
Theorem C07_file_bytes_prefix :
  forall (K : N) (rs t : list rec), prefix_of (blob_file_bytes K rs) (blob_file_bytes K (rs ++ t)).
Proof. exact blob_bytes_prefix. Qed.

(* queries perform no state change at all *)
Theorem C07_queries_pure :
  forall (K : N) (cfg : config) (s : storage) (o : op), is_query o = true -> fst (step K cfg s o) = s.
Proof. exact queries_pure. Qed.

(* a blob created by a step never takes an id that exists, and ids only grow within a session *)
Theorem C07_new_blob_id_fresh :
  forall (K : N) (cfg : config) (s : storage) (o : op) (b' : blob),
    IdsOk s -> s_open s = true ->
    In b' (blobs_in_order (fst (step_q K cfg s o))) ->
    (forall b, In b (blobs_in_order s) -> b_id b <> b_id b') ->
    s_next s <= b_id b'.
Proof. exact new_blob_id_fresh. Qed.

(* the trace predicate that judges REAL traces (extracted): acceptance means every append to a blob file landed
   at the end of the file, nothing wrote into the middle of a blob, no blob file was re-created *)
Theorem C07_trace_append_at_eof :
  forall (tr1 tr2 : list ev) (i off len : N),
    judge_from ev_harmless [] (tr1 ++ EvAppend (FBlob, i) off len :: tr2) = true ->
    match fget (run_evs [] tr1) (FBlob, i) with Some (sz, _) => off = sz | None => True end.
Proof. exact harmless_meaning. Qed.
Theorem C07_trace_no_positional_write :
  forall (tr1 tr2 : list ev) (i off len : N),
    judge_from ev_harmless [] (tr1 ++ EvWriteAt (FBlob, i) off len :: tr2) = false.
Proof. exact harmless_no_positional. Qed.
Theorem C07_trace_no_recreate :
  forall (tr1 tr2 : list ev) (i : N),
    judge_from ev_harmless [] (tr1 ++ EvCreate (FBlob, i) :: tr2) = true -> fget (run_evs [] tr1) (FBlob, i) = None.
Proof. exact harmless_no_recreate. Qed.

(* ---- structural facts re-extracted from the Rust source on every run (tools/extract_src.py, Generated/Facts.v):
   the orderings inside the code that the models used above assume. A change of the code that invalidates one turns
   the generated boolean into `false` and this file no longer compiles. ---- *)
(* no append can start below the end of the file: the offset is reserved first, and falls back to the physical length after a failure *)
Theorem C07_source_append_reserves_then_writes : Pearl.Generated.Facts.APPEND_RESERVES_THEN_WRITES = true.
Proof. reflexivity. Qed.
(* a blob id ever used by a file of the directory is never handed out again *)
Theorem C07_source_quarantined_ids_count : Pearl.Generated.Facts.QUARANTINED_IDS_COUNT_FOR_NEXT_ID = true.
Proof. reflexivity. Qed.

(* ================= crash damage and quarantine (Storage/CrashProofs.v) ================= *)
Section Quarantine.
Import Pearl.Storage.Theorems Pearl.Storage.CrashProofs.

(* with crash damage anywhere in the history: a blob whose file no crash touched -- not cut by this history, not left
   unreadable by an earlier one -- still exists, with the same id, its old records a prefix of the new ones *)
Theorem C07_append_only_untouched_blobs :
  forall (K : N) (cfg : config) (ops : list op) (s : storage) (b : blob),
    NoActiveWhenClosed s ->
    In b (blobs_in_order s) -> ~ In (b_id b) (s_bad s) -> ~ In (b_id b) (cut_ids ops) ->
    exists b', In b' (blobs_in_order (fst (run K cfg s ops))) /\ b_id b' = b_id b /\ prefix_of (b_recs b) (b_recs b').
Proof. exact run_append_only_uncut. Qed.

(* the id of a file of the corrupted directory is never handed out again: after EVERY history (crash damage included)
   no blob has such an id, a running storage hands out ids above all of them, and the counter of corrupted blobs is
   the number of those files *)
Theorem C07_quarantined_ids_never_reused :
  forall (K : N) (cfg : config) (ops : list op),
    let s := reach K cfg ops in
    (forall b, In b (blobs_in_order s) -> ~ In (b_id b) (s_quar s)) /\
    (s_open s = true -> forall q, In q (s_quar s) -> q < s_next s) /\
    s_corrupted s = N.of_nat (length (s_quar s)).
Proof. exact quarantined_ids_never_reused. Qed.

(* nothing ever leaves the corrupted directory (the storage only moves files there) ... *)
Theorem C07_quarantine_only_grows :
  forall (K : N) (cfg : config) (ops ops2 : list op),
    exists t, s_quar (reach K cfg (ops ++ ops2)) = s_quar (reach K cfg ops) ++ t.
Proof. exact quarantine_only_grows. Qed.

(* ... so an id once quarantined is the id of no blob of any later state *)
Theorem C07_quarantined_id_stays_unused :
  forall (K : N) (cfg : config) (ops ops2 : list op) (q : N),
    In q (s_quar (reach K cfg ops)) -> forall b, In b (blobs_in_order (reach K cfg (ops ++ ops2))) -> b_id b <> q.
Proof. exact quarantined_id_stays_unused. Qed.

(* the invariant on ids (strictly increasing, next id above all blobs AND all quarantined files, no unreadable file in
   the work directory of a running storage) after every history, crash damage included *)
Theorem C07_ids_after_crash_damage :
  forall (K : N) (cfg : config) (ops1 : list op) (id : N) (keep : option nat) (ops2 : list op),
    IdsOk (reach K cfg (ops1 ++ OCut id keep :: ops2)).
Proof. exact crash_history_IdsOk. Qed.
End Quarantine.

Print Assumptions C07_trace_append_at_eof.
Print Assumptions C07_trace_no_positional_write.
Print Assumptions C07_trace_no_recreate.
Print Assumptions C07_append_only.
Print Assumptions C07_file_bytes_prefix.
Print Assumptions C07_queries_pure.
Print Assumptions C07_new_blob_id_fresh.
Print Assumptions C07_source_append_reserves_then_writes.
Print Assumptions C07_source_quarantined_ids_count.
Print Assumptions C07_append_only_untouched_blobs.
Print Assumptions C07_quarantined_ids_never_reused.
Print Assumptions C07_quarantine_only_grows.
Print Assumptions C07_quarantined_id_stays_unused.
Print Assumptions C07_ids_after_crash_damage.

(* appends to a file never overlap, also after a caller was dropped: their ranges are handed out in the order in which the bytes reach the file (structural fact re-extracted on every run; finding F37) *)
Theorem C07_source_append_waits_for_appends_in_flight : Pearl.Generated.Facts.APPEND_WAITS_FOR_APPENDS_IN_FLIGHT = true.
Proof. reflexivity. Qed.
Print Assumptions C07_source_append_waits_for_appends_in_flight.
