(* C15 Accounting: counts, ids and sizes always match the operation history. Statements only. *)
Require Import Pearl.Base.Prelude Pearl.Storage.Model Pearl.Storage.Spec Pearl.Storage.Inv
               Pearl.Storage.InvProofs Pearl.Storage.CountsProofs Pearl.Storage.Theorems.

(* records_count, the per-blob counts, the active-blob count, blobs_count, next_blob_id and
   corrupted_blobs_count equal the values implied by the log (records physically appended per blob,
   deletion markers included; blobs that exist) in every state whose indexes describe their blobs.
   Before the repair of the counters (commits b2a4900 / 7f20c40 of the code) two more provisos were
   needed -- no vacated slot in the closed list, id of the active blob = number of slots -- because
   the code counted slots, not blobs (finding F3). *)
Theorem C15_counts :
  forall (K : N) (s : storage), BlobsOk K s -> counts s = spec_counts s.
Proof. exact counts_spec. Qed.

(* hence after every history *)
Theorem C15_counts_after_every_history :
  forall (K : N) (cfg : config) (ops : list op),
    counts (reach K cfg ops) = spec_counts (reach K cfg ops).
Proof. exact reach_counts. Qed.

(* the per-blob invariant holds after every history *)
Theorem C15_invariant_after_every_history :
  forall (K : N) (cfg : config) (ops : list op), Inv K (reach K cfg ops).
Proof. exact reach_Inv. Qed.

(* the number of headers an index holds is the number of records appended to its blob *)
Theorem C15_index_count : forall rs : list rec, imap_count (index_of rs) = N.of_nat (length rs).
Proof. exact imap_count_index_of. Qed.

(* ids: strictly increasing along the blobs, and next_blob_id above all of them, after every history *)
Theorem C15_next_id_above_all :
  forall (K : N) (cfg : config) (ops : list op),
    IdsOk (reach K cfg ops).
Proof. exact reach_IdsOk. Qed.

(* the history that REFUTED the equality before the repair of the counters (finding F3: after
   close_active + restore_active the vacated slot was counted and its number reported as the id of the
   active blob; commits b2a4900 / 7f20c40 of the code) now satisfies it: one blob, the pair (0, 1) *)
Theorem C15_blobs_count_after_restore :
  let cfg := {| c_dup := true; c_maxrec := 1000; c_maxsize := 1000000 |} in
  let s := fst (run 4 cfg init_storage [OOpen false; OWrite 1 7 None 8 5 1; OCloseActive; ORestoreActive]) in
  s_closed s = [None] /\
  counts s = spec_counts s /\
  counts s = RCounts 1 [(0, 1)] (Some 1) 1 1 0 true.
Proof. exact blobs_count_after_restore. Qed.

Print Assumptions C15_counts.
Print Assumptions C15_counts_after_every_history.
Print Assumptions C15_invariant_after_every_history.
Print Assumptions C15_index_count.
Print Assumptions C15_next_id_above_all.
Print Assumptions C15_blobs_count_after_restore.
