(* C15 Accounting: counts, ids and sizes always match the operation history. Statements only. *)
Require Import Pearl.Base.Prelude Pearl.Storage.Model Pearl.Storage.Spec Pearl.Storage.Inv
               Pearl.Storage.InvProofs Pearl.Storage.CountsProofs Pearl.Storage.Theorems.
Require Pearl.Storage.WorkerProofs Pearl.Storage.CrashProofs.

(* records_count, the per-blob counts, the active-blob count, blobs_count, next_blob_id and
   corrupted_blobs_count equal the values implied by the log (records physically appended per blob,
   deletion markers included; blobs that exist) in every state whose indexes describe their blobs.
   Before the repair of the counters (commits b2a4900 / 7f20c40 of the code) two more provisos were
   needed -- no vacated slot in the closed list, id of the active blob = number of slots -- because
   the code counted slots, not blobs (finding F3). *)
Theorem C15_counts :
  forall (K : N) (s : storage), BlobsOk K s -> counts s = spec_counts s.
Proof. exact counts_spec. Qed.

(* hence after every history *)
Theorem C15_counts_after_every_history :
  forall (K : N) (cfg : config) (ops : list op),
    counts (reach K cfg ops) = spec_counts (reach K cfg ops).
Proof. exact reach_counts. Qed.

(* the per-blob invariant holds after every history *)
Theorem C15_invariant_after_every_history :
  forall (K : N) (cfg : config) (ops : list op), Inv K (reach K cfg ops).
Proof. exact reach_Inv. Qed.

(* the number of headers an index holds is the number of records appended to its blob *)
Theorem C15_index_count : forall rs : list rec, imap_count (index_of rs) = N.of_nat (length rs).
Proof. exact imap_count_index_of. Qed.

(* ids: strictly increasing along the blobs, and next_blob_id above all of them, after every history *)
Theorem C15_next_id_above_all :
  forall (K : N) (cfg : config) (ops : list op),
    IdsOk (reach K cfg ops).
Proof. exact reach_IdsOk. Qed.

(* the history that REFUTED the equality before the repair of the counters (finding F3: after
   close_active + restore_active the vacated slot was counted and its number reported as the id of the
   active blob; commits b2a4900 / 7f20c40 of the code) now satisfies it: one blob, the pair (0, 1) *)
Theorem C15_blobs_count_after_restore :
  let cfg := {| c_dup := true; c_maxrec := 1000; c_maxsize := 1000000 |} in
  let s := fst (run 4 cfg init_storage [OOpen false; OWrite 1 7 None 8 5 1; OCloseActive; ORestoreActive]) in
  s_closed s = [None] /\
  counts s = spec_counts s /\
  counts s = RCounts 1 [(0, 1)] (Some 1) 1 1 0 true.
Proof. exact blobs_count_after_restore. Qed.

(* ================= crash damage and quarantine (Storage/CrashProofs.v) ================= *)
Section Quarantine.
Import Pearl.Storage.CrashProofs.

(* the counters match the log after every history with crash damage at any place ... *)
Theorem C15_counts_after_crash_damage :
  forall (K : N) (cfg : config) (ops1 : list op) (id : N) (keep : option nat) (ops2 : list op),
    counts (reach K cfg (ops1 ++ OCut id keep :: ops2)) = spec_counts (reach K cfg (ops1 ++ OCut id keep :: ops2)).
Proof. exact crash_history_counts. Qed.

(* ... corrupted_blobs_count is the number of files in the corrupted directory, after every history ... *)
Theorem C15_corrupted_count_is_quarantine_size :
  forall (K : N) (cfg : config) (ops : list op),
    let s := reach K cfg ops in
    (forall b, In b (blobs_in_order s) -> ~ In (b_id b) (s_quar s)) /\
    (s_open s = true -> forall q, In q (s_quar s) -> q < s_next s) /\
    s_corrupted s = N.of_nat (length (s_quar s)).
Proof. exact quarantined_ids_never_reused. Qed.

(* ... and a blob file cut inside a record adds exactly one to it at the next start *)
Theorem C15_quarantine_counts_one :
  forall (K : N) (cfg : config) (ops : list op) (e : op) (id : N) (lazy : bool),
    let s := reach K cfg ops in
    let s' := reach K cfg (ops ++ [e; OCut id None; OOpen lazy]) in
    s_open s = true -> WorkerProofs.ends_session e -> (exists b, In b (blobs_in_order s) /\ b_id b = id) ->
    s_quar s' = s_quar s ++ [id] /\
    s_corrupted s' = s_corrupted s + 1 /\
    abs s' = flat_map b_recs (without id (blobs_in_order s)) /\
    (forall b, In b (blobs_in_order s) -> b_id b <> id ->
       exists b', In b' (blobs_in_order s') /\ b_id b' = b_id b /\ b_recs b' = b_recs b) /\
    id < s_next s' /\
    (forall ops2 b', In b' (blobs_in_order (reach K cfg ((ops ++ [e; OCut id None; OOpen lazy]) ++ ops2))) -> b_id b' <> id).
Proof. exact cut_inside_quarantines. Qed.

(* computed: one blob quarantined, one served: records 1, blobs 1, next id 2, corrupted 1 *)
Theorem C15_quarantine_computed :
  let s := reach 4 x_cfg x_hist_b in
  x_ids s = [1] /\ x_keys s = [2] /\ s_quar s = [0] /\ s_corrupted s = 1 /\ s_next s = 2 /\ s_bad s = [] /\
  get_latest_entry s 1 None = NotFound /\ is_found (get_latest_entry s 2 None) = true /\
  counts s = RCounts 1 [(1, 1)] (Some 1) 1 2 1 true /\
  x_ids (reach 4 x_cfg (x_hist_b ++ [OForceUpdate 0])) = [1; 2] /\
  s_quar (reach 4 x_cfg (x_hist_b ++ [OForceUpdate 0; OClose; OOpen true])) = [0].
Proof. exact quarantine_computed. Qed.
End Quarantine.

Print Assumptions C15_counts.
Print Assumptions C15_counts_after_every_history.
Print Assumptions C15_invariant_after_every_history.
Print Assumptions C15_index_count.
Print Assumptions C15_next_id_above_all.
Print Assumptions C15_blobs_count_after_restore.
Print Assumptions C15_counts_after_crash_damage.
Print Assumptions C15_corrupted_count_is_quarantine_size.
Print Assumptions C15_quarantine_counts_one.
Print Assumptions C15_quarantine_computed.
