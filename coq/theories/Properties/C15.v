(* C15 Accounting: counts, ids and sizes always match the operation history. Statements only. *)
Require Import Pearl.Base.Prelude Pearl.Storage.Model Pearl.Storage.Spec Pearl.Storage.Inv
               Pearl.Storage.InvProofs Pearl.Storage.CountsProofs Pearl.Storage.Theorems.

(* records_count, the per-blob counts, the active-blob count, blobs_count, next_blob_id and
   corrupted_blobs_count equal the values implied by the log (records physically appended per blob,
   deletion markers included; blobs that exist) in every state whose indexes describe their blobs,
   PROVIDED no slot of the closed list was vacated in this session and the active blob's id is the
   number of slots. The two provisos are exactly what finding F3 violates (see C15_blobs_count_refuted):
   the code counts slots, not blobs. *)
Theorem C15_counts :
  forall (K : N) (s : storage),
    BlobsOk K s ->
    (forall o, In o (s_closed s) -> o <> None) ->
    (forall b, s_active s = Some b -> b_id b = N.of_nat (length (s_closed s))) ->
    counts s = spec_counts s.
Proof. exact counts_spec. Qed.

(* the per-blob invariant holds after every history (unless the known class F2 was hit) *)
Theorem C15_invariant_after_every_history :
  forall (K : N) (cfg : config) (ops : list op), s_f2 (reach K cfg ops) = false -> Inv K (reach K cfg ops).
Proof. exact reach_Inv. Qed.

(* the number of headers an index holds is the number of records appended to its blob *)
Theorem C15_index_count : forall rs : list rec, imap_count (index_of rs) = N.of_nat (length rs).
Proof. exact imap_count_index_of. Qed.

(* ids: strictly increasing along the blobs, and next_blob_id above all of them, after every history *)
Theorem C15_next_id_above_all :
  forall (K : N) (cfg : config) (ops : list op),
    IdsOk (reach K cfg ops).
Proof. intros K cfg ops. apply (run_IdsOk K cfg ops init_storage), init_IdsOk. Qed.

(* REFUTED for blobs_count after close + restore (finding F3): the faithful model counts the vacated slot *)
Theorem C15_blobs_count_refuted :
  let cfg := {| c_dup := true; c_maxrec := 1000; c_maxsize := 1000000 |} in
  let s := fst (run 4 cfg init_storage [OOpen false; OWrite 1 7 None 8 5 1; OCloseActive; ORestoreActive]) in
  counts s <> spec_counts s.
Proof. exact blobs_count_refuted. Qed.

Print Assumptions C15_counts.
Print Assumptions C15_invariant_after_every_history.
Print Assumptions C15_index_count.
Print Assumptions C15_next_id_above_all.
Print Assumptions C15_blobs_count_refuted.
