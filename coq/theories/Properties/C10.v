(* C10 Filters never give a false negative, in memory, on file, merged or off-loaded.
   This file contains statements only; every proof is `exact <lemma>`. *)
Require Import Pearl.Base.Prelude Pearl.Base.LE Pearl.Generated.Pure Pearl.Filter.Bloom Pearl.Filter.BloomProofs.

Section C10.
Context {key : Type}.
Variable hash : N -> key -> N.   (* every hash family *)

(* In-memory bloom filter: a key that was added is never answered NotContains, for every bit count
   (including 0 and counts not divisible by 64), every number of hashers, every hash family. *)
Theorem C10_bloom_no_false_negative :
  forall (b : bloom) (ks : list key) (k : key),
    bloom_wf b -> In k ks ->
    bloom_contains_in_memory hash (fold_left (bloom_add hash) ks b) k <> Some NotContains.
Proof. exact (bloom_no_false_negative hash). Qed.

Theorem C10_bloom_fast_no_false_negative :
  forall (b : bloom) (ks : list key) (k : key),
    bloom_wf b -> In k ks ->
    bloom_contains_fast hash (fold_left (bloom_add hash) ks b) k = NeedAdditionalCheck.
Proof. exact (bloom_fast_no_false_negative hash). Qed.

(* The probe of an off-loaded filter through the serialised bytes (bincode layout of `Save`, the
   translated offset_and_mask_u8 / get_bit_u8) answers exactly like the in-memory probe (translated
   offset_and_mask), for every key. *)
Theorem C10_file_probe_eq_memory_probe :
  forall (b : bloom) (v : bitvec) (raw : bytes) (k : key),
    bl_inner b = Some v -> bloom_wf b -> bloom_to_raw b = Some raw -> bl_bits b <> 0 ->
    bloom_contains_in_file hash (file_of raw) (bloom_offload b) k = bloom_contains_in_memory hash b k.
Proof. exact (file_probe_eq_memory_probe hash). Qed.

(* Merging (checked_add_assign) keeps every key of both sides *)
Theorem C10_bloom_merge_keeps_keys :
  forall (a b m : bloom) (k : key),
    bloom_wf a -> bloom_wf b -> bloom_merge a b = Some m ->
    all_set hash a k \/ all_set hash b k -> all_set hash m k.
Proof. exact (bloom_merge_all_set hash). Qed.

End C10.

(* non-vacuity: a concrete well-formed filter with 100 bits (not a multiple of 64) *)
Example C10_nonvacuous : bloom_wf (bloom_new 100 2 (repeat 0 40)) /\ bl_bits (bloom_new 100 2 (repeat 0 40)) <> 0.
Proof. split; [|discriminate]. cbn. split; [apply bv_new_wf; reflexivity|reflexivity]. Qed.

Print Assumptions C10_bloom_no_false_negative.
Print Assumptions C10_bloom_fast_no_false_negative.
Print Assumptions C10_file_probe_eq_memory_probe.
Print Assumptions C10_bloom_merge_keeps_keys.
