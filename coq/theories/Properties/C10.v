(* C10 Filters never give a false negative, in memory, on file, merged or off-loaded.
   This file contains statements only; every proof is `exact <lemma>`. *)
Require Import Pearl.Base.Prelude Pearl.Base.LE Pearl.Generated.Pure Pearl.Filter.Bloom Pearl.Filter.BloomProofs
               Pearl.Filter.Hier Pearl.Filter.HierProofs Pearl.Filter.Combined Pearl.Filter.CombinedProofs Pearl.Base.AHash
               Pearl.Storage.Model Pearl.Storage.Spec Pearl.Storage.Filtered Pearl.Storage.FilteredProofs.
Require Pearl.Generated.Facts.

Section C10.
Context {key : Type}.
Variable hash : N -> key -> N.   (* every hash family *)

(* In-memory bloom filter: a key that was added is never answered NotContains, for every bit count
   (including 0 and counts not divisible by 64), every number of hashers, every hash family. *)
Theorem C10_bloom_no_false_negative :
  forall (b : bloom) (ks : list key) (k : key),
    bloom_wf b -> In k ks ->
    bloom_contains_in_memory hash (fold_left (bloom_add hash) ks b) k <> Some NotContains.
Proof. exact (bloom_no_false_negative hash). Qed.

Theorem C10_bloom_fast_no_false_negative :
  forall (b : bloom) (ks : list key) (k : key),
    bloom_wf b -> In k ks ->
    bloom_contains_fast hash (fold_left (bloom_add hash) ks b) k = NeedAdditionalCheck.
Proof. exact (bloom_fast_no_false_negative hash). Qed.

(* The probe of an off-loaded filter through the serialised bytes (bincode layout of `Save`, the
   translated offset_and_mask_u8 / get_bit_u8) answers exactly like the in-memory probe (translated
   offset_and_mask), for every key. *)
Theorem C10_file_probe_eq_memory_probe :
  forall (b : bloom) (v : bitvec) (raw : bytes) (k : key),
    bl_inner b = Some v -> bloom_wf b -> bloom_to_raw b = Some raw -> bl_bits b <> 0 ->
    bloom_contains_in_file hash (file_of raw) (bloom_offload b) k = bloom_contains_in_memory hash b k.
Proof. exact (file_probe_eq_memory_probe hash). Qed.

(* Merging (checked_add_assign) keeps every key of both sides *)
Theorem C10_bloom_merge_keeps_keys :
  forall (a b m : bloom) (k : key),
    bloom_wf a -> bloom_wf b -> bloom_merge a b = Some m ->
    all_set hash a k \/ all_set hash b k -> all_set hash m k.
Proof. exact (bloom_merge_all_set hash). Qed.

End C10.

(* ---- merged filters of blob groups (src/filter/hierarchical.rs), for EVERY filter type ----
   Whatever the filter type, if merging two good filters answers "maybe" whenever one side does and off-loading
   only turns answers into "maybe", then after every sequence of push / pop / remove / offload-all /
   offload_buffer(needed, level) (with its early returns), a child that is still present and whose own filter, as
   pushed, answers "maybe" for k is yielded by iter_possible_childs k: no group filter hides it. *)
Theorem C10_hierarchy_never_hides_a_child :
  forall (key F : Type) (contains : F -> key -> bool) (merge : F -> F -> option F) (offload : F -> F)
         (mem : F -> N) (good : F -> Prop),
    (forall (a b c : F) (k : key), good a -> good b -> merge a b = Some c ->
       contains a k = true \/ contains b k = true -> contains c k = true) ->
    (forall a b c : F, good a -> good b -> merge a b = Some c -> good c) ->
    (forall (f : F) (k : key), good f -> contains f k = true -> contains (offload f) k = true) ->
    (forall f : F, good f -> good (offload f)) ->
    forall (group : nat) (ops : list (hop F)) (c : nat) (f : F) (k : key),
      (0 < group)%nat -> Forall good (pushed F ops) ->
      nth_error (pushed F ops) c = Some f ->
      present F (run_h F merge offload mem group ops) c = true ->
      contains f k = true ->
      In c (iter_possible key F contains (run_h F merge offload mem group ops) k).
Proof. exact iter_complete. Qed.

(* every child id appears exactly once among the leaves, in push order, whatever was popped / removed / off-loaded *)
Theorem C10_hierarchy_leaves_exact :
  forall (F : Type) (merge : F -> F -> option F) (offload : F -> F) (mem : F -> N) (group : nat) (ops : list (hop F)),
    concat (map (hn_leaves F) (h_nodes F (run_h F merge offload mem group ops))) = seq 0 (length (pushed F ops)) /\
    length (h_children F (run_h F merge offload mem group ops)) = length (pushed F ops).
Proof. exact leaves_exact. Qed.

(* ---- the combined filter (optional Bloom + key range) meets those hypotheses, for every hash family ---- *)
Theorem C10_combined_no_false_negative :
  forall (hash : N -> bytes -> N) (kbytes : N -> bytes) (f : combined) (ks : list N) (k : N),
    cf_wf f -> In k ks -> cf_contains hash kbytes (fold_left (cf_add hash kbytes) ks f) k = true.
Proof. exact cf_add_contains. Qed.

Theorem C10_combined_merge_keeps_keys :
  forall (hash : N -> bytes -> N) (kbytes : N -> bytes) (a b c : combined) (k : N),
    cf_wf a -> cf_wf b -> cf_merge a b = Some c ->
    cf_contains hash kbytes a k = true \/ cf_contains hash kbytes b k = true -> cf_contains hash kbytes c k = true.
Proof. exact cf_merge_sound. Qed.

(* ---- the instance that is extracted and compared with HierarchicalFilters<_, CombinedFilter, _> on every run:
   a present child built from keys ks is yielded for every k in ks by the iterator (check_filter_fast, the read
   paths) and the asynchronous check_filter answers "maybe" ---- *)
Theorem C10_blob_groups_no_false_negative :
  forall (K : N) (group : nat) (ops : list (hop combined)) (c : nat) (f0 : combined) (ks : list N) (k : N),
    (0 < group)%nat -> Forall cf_wf (pushed combined ops) ->
    nth_error (pushed combined ops) c = Some (fold_left (cf_add bloom_hash (ckey_bytes K)) ks f0) ->
    cf_wf f0 -> In k ks -> present combined (ch_run K group ops) c = true ->
    In c (ch_iter K (ch_run K group ops) k) /\ ch_check K (ch_run K group ops) k = true.
Proof. exact ch_no_false_negative. Qed.

(* ---- the filters INSIDE the storage model (Storage/Filtered.v): the hierarchy is maintained alongside the storage
   (a blob closed = a child pushed with the filter of its keys, restore = pop, restart = rebuilt from the blobs,
   offload_buffer(needed, level) at any moment), and the read path that opens only the blobs the hierarchy yields for
   the key -- each asked through its own filter, or through the possibly off-loaded filter kept in its slot -- returns
   EXACTLY what the filterless model returns, after EVERY history; for a read without metadata that is the
   specification's answer. "Storage::read after offload" and check_filters can never hide a stored record. ---- *)
Theorem C10_filtered_read_is_read :
  forall (K : N) (bloom0 : option bloom) (cfg : config) (group : nat) (evs : list fev) (k : N) (meta : option N),
    (0 < group)%nat -> bloom0_wf bloom0 ->
    let s := fst (freach K bloom0 cfg group evs) in
    let h := snd (freach K bloom0 cfg group evs) in
    get_latest_entry_filtered K bloom0 h s k meta = get_latest_entry s k meta.
Proof. exact filtered_read_is_read. Qed.

Theorem C10_filtered_read_through_slot_filters :
  forall (K : N) (bloom0 : option bloom) (cfg : config) (group : nat) (evs : list fev) (k : N) (meta : option N),
    (0 < group)%nat -> bloom0_wf bloom0 ->
    let s := fst (freach K bloom0 cfg group evs) in
    let h := snd (freach K bloom0 cfg group evs) in
    get_latest_entry_filtered_slot K bloom0 h s k meta = get_latest_entry s k meta.
Proof. exact filtered_slot_read_is_read. Qed.

Theorem C10_filtered_read_is_spec :
  forall (K : N) (bloom0 : option bloom) (cfg : config) (group : nat) (evs : list fev) (k : N),
    (0 < group)%nat -> bloom0_wf bloom0 ->
    let s := fst (freach K bloom0 cfg group evs) in
    let h := snd (freach K bloom0 cfg group evs) in
    get_latest_entry_filtered K bloom0 h s k None = spec_read (abs s) k.
Proof. exact filtered_read_is_spec. Qed.

(* the slots of the hierarchy are the slots of the closed-blob list, after every history *)
Theorem C10_hierarchy_slots_are_the_closed_blobs :
  forall (K : N) (bloom0 : option bloom) (cfg : config) (group : nat) (evs : list fev),
    bloom0_wf bloom0 ->
    let s := fst (freach K bloom0 cfg group evs) in
    let h := snd (freach K bloom0 cfg group evs) in
    length (h_children combined h) = length (s_closed s) /\
    (forall c : nat, present combined h c = match nth_error (s_closed s) c with Some (Some _) => true | _ => false end).
Proof. exact slots_correspond. Qed.

(* Storage::check_filters and <Storage as BloomProvider>::check_filter (Storage/Filtered.v cf_answer / cfs_answer: an
   in-memory index answers exactly, an on-disk one through the blob's filter, the hierarchy selects the children):
   a key held by any blob of the storage is never answered "definitely absent" -- in every state, resp. after every
   history with the hierarchy maintained alongside *)
Theorem C10_check_filters_no_false_negative :
  forall (K : N) (bloom0 : option bloom) (s : storage) (b : blob) (k : N),
    bloom0_wf bloom0 -> s_active s = Some b \/ In b (closed_blobs s) -> In k (blob_keys b) ->
    cf_answer K bloom0 s k = true.
Proof. exact cf_answer_no_false_negative. Qed.

Theorem C10_check_filter_no_false_negative :
  forall (K : N) (bloom0 : option bloom) (cfg : config) (group : nat) (evs : list fev) (b : blob) (k : N),
    (0 < group)%nat -> bloom0_wf bloom0 ->
    let s := fst (freach K bloom0 cfg group evs) in
    let h := snd (freach K bloom0 cfg group evs) in
    s_active s = Some b \/ In b (closed_blobs s) -> In k (blob_keys b) ->
    cfs_answer K bloom0 h s k = true.
Proof. exact cfs_answer_no_false_negative. Qed.

(* the premise on the configured bloom filter is met by "no bloom" and by every fresh bloom of fewer than 2^64 bits *)
Theorem C10_bloom0_wf_cases :
  forall bloom0 : option bloom,
    bloom0 = None \/ (exists (bits hashers : N) (c : bytes), bits < 2 ^ 64 /\ bloom0 = Some (bloom_new bits hashers c)) ->
    bloom0_wf bloom0.
Proof. exact bloom0_wf_cases. Qed.

(* non-vacuity of the hierarchy theorems: a concrete history (group 2, 100-bit blooms, a removal, a bounded off-load) *)
Example C10_hierarchy_nonvacuous :
  let f0 := cf_new (Some (bloom_new 100 2 (repeat 0 40))) in
  let mk ks := fold_left (cf_add bloom_hash (ckey_bytes 4)) ks f0 in
  let ops := [HPush _ (mk [1; 7]); HPush _ (mk [9]); HPush _ (mk [7; 300]); HRemove _ 0; HOffloadN _ 16 1] in
  cf_wf f0 /\ ch_iter 4 (ch_run 4 2 ops) 7 = [1; 2]%nat /\ ch_iter 4 (ch_run 4 2 ops) 5 = [].
Proof. split; [apply cf_new_wf; reflexivity | vm_compute; split; reflexivity]. Qed.

(* non-vacuity: a concrete well-formed filter with 100 bits (not a multiple of 64) *)
Example C10_nonvacuous : bloom_wf (bloom_new 100 2 (repeat 0 40)) /\ bl_bits (bloom_new 100 2 (repeat 0 40)) <> 0.
Proof. split; [|discriminate]. cbn. split; [apply bv_new_wf; reflexivity|reflexivity]. Qed.

Print Assumptions C10_bloom_no_false_negative.
Print Assumptions C10_bloom_fast_no_false_negative.
Print Assumptions C10_file_probe_eq_memory_probe.
Print Assumptions C10_bloom_merge_keeps_keys.
Print Assumptions C10_hierarchy_never_hides_a_child.
Print Assumptions C10_hierarchy_leaves_exact.
Print Assumptions C10_combined_no_false_negative.
Print Assumptions C10_combined_merge_keeps_keys.
Print Assumptions C10_blob_groups_no_false_negative.
Print Assumptions C10_filtered_read_is_read.
Print Assumptions C10_filtered_read_through_slot_filters.
Print Assumptions C10_filtered_read_is_spec.
Print Assumptions C10_hierarchy_slots_are_the_closed_blobs.
Print Assumptions C10_bloom0_wf_cases.
Print Assumptions C10_check_filters_no_false_negative.
Print Assumptions C10_check_filter_no_false_negative.

(* a group filter that was given up stays given up: it is never re-initialised from a later child alone (structural fact re-extracted on every run) *)
Theorem C10_source_group_filter_initialised_only_when_empty : Pearl.Generated.Facts.GROUP_FILTER_INITIALISED_ONLY_WHEN_EMPTY = true.
Proof. reflexivity. Qed.
Print Assumptions C10_source_group_filter_initialised_only_when_empty.

(* ---- children WITHOUT a filter (get_filter() = None, e.g. a storage that has no closed blob yet pushed into a second-level
   hierarchy): the combined filter lifted to `option` (Filter/CombinedOpt.v) is one more instance of the abstract filter,
   and it is the instance extracted for the direct hierarchy stream (`hier pushnone`). A present filterless child is
   yielded for EVERY key, whatever else was pushed, popped, removed or off-loaded. ---- *)
Require Pearl.Filter.CombinedOpt Pearl.Filter.CombinedOptProofs.
Module CO := Pearl.Filter.CombinedOpt.
Module COP := Pearl.Filter.CombinedOptProofs.
Theorem C10_hierarchy_with_filterless_children : forall (K : N) (group : nat) (ops : list (hop CO.ocf)) (c : nat) (f : CO.ocf) (k : N),
  (0 < group)%nat -> Forall COP.ocf_wf (pushed CO.ocf ops) ->
  nth_error (pushed CO.ocf ops) c = Some f -> present CO.ocf (CO.oh_run group ops) c = true ->
  CO.ocf_contains K f k = true ->
  In c (CO.oh_iter K (CO.oh_run group ops) k) /\ CO.oh_check K (CO.oh_run group ops) k = true.
Proof. exact COP.oh_no_false_negative. Qed.
Theorem C10_filterless_child_never_hidden : forall (K : N) (group : nat) (ops : list (hop CO.ocf)) (c : nat) (k : N),
  (0 < group)%nat -> Forall COP.ocf_wf (pushed CO.ocf ops) ->
  nth_error (pushed CO.ocf ops) c = Some None -> present CO.ocf (CO.oh_run group ops) c = true ->
  In c (CO.oh_iter K (CO.oh_run group ops) k).
Proof. exact COP.oh_filterless_child_never_hidden. Qed.
Print Assumptions C10_hierarchy_with_filterless_children.
Print Assumptions C10_filterless_child_never_hidden.
