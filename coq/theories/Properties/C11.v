(* C11 I/O fault containment. Statements only.
   Three of the faults below used to be REFUTED by the faithful model; the code was repaired
   (F9: commit e3d3ed5, F15: commit 20e4a83, F1: commit 62103db) and the model (Storage/Fault.v) follows it. *)
Require Import Pearl.Base.Prelude Pearl.Storage.Model Pearl.Storage.Spec Pearl.Storage.Inv Pearl.Storage.InvProofs
               Pearl.Storage.NoHarmProofs Pearl.Storage.Theorems Pearl.Storage.Cancel Pearl.Storage.CancelProofs
               Pearl.Storage.Fault Pearl.Storage.FaultProofs.

Require Pearl.Generated.Facts.
(* a failed record append is contained after every history: log and reads untouched
   (Blob::write returns before the index is touched) *)
Theorem C11_append_failure_contained :
  forall (K : N) (cfg : config) (ops : list op) (k : N),
    abs (append_fails (reach K cfg ops)) = abs (reach K cfg ops) /\
    get_latest_entry (append_fails (reach K cfg ops)) k None = get_latest_entry (reach K cfg ops) k None.
Proof. exact append_failure_contained. Qed.

(* a failed index dump keeps every byte of the log ... *)
Theorem C11_dump_failure_keeps_log :
  forall (s : storage) (id : N), abs (dump_fails_on s id) = abs s.
Proof. exact dump_failure_keeps_log. Qed.

(* ... and is contained: every read answers as before, in every state (the headers taken out of the in-memory
   index while the file is written are put back when the write fails). Before commit e3d3ed5 of the code this
   was refuted (finding F9: the blob's acknowledged records were not served for the rest of the session). *)
Theorem C11_dump_failure_contained :
  forall (s : storage) (id k : N),
    get_latest_entry (dump_fails_on s id) k None = get_latest_entry s k None /\
    abs (dump_fails_on s id) = abs s.
Proof. exact dump_failure_contained. Qed.

(* in fact the storage is as it was *)
Theorem C11_dump_failure_changes_nothing :
  forall (s : storage) (id : N), dump_fails_on s id = s.
Proof. exact dump_fails_on_id. Qed.

(* computed on a concrete history: the record stays readable after the failed dump of its blob *)
Theorem C11_dump_failure_keeps_records :
  let s := fst (step 4 f_cfg (reach 4 f_cfg f_hist) OCloseActive) in
  get_latest_entry s 1 None = Found (mk_rec 1 7 false None 8 5 1) /\
  get_latest_entry (dump_fails_on s 0) 1 None = Found (mk_rec 1 7 false None 8 5 1) /\
  spec_read (abs (dump_fails_on s 0)) 1 = Found (mk_rec 1 7 false None 8 5 1).
Proof. exact dump_failure_keeps_records. Qed.

(* an fsync failure inside close_active_blob is contained: the blob is synced while it still is the active
   one, so the error leaves the storage as it was -- hence every read and the log. Before commit 20e4a83 of
   the code this was refuted (finding F15: the whole active blob was dropped). *)
Theorem C11_close_fsync_failure_contained :
  forall (s : storage), close_active_fsync_fails s = s.
Proof. exact close_fsync_failure_contained. Qed.

(* computed on the same history: the record stays readable after the failed close, the blob stays active *)
Theorem C11_close_fsync_failure_keeps_blob :
  let s := reach 4 f_cfg f_hist in
  get_latest_entry s 2 None = Found (mk_rec 2 7 false None 8 5 2) /\
  get_latest_entry (close_active_fsync_fails s) 2 None = Found (mk_rec 2 7 false None 8 5 2) /\
  abs (close_active_fsync_fails s) = abs s /\ length (abs (close_active_fsync_fails s)) = 2%nat /\
  s_active (close_active_fsync_fails s) = s_active s.
Proof. exact close_fsync_failure_keeps_blob. Qed.

(* a failed blob creation while the worker rotates is contained: one blob id is used up, nothing else -- the
   log, the reads and the worker are as before and the ids stay fresh. Before commit 62103db of the code the
   worker panicked (finding F1). *)
Theorem C11_rotation_failure_contained :
  forall (s : storage) (k : N),
    abs (rotation_create_fails s) = abs s /\
    get_latest_entry (rotation_create_fails s) k None = get_latest_entry s k None /\
    s_alive (rotation_create_fails s) = s_alive s /\
    (IdsOk s -> IdsOk (rotation_create_fails s)).
Proof. exact rotation_failure_contained. Qed.

(* the whole invariant of C03 survives it *)
Theorem C11_rotation_failure_keeps_invariant :
  forall (K : N) (s : storage), Inv K s -> Inv K (rotation_create_fails s).
Proof. exact rotation_failure_Inv. Qed.

(* computed: after the failed rotation both records are served, the worker lives, the next write lands *)
Theorem C11_rotation_failure_keeps_going :
  let s := rotation_create_fails (reach 4 f_cfg f_hist) in
  get_latest_entry s 1 None = Found (mk_rec 1 7 false None 8 5 1) /\
  get_latest_entry s 2 None = Found (mk_rec 2 7 false None 8 5 2) /\
  s_alive s = true /\ s_next s = 2 /\
  get_latest_entry (fst (step_q 4 f_cfg s (OWrite 3 7 None 8 5 3))) 3 None = Found (mk_rec 3 7 false None 8 5 3).
Proof. exact rotation_failure_keeps_going. Qed.

(* ================= one failed file operation inside a client call =================

   `fault_outcomes K cfg s o s'` (Storage/Fault.v): the states one failed file operation (create, open, write,
   partial write, sync) inside the public operation `o` started in `s` may leave, read off the repaired code.
   It is the union of
     fault_error K s o s'       the call returned an error
                                (write: `burn_id s` when the creation of the active blob failed, `ensure_active s`
                                 when the record append failed; delete: the same for the marker in the active
                                 blob; close_active: `s`; restore_active: `s` or the last closed blob with its
                                 index loaded; create_active: `burn_id s`; reads: `s`)
     fault_logged K cfg s o s'  the failure was logged and the call returned Ok
                                (the completed operation when the failed file operation was not essential, e.g. the
                                 background sync; delete: `delete_faulty`, the marker append failed in any subset
                                 `fails` of the closed blobs -- those keep their index loaded and get no marker,
                                 the others are processed normally; the dump is requested iff one was marked).
   NOT expressible at this level (whole records only): the torn bytes a SHORT write leaves behind the last
   record -- finding F21; see C05/C12 for what the next start makes of them. *)

(* every fault outcome is a state a dropped future (C14: cancel_outcomes) may leave, possibly followed by the
   request for the deferred index dump. The literal inclusion is FALSE for a partially failed delete that marked
   some blob (a dropped delete has not requested the dump yet): C11_fault_example_not_a_cancel_outcome below. *)
Theorem C11_fault_is_a_cancel_outcome :
  forall (K : N) (cfg : config) (s : storage) (o : op) (s' : storage),
    fault_outcomes K cfg s o s' ->
    exists s1, cancel_outcomes K cfg s o s1 /\ (s' = s1 \/ s' = request_dump s1).
Proof. exact fault_outcomes_are_cancel_outcomes. Qed.

(* literally so when the call returned an error, for every operation that is not a delete, and for a delete that
   marked no closed blob *)
Theorem C11_fault_error_is_a_cancel_outcome :
  forall (K : N) (cfg : config) (s : storage) (o : op) (s' : storage),
    fault_error K s o s' -> cancel_outcomes K cfg s o s'.
Proof. exact fault_error_is_cancel_outcome. Qed.
Theorem C11_fault_is_a_cancel_outcome_strict :
  forall (K : N) (cfg : config) (s : storage) (o : op) (s' : storage),
    is_delete o = false -> fault_outcomes K cfg s o s' -> cancel_outcomes K cfg s o s'.
Proof. exact fault_outcomes_are_cancel_outcomes_strict. Qed.
Theorem C11_failed_delete_is_a_cancel_outcome :
  forall (K : N) (cfg : config) (s : storage) (k ts : N) (meta : option N) (msize : N) (oip : bool) (fails : list bool),
    s_open s = true -> delete_faulty_marked K s (mk_rec k ts true meta msize 0 0) oip fails = 0 ->
    cancel_outcomes K cfg s (ODelete k ts meta msize oip) (delete_faulty K s (mk_rec k ts true meta msize 0 0) oip fails).
Proof. exact failed_delete_is_cancel_outcome. Qed.

(* (A) "every record acknowledged earlier remains readable with correct bytes": no key other than the one of the
   failed call is affected -- same records in the log, same answer to every read *)
Theorem C11_fault_other_keys :
  forall (K : N) (cfg : config) (s : storage) (o : op) (s' : storage) (k : N),
    BlobsOk K s -> s_open s = true -> fault_outcomes K cfg s o s' -> op_key o <> Some k ->
    of_key k (abs s') = of_key k (abs s) /\
    forall meta, get_latest_entry s' k meta = get_latest_entry s k meta.
Proof. exact fault_other_keys. Qed.

(* (B) nothing stored is harmed: every blob keeps its id and its records are a prefix of its new records *)
Theorem C11_fault_no_harm :
  forall (K : N) (cfg : config) (s : storage) (o : op) (s' : storage),
    BlobsOk K s -> s_open s = true -> fault_outcomes K cfg s o s' -> good s s'.
Proof. exact fault_no_harm. Qed.

(* (C) "once the fault clears the storage accepts further operations and keeps rotating blobs": the active index
   stays in memory, the worker lives, the ids stay fresh, the storage is open *)
Theorem C11_fault_later_ops :
  forall (K : N) (cfg : config) (s : storage) (o : op) (s' : storage),
    BlobsOk K s -> s_open s = true -> fault_outcomes K cfg s o s' ->
    (ActiveInMemory s -> ActiveInMemory s') /\ s_alive s' = s_alive s /\ (IdsOk s -> IdsOk s') /\ s_open s' = true.
Proof. exact fault_later_ops. Qed.

(* ... hence a write on the resulting state is acknowledged *)
Theorem C11_after_fault_write_acknowledged :
  forall (K : N) (cfg : config) (s : storage) (o : op) (s' : storage) (k ts : N) (meta : option N) (msize dlen dseed : N),
    BlobsOk K s -> ActiveInMemory s -> s_open s = true -> fault_outcomes K cfg s o s' ->
    snd (step K cfg s' (OWrite k ts meta msize dlen dseed)) = RUnit.
Proof. exact fault_then_write_acknowledged. Qed.

(* STRONGER than cancellation. "An operation that returned an error is never served later as if it had
   succeeded": the failed write left the log and EVERY read (of its own key too) as they were, in every state *)
Theorem C11_failed_write_leaves_no_trace :
  forall (K : N) (s : storage) (k ts : N) (meta : option N) (msize dlen dseed : N) (s' : storage),
    fault_error K s (OWrite k ts meta msize dlen dseed) s' ->
    abs s' = abs s /\ forall k' meta', get_latest_entry s' k' meta' = get_latest_entry s k' meta'.
Proof. exact failed_write_leaves_no_trace. Qed.

(* the same for every call that returned an error *)
Theorem C11_failed_call_leaves_no_trace :
  forall (K : N) (s : storage) (o : op) (s' : storage),
    BlobsOk K s -> fault_error K s o s' ->
    abs s' = abs s /\ forall k meta, get_latest_entry s' k meta = get_latest_entry s k meta.
Proof. exact fault_error_leaves_no_trace. Qed.

(* a partially failed delete, blob by blob: every closed blob got its marker and indexed it (or does not hold the
   key), or it is the blob it was with its index loaded; the active blob is fully processed *)
Theorem C11_failed_delete_markers :
  forall (K : N) (s : storage) (k ts : N) (meta : option N) (msize : N) (oip : bool) (fails : list bool),
    let mk := mk_rec k ts true meta msize 0 0 in
    let s' := delete_faulty K s mk oip fails in
    Forall2 (orel (fun b b' => b' = fst (fst (blob_delete K b mk true)) \/
                               (delete_applies b mk true = true /\ b' = blob_load_index K b)))
            (s_closed (delete_start s oip)) (s_closed s') /\
    s_active s' = option_map (fun b => fst (fst (blob_delete K b mk oip))) (s_active (delete_start s oip)).
Proof. exact failed_delete_markers. Qed.

(* the log: the old blobs, each with or without ONE marker at its end *)
Theorem C11_failed_delete_log :
  forall (K : N) (cfg : config) (s : storage) (k ts : N) (meta : option N) (msize : N) (oip : bool) (s' : storage),
    BlobsOk K s -> s_open s = true -> fault_outcomes K cfg s (ODelete k ts meta msize oip) s' ->
    exists s0, (s0 = s \/ (oip = false /\ s0 = ensure_active s)) /\
      Forall2 (orel (marker_ext (mk_rec k ts true meta msize 0 0) true)) (s_closed s0) (s_closed s') /\
      orel (marker_ext (mk_rec k ts true meta msize 0 0) oip) (s_active s0) (s_active s').
Proof. exact failed_delete_log. Qed.

(* the read of the key: as before the delete, or as after the completed delete (both occur: the examples below) *)
Theorem C11_failed_delete_read :
  forall (K : N) (cfg : config) (s : storage) (k ts : N) (meta : option N) (msize : N) (oip : bool) (s' : storage),
    BlobsOk K s -> s_open s = true -> fault_outcomes K cfg s (ODelete k ts meta msize oip) s' ->
    forall meta',
      get_latest_entry s' k meta' = get_latest_entry s k meta' \/
      get_latest_entry s' k meta' = get_latest_entry (fst (step K cfg s (ODelete k ts meta msize oip))) k meta'.
Proof. exact failed_delete_read. Qed.

(* the model is the completed delete when nothing fails *)
Theorem C11_delete_without_failure :
  forall (K : N) (s : storage) (k ts : N) (meta : option N) (msize : N) (oip : bool),
    let s' := delete_faulty K s (mk_rec k ts true meta msize 0 0) oip [] in
    s_closed s' = s_closed (fst (do_delete K s k ts meta msize oip)) /\
    s_active s' = s_active (fst (do_delete K s k ts meta msize oip)).
Proof. exact delete_faulty_no_failure. Qed.

(* STRONGER than cancellation: a fault leaves NO blob with bytes that are not indexed -- the index of every blob is
   the index of its records and every index file describes a prefix of its blob (a dropped future may break this:
   Cancel.v ds_bytes, wp_bytes) ... *)
Theorem C11_fault_keeps_invariant :
  forall (K : N) (cfg : config) (s : storage) (o : op) (s' : storage),
    BlobsOk K s -> ActiveInMemory s -> fault_outcomes K cfg s o s' -> BlobsOk K s'.
Proof. exact fault_keeps_BlobsOk. Qed.

(* ... for a delete whatever the place of the active index ... *)
Theorem C11_failed_delete_keeps_invariant :
  forall (K : N) (cfg : config) (s : storage) (k ts : N) (meta : option N) (msize : N) (oip : bool) (s' : storage),
    BlobsOk K s -> fault_outcomes K cfg s (ODelete k ts meta msize oip) s' -> BlobsOk K s'.
Proof. exact failed_delete_keeps_BlobsOk. Qed.

(* ... and the whole invariant of C03 *)
Theorem C11_fault_keeps_whole_invariant :
  forall (K : N) (cfg : config) (s : storage) (o : op) (s' : storage),
    Inv K s -> ActiveInMemory s -> s_open s = true -> fault_outcomes K cfg s o s' -> Inv K s' /\ ActiveInMemory s'.
Proof. exact fault_keeps_Inv. Qed.

(* all of it after every history *)
Theorem C11_fault_containment :
  forall (K : N) (cfg : config) (ops : list op) (o : op) (s' : storage),
    s_open (reach K cfg ops) = true -> fault_outcomes K cfg (reach K cfg ops) o s' ->
    (forall k, op_key o <> Some k ->
       of_key k (abs s') = of_key k (abs (reach K cfg ops)) /\
       forall meta, get_latest_entry s' k meta = get_latest_entry (reach K cfg ops) k meta) /\
    good (reach K cfg ops) s' /\
    Inv K s' /\ ActiveInMemory s' /\ s_alive s' = s_alive (reach K cfg ops) /\ s_open s' = true /\
    forall k ts meta msize dlen dseed, snd (step K cfg s' (OWrite k ts meta msize dlen dseed)) = RUnit.
Proof. exact reach_fault_containment. Qed.

(* the background faults (failed index dump, failed blob creation during a rotation, failed background sync),
   together: log, reads, worker and invariant as before *)
Theorem C11_background_fault_contained :
  forall (K : N) (s s' : storage),
    bg_fault_outcomes s s' ->
    abs s' = abs s /\ (forall k meta, get_latest_entry s' k meta = get_latest_entry s k meta) /\
    s_alive s' = s_alive s /\ s_open s' = s_open s /\ (Inv K s -> Inv K s') /\ (ActiveInMemory s -> ActiveInMemory s').
Proof. exact bg_fault_contained. Qed.

(* ---- computed: a delete over two closed blobs, the marker append fails in the first ----
   fd_state: blob 0 (closed, dumped) holds key 1 at timestamp 7 and key 2, blob 1 (closed, dumped) holds key 1 at
   timestamp 8; fd_op = delete(key 1, timestamp 9, only_if_presented); fd_out = delete_faulty .. [true; false] *)
Example C11_fault_example_is_an_outcome : fault_outcomes 4 f_cfg fd_state fd_op fd_out.
Proof. exact fd_out_is_fault_outcome. Qed.

(* blob 0: index loaded, no marker; blob 1: marker appended and indexed; the call answers Ok(1) (the completed
   delete: Ok(2)); the dump is requested; with no failure the model computes the completed delete *)
Example C11_fault_example_blobs :
  s_closed fd_out =
    match s_closed fd_state with
    | [Some b0; Some b1] => [Some (blob_load_index 4 b0); Some (fst (blob_append (blob_load_index 4 b1) fd_mk))]
    | l => l
    end /\
  map (fun b => length (b_recs b)) (blobs_in_order fd_state) = [2; 1]%nat /\
  map (fun b => length (b_recs b)) (blobs_in_order fd_out) = [2; 2]%nat /\
  map (fun b => length (b_recs b)) (blobs_in_order (fst (step 4 f_cfg fd_state fd_op))) = [3; 2]%nat /\
  delete_faulty_answer 4 fd_state fd_mk true [true; false] = RNum 1 /\
  snd (step 4 f_cfg fd_state fd_op) = RNum 2 /\
  s_dump_req fd_state = false /\ s_dump_req fd_out = true /\
  delete_faulty 4 fd_state fd_mk true [] = fst (step 4 f_cfg fd_state fd_op).
Proof. vm_compute. repeat split; reflexivity. Qed.

(* the key of the call reads as AFTER the completed delete (Deleted 9: the newer blob got its marker), the other key
   is unchanged, the read agrees with the specification's read of the log, the next write is acknowledged *)
Example C11_fault_example_reads :
  get_latest_entry fd_state 1 None = Found (mk_rec 1 8 false None 8 5 3) /\
  get_latest_entry fd_out 1 None = Deleted 9 /\
  get_latest_entry (fst (step 4 f_cfg fd_state fd_op)) 1 None = Deleted 9 /\
  get_latest_entry fd_out 2 None = Found (mk_rec 2 7 false None 8 5 2) /\
  get_latest_entry fd_state 2 None = Found (mk_rec 2 7 false None 8 5 2) /\
  of_key 2 (abs fd_out) = of_key 2 (abs fd_state) /\
  get_latest_entry fd_out 1 None = spec_read (abs fd_out) 1 /\
  snd (step 4 f_cfg fd_out (OWrite 3 7 None 8 5 4)) = RUnit.
Proof. vm_compute. repeat split; reflexivity. Qed.

Example C11_fault_example_invariant : Inv 4 fd_out /\ ActiveInMemory fd_out.
Proof. exact fd_out_invariant. Qed.

(* fd_out is not literally a cancel outcome: it carries the dump request *)
Example C11_fault_example_not_a_cancel_outcome : ~ cancel_outcomes 4 f_cfg fd_state fd_op fd_out.
Proof. exact fd_out_is_not_a_cancel_outcome. Qed.

(* the other alternative of C11_failed_delete_read, computed on the state of C14 (key 1 at timestamps 7 and 8 in two
   closed blobs, delete at timestamp 8), the marker append failing in the NEWER blob: the call answers Ok(1), the
   marker is in the log, and the key still reads as BEFORE the delete (equal timestamps: the marker of the older
   blob does not replace the record of the newer one); the completed delete answers Deleted 8 *)
Example C11_fault_example_reads_as_before :
  fault_outcomes 4 c_cfg d_state d_op fd2_out /\
  delete_faulty_answer 4 d_state d_mk true [false; true] = RNum 1 /\
  In d_mk (abs fd2_out) /\
  get_latest_entry d_state 1 None = Found (mk_rec 1 8 false None 8 5 2) /\
  get_latest_entry fd2_out 1 None = Found (mk_rec 1 8 false None 8 5 2) /\
  get_latest_entry (fst (step 4 c_cfg d_state d_op)) 1 None = Deleted 8.
Proof. exact (conj fd2_out_is_fault_outcome fd2_out_reads). Qed.

(* ---- structural facts re-extracted from the Rust source on every run (tools/extract_src.py, Generated/Facts.v):
   the orderings inside the code that the models used above assume. A change of the code that invalidates one turns
   the generated boolean into `false` and this file no longer compiles. ---- *)
(* Storage/Fault.v close_active_fsync_fails = identity *)
Theorem C11_source_close_syncs_before_take : Pearl.Generated.Facts.CLOSE_SYNCS_BEFORE_TAKE = true.
Proof. reflexivity. Qed.
(* Storage/Fault.v dump_fails = identity *)
Theorem C11_source_dump_puts_headers_back : Pearl.Generated.Facts.DUMP_PUTS_HEADERS_BACK = true.
Proof. reflexivity. Qed.
(* Storage/Fault.v rotation_create_fails keeps the worker alive *)
Theorem C11_source_background_failures_logged : Pearl.Generated.Facts.BACKGROUND_FAILURES_ARE_LOGGED = true.
Proof. reflexivity. Qed.
(* Storage/Fault.v append_fails = identity also for the size counter *)
Theorem C11_source_append_resyncs_size : Pearl.Generated.Facts.APPEND_RESERVES_THEN_WRITES = true.
Proof. reflexivity. Qed.

Print Assumptions C11_append_failure_contained.
Print Assumptions C11_dump_failure_keeps_log.
Print Assumptions C11_dump_failure_contained.
Print Assumptions C11_dump_failure_changes_nothing.
Print Assumptions C11_dump_failure_keeps_records.
Print Assumptions C11_close_fsync_failure_contained.
Print Assumptions C11_close_fsync_failure_keeps_blob.
Print Assumptions C11_rotation_failure_contained.
Print Assumptions C11_rotation_failure_keeps_invariant.
Print Assumptions C11_rotation_failure_keeps_going.
Print Assumptions C11_source_close_syncs_before_take.
Print Assumptions C11_source_dump_puts_headers_back.
Print Assumptions C11_source_background_failures_logged.
Print Assumptions C11_source_append_resyncs_size.
Print Assumptions C11_fault_is_a_cancel_outcome.
Print Assumptions C11_fault_error_is_a_cancel_outcome.
Print Assumptions C11_fault_is_a_cancel_outcome_strict.
Print Assumptions C11_failed_delete_is_a_cancel_outcome.
Print Assumptions C11_fault_other_keys.
Print Assumptions C11_fault_no_harm.
Print Assumptions C11_fault_later_ops.
Print Assumptions C11_after_fault_write_acknowledged.
Print Assumptions C11_failed_write_leaves_no_trace.
Print Assumptions C11_failed_call_leaves_no_trace.
Print Assumptions C11_failed_delete_markers.
Print Assumptions C11_failed_delete_log.
Print Assumptions C11_failed_delete_read.
Print Assumptions C11_delete_without_failure.
Print Assumptions C11_fault_keeps_invariant.
Print Assumptions C11_failed_delete_keeps_invariant.
Print Assumptions C11_fault_keeps_whole_invariant.
Print Assumptions C11_fault_containment.
Print Assumptions C11_background_fault_contained.
Print Assumptions C11_fault_example_is_an_outcome.
Print Assumptions C11_fault_example_blobs.
Print Assumptions C11_fault_example_reads.
Print Assumptions C11_fault_example_invariant.
Print Assumptions C11_fault_example_not_a_cancel_outcome.
Print Assumptions C11_fault_example_reads_as_before.

(* a delete whose append to the active blob fails has touched no closed blob (structural fact re-extracted on every run) *)
Theorem C11_source_delete_active_before_closed : Pearl.Generated.Facts.DELETE_ACTIVE_BEFORE_CLOSED = true.
Proof. reflexivity. Qed.
Print Assumptions C11_source_delete_active_before_closed.

(* a failing read during the load of an index leaves the index as it was (structural fact re-extracted on every run; finding F33) *)
Theorem C11_source_index_load_is_one_step : Pearl.Generated.Facts.INDEX_LOAD_REPLACES_RECORDS_AND_FILTERS_TOGETHER = true.
Proof. reflexivity. Qed.
Print Assumptions C11_source_index_load_is_one_step.
