(* C11 I/O fault containment. Statements only. *)
Require Import Pearl.Base.Prelude Pearl.Storage.Model Pearl.Storage.Spec Pearl.Storage.Inv Pearl.Storage.Theorems
               Pearl.Storage.Fault Pearl.Storage.FaultProofs.

(* a failed record append is contained after every history: log and reads untouched
   (Blob::write returns before the index is touched) *)
Theorem C11_append_failure_contained :
  forall (K : N) (cfg : config) (ops : list op) (k : N),
    abs (append_fails (reach K cfg ops)) = abs (reach K cfg ops) /\
    get_latest_entry (append_fails (reach K cfg ops)) k None = get_latest_entry (reach K cfg ops) k None.
Proof. exact append_failure_contained. Qed.

(* a failed index dump keeps every byte of the log ... *)
Theorem C11_dump_failure_keeps_log :
  forall (s : storage) (id : N), abs (dump_fails_on s id) = abs s.
Proof. exact dump_failure_keeps_log. Qed.

(* ... but containment is REFUTED by the faithful model (finding F9): the blob's acknowledged records are
   not served for the rest of the session (the in-memory headers were moved out before the fallible call) *)
Theorem C11_dump_failure_loses_records_refuted :
  let s := fst (step 4 f_cfg (reach 4 f_cfg f_hist) OCloseActive) in
  get_latest_entry s 1 None = Found (mk_rec 1 7 false None 8 5 1) /\
  get_latest_entry (dump_fails_on s 0) 1 None = NotFound /\
  spec_read (abs (dump_fails_on s 0)) 1 = Found (mk_rec 1 7 false None 8 5 1).
Proof. exact dump_failure_loses_records. Qed.

(* REFUTED (finding F15): an fsync failure inside close_active_blob drops the whole active blob *)
Theorem C11_close_fsync_failure_loses_blob_refuted :
  let s := reach 4 f_cfg f_hist in
  get_latest_entry s 2 None = Found (mk_rec 2 7 false None 8 5 2) /\
  get_latest_entry (close_active_fsync_fails s) 2 None = NotFound /\ abs (close_active_fsync_fails s) = [].
Proof. exact close_fsync_failure_loses_blob. Qed.

Print Assumptions C11_append_failure_contained.
Print Assumptions C11_dump_failure_keeps_log.
Print Assumptions C11_dump_failure_loses_records_refuted.
Print Assumptions C11_close_fsync_failure_loses_blob_refuted.
