(* C11 I/O fault containment. Statements only.
   Three of the faults below used to be REFUTED by the faithful model; the code was repaired
   (F9: commit e3d3ed5, F15: commit 20e4a83, F1: commit 62103db) and the model (Storage/Fault.v) follows it. *)
Require Import Pearl.Base.Prelude Pearl.Storage.Model Pearl.Storage.Spec Pearl.Storage.Inv Pearl.Storage.Theorems
               Pearl.Storage.Fault Pearl.Storage.FaultProofs.

Require Pearl.Generated.Facts.
(* a failed record append is contained after every history: log and reads untouched
   (Blob::write returns before the index is touched) *)
Theorem C11_append_failure_contained :
  forall (K : N) (cfg : config) (ops : list op) (k : N),
    abs (append_fails (reach K cfg ops)) = abs (reach K cfg ops) /\
    get_latest_entry (append_fails (reach K cfg ops)) k None = get_latest_entry (reach K cfg ops) k None.
Proof. exact append_failure_contained. Qed.

(* a failed index dump keeps every byte of the log ... *)
Theorem C11_dump_failure_keeps_log :
  forall (s : storage) (id : N), abs (dump_fails_on s id) = abs s.
Proof. exact dump_failure_keeps_log. Qed.

(* ... and is contained: every read answers as before, in every state (the headers taken out of the in-memory
   index while the file is written are put back when the write fails). Before commit e3d3ed5 of the code this
   was refuted (finding F9: the blob's acknowledged records were not served for the rest of the session). *)
Theorem C11_dump_failure_contained :
  forall (s : storage) (id k : N),
    get_latest_entry (dump_fails_on s id) k None = get_latest_entry s k None /\
    abs (dump_fails_on s id) = abs s.
Proof. exact dump_failure_contained. Qed.

(* in fact the storage is as it was *)
Theorem C11_dump_failure_changes_nothing :
  forall (s : storage) (id : N), dump_fails_on s id = s.
Proof. exact dump_fails_on_id. Qed.

(* computed on a concrete history: the record stays readable after the failed dump of its blob *)
Theorem C11_dump_failure_keeps_records :
  let s := fst (step 4 f_cfg (reach 4 f_cfg f_hist) OCloseActive) in
  get_latest_entry s 1 None = Found (mk_rec 1 7 false None 8 5 1) /\
  get_latest_entry (dump_fails_on s 0) 1 None = Found (mk_rec 1 7 false None 8 5 1) /\
  spec_read (abs (dump_fails_on s 0)) 1 = Found (mk_rec 1 7 false None 8 5 1).
Proof. exact dump_failure_keeps_records. Qed.

(* an fsync failure inside close_active_blob is contained: the blob is synced while it still is the active
   one, so the error leaves the storage as it was -- hence every read and the log. Before commit 20e4a83 of
   the code this was refuted (finding F15: the whole active blob was dropped). *)
Theorem C11_close_fsync_failure_contained :
  forall (s : storage), close_active_fsync_fails s = s.
Proof. exact close_fsync_failure_contained. Qed.

(* computed on the same history: the record stays readable after the failed close, the blob stays active *)
Theorem C11_close_fsync_failure_keeps_blob :
  let s := reach 4 f_cfg f_hist in
  get_latest_entry s 2 None = Found (mk_rec 2 7 false None 8 5 2) /\
  get_latest_entry (close_active_fsync_fails s) 2 None = Found (mk_rec 2 7 false None 8 5 2) /\
  abs (close_active_fsync_fails s) = abs s /\ length (abs (close_active_fsync_fails s)) = 2%nat /\
  s_active (close_active_fsync_fails s) = s_active s.
Proof. exact close_fsync_failure_keeps_blob. Qed.

(* a failed blob creation while the worker rotates is contained: one blob id is used up, nothing else -- the
   log, the reads and the worker are as before and the ids stay fresh. Before commit 62103db of the code the
   worker panicked (finding F1). *)
Theorem C11_rotation_failure_contained :
  forall (s : storage) (k : N),
    abs (rotation_create_fails s) = abs s /\
    get_latest_entry (rotation_create_fails s) k None = get_latest_entry s k None /\
    s_alive (rotation_create_fails s) = s_alive s /\
    (IdsOk s -> IdsOk (rotation_create_fails s)).
Proof. exact rotation_failure_contained. Qed.

(* the whole invariant of C03 survives it *)
Theorem C11_rotation_failure_keeps_invariant :
  forall (K : N) (s : storage), Inv K s -> Inv K (rotation_create_fails s).
Proof. exact rotation_failure_Inv. Qed.

(* computed: after the failed rotation both records are served, the worker lives, the next write lands *)
Theorem C11_rotation_failure_keeps_going :
  let s := rotation_create_fails (reach 4 f_cfg f_hist) in
  get_latest_entry s 1 None = Found (mk_rec 1 7 false None 8 5 1) /\
  get_latest_entry s 2 None = Found (mk_rec 2 7 false None 8 5 2) /\
  s_alive s = true /\ s_next s = 2 /\
  get_latest_entry (fst (step_q 4 f_cfg s (OWrite 3 7 None 8 5 3))) 3 None = Found (mk_rec 3 7 false None 8 5 3).
Proof. exact rotation_failure_keeps_going. Qed.

(* ---- structural facts re-extracted from the Rust source on every run (tools/extract_src.py, Generated/Facts.v):
   the orderings inside the code that the models used above assume. A change of the code that invalidates one turns
   the generated boolean into `false` and this file no longer compiles. ---- *)
(* Storage/Fault.v close_active_fsync_fails = identity *)
Theorem C11_source_close_syncs_before_take : Pearl.Generated.Facts.CLOSE_SYNCS_BEFORE_TAKE = true.
Proof. reflexivity. Qed.
(* Storage/Fault.v dump_fails = identity *)
Theorem C11_source_dump_puts_headers_back : Pearl.Generated.Facts.DUMP_PUTS_HEADERS_BACK = true.
Proof. reflexivity. Qed.
(* Storage/Fault.v rotation_create_fails keeps the worker alive *)
Theorem C11_source_background_failures_logged : Pearl.Generated.Facts.BACKGROUND_FAILURES_ARE_LOGGED = true.
Proof. reflexivity. Qed.
(* Storage/Fault.v append_fails = identity also for the size counter *)
Theorem C11_source_append_resyncs_size : Pearl.Generated.Facts.APPEND_RESERVES_THEN_WRITES = true.
Proof. reflexivity. Qed.

Print Assumptions C11_append_failure_contained.
Print Assumptions C11_dump_failure_keeps_log.
Print Assumptions C11_dump_failure_contained.
Print Assumptions C11_dump_failure_changes_nothing.
Print Assumptions C11_dump_failure_keeps_records.
Print Assumptions C11_close_fsync_failure_contained.
Print Assumptions C11_close_fsync_failure_keeps_blob.
Print Assumptions C11_rotation_failure_contained.
Print Assumptions C11_rotation_failure_keeps_invariant.
Print Assumptions C11_rotation_failure_keeps_going.
Print Assumptions C11_source_close_syncs_before_take.
Print Assumptions C11_source_dump_puts_headers_back.
Print Assumptions C11_source_background_failures_logged.
Print Assumptions C11_source_append_resyncs_size.
