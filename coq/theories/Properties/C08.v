(* C08 Concurrent clients. Statements only. *)
Require Import Pearl.Base.Prelude Pearl.Storage.Model Pearl.Storage.Spec Pearl.Storage.Theorems Pearl.Conc.Steps
               Pearl.Conc.StepsProofs.

Require Pearl.Generated.Facts.
(* For EVERY schedule of any number of clients, each running any program, the interleaved execution of the
   atomic steps equals a SEQUENTIAL history (its linearization): same final state, same answers in order.
   Hence every answer is the answer of the sequential model at its linearization point (C01/C02), and at
   quiescence the storage equals the sequential model. Atomicity of the steps is argued from lock scopes
   (Conc/Steps.v), not proved; the real scheduler is sampled by the check. *)
Theorem C08_every_interleaving_is_sequential :
  forall (K : N) (cfg : config) (sched : list nat) (s : storage) (progs : list (list op)),
    fst (run_sched K cfg s progs sched) = fst (run K cfg s (linearization progs sched)) /\
    map snd (snd (run_sched K cfg s progs sched)) = snd (run K cfg s (linearization progs sched)).
Proof. exact run_sched_is_sequential. Qed.

(* the linearization respects every client's own order *)
Theorem C08_program_order_preserved :
  forall (sched : list nat) (progs : list (list op)) (me : nat),
    exists rest, nth me progs [] = client_ops progs sched me ++ rest.
Proof. exact client_order_preserved. Qed.

(* REFUTED for allow_duplicates = false (finding F12): the duplicate check is a separate step *)
Theorem C08_duplicate_check_not_atomic_refuted :
  let s0 := fst (run 4 cfg_nodup init_storage [OOpen false]) in
  snd (step_q 4 cfg_nodup s0 (OContains 1)) = RRead NotFound /\
  length (abs (fst (run 4 cfg_dup s0 [OWrite 1 7 None 8 5 1; OWrite 1 8 None 8 5 2]))) = 2%nat /\
  length (abs (fst (run 4 cfg_nodup s0 [OWrite 1 7 None 8 5 1; OWrite 1 8 None 8 5 2]))) = 1%nat /\
  length (abs (fst (run 4 cfg_nodup s0 [OWrite 1 8 None 8 5 2; OWrite 1 7 None 8 5 1]))) = 1%nat.
Proof. exact f12_interleaving_stores_both. Qed.

(* "no operation deadlocks", for the lock / channel protocol of write and delete (Conc/Steps.v): since commit
   62ff185 of the code the notifications are sent with try_send, and for EVERY channel capacity and every number of
   writers no writer ever waits in send while it holds the storage lock, no reachable state is deadlocked, the queue
   stays within the capacity and a worker waiting for the write lock is granted it. *)
Theorem C08_no_writer_blocks_under_the_lock :
  forall (cap : N) (s : proto), preach cap proto_init s -> p_blocked_senders s = 0.
Proof. exact no_sender_ever_blocks. Qed.
Theorem C08_no_deadlock :
  forall (cap : N) (s : proto), preach cap proto_init s -> ~ deadlocked cap s.
Proof. exact never_deadlocked. Qed.
Theorem C08_queue_bounded :
  forall (cap : N) (s : proto), preach cap proto_init s -> p_queue s <= cap.
Proof. exact queue_bounded. Qed.
Theorem C08_worker_gets_the_lock :
  forall (cap : N) (s : proto), preach cap proto_init s -> p_worker_waits_write s = true ->
    exists s', pstep cap s s' /\ p_worker_waits_write s' = false.
Proof. exact worker_gets_the_lock. Qed.

(* the protocol of the pinned code (send().await under the lock) deadlocked for every capacity: cap + 1 writers and
   one rotation request (finding F10); kept as the record of what the repair removed *)
Theorem C08_old_protocol_deadlocks :
  forall cap : N, 0 < cap -> exists s, preach_old cap proto_init s /\ deadlocked cap s.
Proof. exact f10_old_protocol_deadlocks. Qed.
Theorem C08_old_deadlock_is_a_trap :
  forall (cap : N) (s : proto), deadlocked cap s -> forall s', pstep_old cap s s' -> deadlocked cap s'.
Proof. exact old_deadlocked_is_trap. Qed.

(* ---- structural facts re-extracted from the Rust source on every run (tools/extract_src.py, Generated/Facts.v):
   the orderings inside the code that the models used above assume. A change of the code that invalidates one turns
   the generated boolean into `false` and this file no longer compiles. ---- *)
(* the protocol `pstep` of Conc/Steps.v (try_send) is the one the code follows *)
Theorem C08_source_hints_never_wait : Pearl.Generated.Facts.HINTS_NEVER_WAIT = true.
Proof. reflexivity. Qed.
(* write does not hold the (fair) storage lock while its duplicate check takes it again *)
Theorem C08_source_dupcheck_before_lock : Pearl.Generated.Facts.WRITE_DUPCHECK_BEFORE_LOCK = true.
Proof. reflexivity. Qed.

Print Assumptions C08_every_interleaving_is_sequential.
Print Assumptions C08_program_order_preserved.
Print Assumptions C08_duplicate_check_not_atomic_refuted.
Print Assumptions C08_no_writer_blocks_under_the_lock.
Print Assumptions C08_no_deadlock.
Print Assumptions C08_queue_bounded.
Print Assumptions C08_worker_gets_the_lock.
Print Assumptions C08_old_protocol_deadlocks.
Print Assumptions C08_old_deadlock_is_a_trap.
Print Assumptions C08_source_hints_never_wait.
Print Assumptions C08_source_dupcheck_before_lock.
