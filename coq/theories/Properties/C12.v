(* C12 Sync discipline. Statements only; the meaning/protocol theorems of Io/TraceProofs.v are added when proved. *)
Require Import Pearl.Base.Prelude Pearl.Storage.Model Pearl.Io.Trace.

(* conformance example: the extracted predicates accept the protocol of a blob with two records and its index dump,
   and reject a trace that marks the index complete before the blob was synced *)
Example C12_protocol_example :
  judge (open_new_evs 0 ++ [EvAppend (FBlob, 0) 20 74; EvAppend (FBlob, 0) 94 74] ++ dump_evs 0) = true.
Proof. vm_compute. reflexivity. Qed.

Theorem C12_unsynced_index_rejected :
  judge_from ev_index_after_sync []
    (open_new_evs 0 ++ [EvAppend (FBlob, 0) 20 74; EvCreate (FIndex, 0); EvAppend (FIndex, 0) 0 249; EvWriteAt (FIndex, 0) 0 83]) = false.
Proof. vm_compute. reflexivity. Qed.

Print Assumptions C12_unsynced_index_rejected.
