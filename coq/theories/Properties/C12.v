(* C12 Sync discipline: bounded un-synced data and write ordering for durability. Statements only. *)
Require Import Pearl.Base.Prelude Pearl.Storage.Model Pearl.Storage.Spec Pearl.Storage.NoHarmProofs Pearl.Io.Trace Pearl.Io.TraceProofs.

Require Pearl.Generated.Facts.
Require Pearl.Conc.SyncAcct Pearl.Conc.SyncAcctProofs.
Module SA := Pearl.Conc.SyncAcct.
Module SAP := Pearl.Conc.SyncAcctProofs.
Require Pearl.Conc.SyncHint Pearl.Conc.SyncHintProofs.
Module SH := Pearl.Conc.SyncHint.
Module SHP := Pearl.Conc.SyncHintProofs.
(* EVERY history of the storage model (all operations, restarts, drops, background requests, dumps at
   quiescence points) produces a file-operation trace that the three predicates accept: appends land at
   the end of their blob, a blob's header is synced before any record goes into it, and an index file is
   marked complete only when every byte of its blob is synced.
   (`no_cut ops`: the trace is what the storage asks of the file system; a blob file cut by a crash behind its back
   -- OCut, no event -- makes the next append land below the length the trace has followed.) *)
Theorem C12_every_history_trace_accepted :
  forall (K : N) (cfg : config) (ops : list op), no_cut ops -> judge (run_trace K cfg init_storage ops) = true.
Proof. exact history_trace_accepted. Qed.

(* what acceptance means, in terms of the file-state machine (length, synced length) of the trace itself;
   the SAME predicates, extracted, judge the trace recorded from the real crate on every check run *)
Theorem C12_header_synced_before_records :
  forall (tr1 tr2 : list ev) (i off len : N),
    judge_from ev_header_synced [] (tr1 ++ EvAppend (FBlob, i) off len :: tr2) = true -> off <> 0 ->
    match fget (run_evs [] tr1) (FBlob, i) with Some (_, sy) => 20 <= sy | None => True end.
Proof. exact header_synced_meaning. Qed.

Theorem C12_index_complete_only_after_blob_synced :
  forall (tr1 tr2 : list ev) (i len : N),
    judge_from ev_index_after_sync [] (tr1 ++ EvWriteAt (FIndex, i) 0 len :: tr2) = true ->
    match fget (run_evs [] tr1) (FBlob, i) with Some (sz, sy) => sz = sy | None => True end.
Proof. exact index_after_sync_meaning. Qed.

(* the blob/index protocol (create, header, sync, any number of records, dump) is accepted and leaves no
   un-synced byte of the blob *)
Theorem C12_protocol_accepted :
  forall (K id : N) (rs : list rec), judge (open_new_evs id ++ appends_from K id 20 rs ++ dump_evs id) = true.
Proof. exact protocol_accepted. Qed.
Theorem C12_protocol_clean :
  forall (K id : N) (rs : list rec),
    dirty_of (open_new_evs id ++ appends_from K id 20 rs ++ dump_evs id) (FBlob, id) = 0.
Proof. exact protocol_clean. Qed.

(* the files the predicted trace leaves behind are the blobs of the final model state *)
Theorem C12_trace_matches_state :
  forall (K : N) (cfg : config) (ops : list op) (b : blob),
    no_cut ops ->
    In b (blobs_in_order (fst (run K cfg init_storage ops))) ->
    exists sy, fget (run_evs [] (run_trace K cfg init_storage ops)) (FBlob, b_id b) = Some (blob_size K b, sy) /\ 20 <= sy.
Proof. exact history_files_match. Qed.

(* with crash damage in the history: judged from a file state that matches the directory as the crash left it (FR: every
   blob file with the length the model gives it and a synced header, no other blob file), the trace of every
   continuation without further damage is accepted and its files match the final state *)
Theorem C12_trace_after_crash_accepted :
  forall (K : N) (cfg : config) (ops1 ops2 : list op) (st : fstate),
    let s := fst (run K cfg init_storage ops1) in
    no_cut ops2 -> s_bad s = [] -> FR K (blobs_in_order s) st ->
    judge_from ev_harmless st (run_trace K cfg s ops2) && judge_from ev_header_synced st (run_trace K cfg s ops2)
      && judge_from ev_index_after_sync st (run_trace K cfg s ops2) = true /\
    FR K (blobs_in_order (fst (run K cfg s ops2))) (run_evs st (run_trace K cfg s ops2)).
Proof. exact trace_after_crash_accepted. Qed.
(* why `no_cut`: the trace has no event for the damage, and the append after the restart lands below the length followed *)
Theorem C12_cut_trace_not_accepted :
  let cfg := {| c_dup := true; c_maxrec := 1000; c_maxsize := 1000000 |} in
  judge (run_trace 4 cfg init_storage
           [OOpen false; OWrite 1 7 None 8 5 1; OWrite 2 8 None 8 5 2; ODrop; OCut 0 (Some 1%nat); OOpen false;
            OWrite 3 9 None 8 5 3]) = false /\
  judge (run_trace 4 cfg init_storage
           [OOpen false; OWrite 1 7 None 8 5 1; OWrite 2 8 None 8 5 2; ODrop; OOpen false; OWrite 3 9 None 8 5 3]) = true.
Proof. exact cut_trace_not_accepted. Qed.

(* a trace that marks the index complete before the blob was synced is rejected *)
Theorem C12_unsynced_index_rejected :
  judge_from ev_index_after_sync []
    (open_new_evs 0 ++ [EvAppend (FBlob, 0) 20 74; EvCreate (FIndex, 0); EvAppend (FIndex, 0) 0 249; EvWriteAt (FIndex, 0) 0 83]) = false.
Proof. vm_compute. reflexivity. Qed.

(* ---- the accounting of un-synced bytes under concurrency (Conc/SyncAcct.v): any number of appends (count itself in
   flight, reserve, write, read `size`, leave; the last one out raises `written_size`) and of syncs (read
   `written_size`, fdatasync, raise `synced_size`), every interleaving of their atomic steps, any lengths. `g_durable` is
   the ghost "everything that had landed when a completed fdatasync began"; `clp` the contiguous landed prefix. ---- *)
(* what is counted as synced is durable, what is durable has landed: `dirty_bytes()` never under-reports *)
Theorem C12_synced_never_exceeds_durable : forall (b : N) (ths : list SA.thread) (sched : list nat),
  SA.fresh ths ->
  let '(g, ths') := SA.run SA.PNew (SA.init b ths) sched in
  (SA.g_synced g <= SA.g_durable g /\ SA.g_durable g <= SA.clp ths' (SA.g_size g) /\ SA.g_written g <= SA.clp ths' (SA.g_size g))%N.
Proof. exact SAP.acct_sound. Qed.
Theorem C12_dirty_bytes_overapproximate : forall (b : N) (ths : list SA.thread) (sched : list nat),
  SA.fresh ths ->
  let '(g, _) := SA.run SA.PNew (SA.init b ths) sched in (SA.g_size g - SA.g_synced g >= SA.g_size g - SA.g_durable g)%N.
Proof. exact SAP.dirty_overapproximates. Qed.
(* the accounting before the repair 91f0177 (a sync records `size`): a schedule on which bytes are counted as synced
   that no sync covers (finding F25; replayed on the crate by regress/C12/f25_*.txt) *)
Theorem C12_old_accounting_refuted : exists (b : N) (ths : list SA.thread) (sched : list nat),
  SA.fresh ths /\ (let '(g, _) := SA.run SA.POldSyncLoadsSize (SA.init b ths) sched in (SA.g_durable g < SA.g_synced g)%N).
Proof. exact SAP.old_protocol_refuted. Qed.
(* the order inside the end of an append matters: reading `size` after the decrement is refuted as well *)
Theorem C12_load_after_decrement_refuted : exists (b : N) (ths : list SA.thread) (sched : list nat),
  SA.fresh ths /\ (let '(g, _) := SA.run SA.PLoadAfterDecrement (SA.init b ths) sched in (SA.g_durable g < SA.g_synced g)%N).
Proof. exact SAP.load_after_decrement_refuted. Qed.
(* with appends serialised by the caller (the upgradable lock of Blob::write: `sstep` lets an append start only when
   none is in flight) the counter is exact whenever no append is in flight, and a sync that runs then leaves no
   un-synced byte: the "after an explicit fsyncdata no un-synced bytes remain" clause *)
Theorem C12_single_writer_precise : forall (b : N) (ths : list SA.thread) (sched : list nat),
  SA.fresh ths ->
  let '(g, _) := fold_left SA.sstep sched (SA.init b ths) in SA.g_pending g = 0%N -> SA.g_written g = SA.g_size g.
Proof. exact SAP.single_writer_precise. Qed.
Theorem C12_sync_when_quiet_covers_everything : forall (b : N) (ths : list SA.thread) (sched : list nat),
  SA.fresh ths ->
  let '(g, ths') := fold_left SA.sstep sched (SA.init b ths) in
  SA.g_pending g = 0%N ->
  let k := length ths' in
  let '(g2, ths2) := SA.sstep (SA.sstep (SA.sstep (g, ths' ++ SA.TS SA.SNew :: nil) k) k) k in
  SA.g_synced g2 = SA.g_size g2 /\ SA.g_durable g2 = SA.g_size g2 /\ SA.g_size g2 = SA.g_size g /\ ths2 = ths' ++ SA.TS SA.SDone :: nil.
Proof. exact SAP.sync_when_quiet_covers_everything. Qed.
(* without that lock the counter stays safe but may lag behind (documented, not a violation) *)
Theorem C12_concurrent_appends_may_underestimate : exists (b : N) (ths : list SA.thread) (sched : list nat),
  SA.fresh ths /\ (let '(g, ths') := SA.run SA.PNew (SA.init b ths) sched in
    forallb SA.is_done ths' = true /\ SA.g_pending g = 0%N /\ (SA.g_written g < SA.g_size g)%N).
Proof. exact SAP.concurrent_appends_may_underestimate. Qed.
(* the hypotheses are met by runs that finish: 3 appends, 2 syncs, base size 100 *)
Example C12_accounting_example : SA.fresh SAP.ex_ths /\
  (forallb SA.is_done (snd (SA.run SA.PNew (SA.init 100 SAP.ex_ths) SAP.ex_sched)) = true) /\
  (SA.g_synced (fst (SA.run SA.PNew (SA.init 100 SAP.ex_ths) SAP.ex_sched)) = 123%N) /\
  (SA.g_size (fst (SA.run SA.PNew (SA.init 100 SAP.ex_ths) SAP.ex_sched)) = 123%N).
Proof. vm_compute. repeat split; reflexivity. Qed.

(* ---- "whenever the un-synced bytes exceed the limit a sync is performed without further client action"
   (Conc/SyncHint.v): any number of client writes of any lengths, the maintenance worker and the background sync task,
   every interleaving of their atomic steps. A terminal state is one in which nobody has anything left to do. ---- *)
Theorem C12_no_stuck_dirty_bytes : forall (L b : N) (ws : list SH.wthread) (sched : list SH.actor),
  SH.fresh ws ->
  let '(g, ws') := SH.run SH.PNew L (SH.init b ws) sched in
  SH.terminal (g, ws') = true -> (SH.g_size g - SH.g_synced g <= L)%N.
Proof. exact SHP.no_stuck_dirty_bytes. Qed.
(* ... and a terminal state is always reached: every state-changing step decreases a measure (no livelock of the
   look-again loop, the worker's wait for the old task always ends), a non-terminal state always has an enabled actor,
   and every prefix of a run can be completed to a terminal state, where the bytes are within the limit *)
Theorem C12_sync_protocol_progress : forall (L : N) (g : SH.glob) (ws : list SH.wthread),
  SH.terminal (g, ws) = false -> exists a : SH.actor, SH.step SH.PNew L (g, ws) a <> (g, ws).
Proof. exact SHP.progress_any. Qed.
Theorem C12_sync_protocol_terminates : forall (L : N) (st : SH.glob * list SH.wthread) (a : SH.actor),
  SH.step SH.PNew L st a <> st -> (SHP.mu L (SH.step SH.PNew L st a) < SHP.mu L st)%nat.
Proof. exact SHP.step_decreases. Qed.
Theorem C12_eventually_synced : forall (L b : N) (ws : list SH.wthread) (pre : list SH.actor),
  SH.fresh ws ->
  exists post : list SH.actor,
    let '(g, ws') := SH.run SH.PNew L (SH.init b ws) (pre ++ post) in
    SH.terminal (g, ws') = true /\ (SH.g_size g - SH.g_synced g <= L)%N.
Proof. exact SHP.eventually_synced. Qed.
(* the protocol before the repair 590f0ec: a write that crosses the limit while the flag is up is never synced
   (finding F13; replayed on the crate by regress/C12/f13_*.txt) *)
Theorem C12_old_sync_protocol_refuted : exists (L b : N) (ws : list SH.wthread) (sched : list SH.actor),
  SH.fresh ws /\ (let '(g, ws') := SH.run SH.POld L (SH.init b ws) sched in
    SH.terminal (g, ws') = true /\ (L < SH.g_size g - SH.g_synced g)%N).
Proof. exact SHP.old_protocol_refuted. Qed.
(* the look-again loop alone is not enough: with the old worker gate (a request is dropped while a task exists that has
   not returned yet) the request of a write that saw the flag down can still be lost *)
Theorem C12_new_loop_old_gate_refuted : exists (L b : N) (ws : list SH.wthread) (sched : list SH.actor),
  SH.fresh ws /\ (let '(g, ws') := SH.run SH.PNewLoopOldGate L (SH.init b ws) sched in
    SH.terminal (g, ws') = true /\ (L < SH.g_size g - SH.g_synced g)%N).
Proof. exact SHP.new_loop_old_gate_refuted. Qed.
(* the premise is met on the way: a run of three writes, limit 10, that is over the limit midway and ends within it *)
Example C12_sync_protocol_example : SH.fresh SHP.ex_ws /\
  (let '(g, ws') := SH.run SH.PNew 10 (SH.init 0 SHP.ex_ws) SHP.ex_sched in
    SH.terminal (g, ws') = true /\ SH.g_size g = 38%N /\ SH.g_synced g = 35%N /\ (SH.g_size g - SH.g_synced g <= 10)%N /\ (0 < SH.g_synced g)%N).
Proof. exact SHP.new_protocol_run. Qed.

(* ---- structural facts re-extracted from the Rust source on every run (tools/extract_src.py, Generated/Facts.v):
   the orderings inside the code that the models used above assume. A change of the code that invalidates one turns
   the generated boolean into `false` and this file no longer compiles. ---- *)
(* a writer cannot append to a blob between its last sync and its move to the closed blobs *)
Theorem C12_source_close_syncs_under_exclusive_lock : Pearl.Generated.Facts.CLOSE_SYNCS_UNDER_EXCLUSIVE_LOCK = true.
Proof. reflexivity. Qed.
(* bytes appended while a sync is in flight are not counted as synced: what a sync records is `written_size` as read
   before the sync started (step S1 of Conc/SyncAcct.v) *)
Theorem C12_source_synced_size_before_sync : Pearl.Generated.Facts.SYNCED_SIZE_CAPTURED_BEFORE_SYNC = true.
Proof. reflexivity. Qed.
(* an append counts itself as in flight before it reserves its range (steps A1, A2), and `written_size` is raised to the
   `size` read before the decrement only by the append that was the last one in flight (steps A4, A5) *)
Theorem C12_source_append_in_flight_then_reserve : Pearl.Generated.Facts.APPEND_RESERVES_THEN_WRITES = true.
Proof. reflexivity. Qed.
Theorem C12_source_written_size_only_when_quiet : Pearl.Generated.Facts.WRITTEN_SIZE_ADVANCES_ONLY_WHEN_QUIET = true.
Proof. reflexivity. Qed.
(* a failed sync does not switch the threshold syncs off *)
Theorem C12_source_fsync_flag_is_a_guard : Pearl.Generated.Facts.FSYNC_FLAG_IS_A_GUARD = true.
Proof. reflexivity. Qed.
(* the shape of the sync-hint protocol that Conc/SyncHint.v models: the background sync looks again after lowering its
   flag (steps T4, T5), every access to the flag is SeqCst, the worker drops a request only while a task exists AND the
   flag is up *)
Theorem C12_source_background_sync_looks_again : Pearl.Generated.Facts.BACKGROUND_SYNC_LOOKS_AGAIN = true.
Proof. reflexivity. Qed.
Theorem C12_source_fsync_flag_is_seqcst : Pearl.Generated.Facts.FSYNC_FLAG_IS_SEQCST = true.
Proof. reflexivity. Qed.
Theorem C12_source_worker_replaces_task_past_its_last_look : Pearl.Generated.Facts.WORKER_REPLACES_TASK_PAST_ITS_LAST_LOOK = true.
Proof. reflexivity. Qed.

Print Assumptions C12_every_history_trace_accepted.
Print Assumptions C12_no_stuck_dirty_bytes.
Print Assumptions C12_sync_protocol_progress.
Print Assumptions C12_sync_protocol_terminates.
Print Assumptions C12_eventually_synced.
Print Assumptions C12_old_sync_protocol_refuted.
Print Assumptions C12_new_loop_old_gate_refuted.
Print Assumptions C12_sync_protocol_example.
Print Assumptions C12_source_background_sync_looks_again.
Print Assumptions C12_source_fsync_flag_is_seqcst.
Print Assumptions C12_source_worker_replaces_task_past_its_last_look.
Print Assumptions C12_synced_never_exceeds_durable.
Print Assumptions C12_dirty_bytes_overapproximate.
Print Assumptions C12_old_accounting_refuted.
Print Assumptions C12_load_after_decrement_refuted.
Print Assumptions C12_single_writer_precise.
Print Assumptions C12_sync_when_quiet_covers_everything.
Print Assumptions C12_concurrent_appends_may_underestimate.
Print Assumptions C12_accounting_example.
Print Assumptions C12_header_synced_before_records.
Print Assumptions C12_index_complete_only_after_blob_synced.
Print Assumptions C12_protocol_accepted.
Print Assumptions C12_protocol_clean.
Print Assumptions C12_trace_matches_state.
Print Assumptions C12_source_synced_size_before_sync.
Print Assumptions C12_source_fsync_flag_is_a_guard.
Print Assumptions C12_source_append_in_flight_then_reserve.
Print Assumptions C12_source_written_size_only_when_quiet.
Print Assumptions C12_trace_after_crash_accepted.
Print Assumptions C12_cut_trace_not_accepted.
Print Assumptions C12_source_close_syncs_under_exclusive_lock.

(* the single-writer discipline assumed by C12_single_writer_precise (`sstep`: an append starts only when none is in flight) is what the code does since commit 30498d9: structural fact re-extracted on every run *)
Theorem C12_source_append_waits_for_appends_in_flight : Pearl.Generated.Facts.APPEND_WAITS_FOR_APPENDS_IN_FLIGHT = true.
Proof. reflexivity. Qed.
Print Assumptions C12_source_append_waits_for_appends_in_flight.
