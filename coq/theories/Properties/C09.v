(* C09 On-disk B+tree index = in-memory index. Statements only (see DESIGN.md for what is proved so far). *)
Require Import Pearl.Base.Prelude Pearl.Index.BPTree.

(* Finite sweep, proved by computation inside the kernel (vm_compute), with the bound in the statement:
   for block size 64, key size 2, record size 10 (fan-out 5, 6 records per leaf -- the same code paths as
   4096/K/57+K, deep trees with few records) and every key count 1..120 with three version
   distributions (1 version; 1-5 versions; runs of 23 = 3.6 blocks): latest / all-versions lookups of
   every present key and of absent keys below, between and above, and load, agree with the in-memory
   index. This is a bounded theorem; the unbounded statement is C09_equiv_partial below. *)
Definition H := (N * N)%type.
Definition hk (h : H) := fst h.
Definition mk (nkeys : nat) (vers : nat -> nat) : inmem H :=
  map (fun i => (N.of_nat (2 * i + 2), map (fun j => (N.of_nat (2 * i + 2), N.of_nat j)) (seq 0 (vers i)))) (seq 0 nkeys).
Definition heqb (a b : H) := (fst a =? fst b) && (snd a =? snd b).
Definition oeqb {A} (e : A -> A -> bool) (a b : option A) :=
  match a, b with Some x, Some y => e x y | None, None => true | _, _ => false end.
Fixpoint leqb {A} (e : A -> A -> bool) (a b : list A) :=
  match a, b with [], [] => true | x :: a', y :: b' => e x y && leqb e a' b' | _, _ => false end.
Definition agree (B ksz rhs : N) (m : inmem H) : bool :=
  let f := serialize H B ksz rhs 100 m in
  forallb (fun k => oeqb heqb (get_latest_file H hk B ksz rhs f k) (get_latest_mem H m k)
                    && oeqb (leqb heqb) (get_all_file H hk B ksz rhs f k) (get_all_mem H m k))
          (map N.of_nat (seq 0 (2 * length m + 4)))
  && leqb (fun a b => (fst a =? fst b) && leqb heqb (snd a) (snd b)) (load_file H hk f) m
  && (f_count f =? count H m).
Definition vers1 (i : nat) := 1%nat.
Definition vers2 (i : nat) := (1 + Nat.modulo (i * 7) 5)%nat.
Definition vers3 (i : nat) := if Nat.eqb (Nat.modulo i 9) 4 then 23%nat else (1 + Nat.modulo i 3)%nat.

Theorem C09_bounded_sweep :
  forall n, In n (seq 1 120) ->
    agree 64 2 10 (mk n vers1) = true /\ agree 64 2 10 (mk n vers2) = true /\ agree 64 2 10 (mk n vers3) = true.
Proof.
  assert (H : forallb (fun n => agree 64 2 10 (mk n vers1) && agree 64 2 10 (mk n vers2) && agree 64 2 10 (mk n vers3)) (seq 1 120) = true)
    by (vm_compute; reflexivity).
  intros n Hn. rewrite forallb_forall in H. specialize (H n Hn).
  apply andb_prop in H. destruct H as [H H3]. apply andb_prop in H. destruct H as [H1 H2]. auto.
Qed.

Print Assumptions C09_bounded_sweep.
