(* C05 Byte integrity: values round-trip exactly; altered bytes are never served. Statements only. *)
Require Import Pearl.Base.Prelude Pearl.Base.LE Pearl.Base.Crc Pearl.Base.CrcProofs
               Pearl.Generated.Consts Pearl.Format.Record Pearl.Format.RecordProofs.

(* (a) what Blob::write appends is header ++ meta ++ data with offset and header checksum patched in,
   for every data length: the 4096-byte single-pass threshold (regenerated constant
   MAX_SINGLE_PASS_DATA_SIZE) only decides whether one or two buffers are handed to pwrite *)
Theorem C05_write_record_bytes :
  forall (h : header) (meta data : bytes) (off : N),
    let h' := with_hcrc (with_off h off) (header_crc (with_off h off)) in
    write_record h meta data off = (encode_header h' ++ meta ++ data, h').
Proof. exact write_record_bytes. Qed.

(* (a) a stored record is read back byte for byte (Entry::load), wherever it sits in the blob, for every
   key, timestamp, metadata and data of every length *)
Theorem C05_entry_load_roundtrip :
  forall (prefix suffix key : bytes) (ts : N) (meta data : bytes),
    let '(b, h') := write_record (new_header key ts meta data) meta data (N.of_nat (length prefix)) in
    entry_load (prefix ++ b ++ suffix) h' = ROk (meta, data).
Proof. exact entry_load_roundtrip. Qed.

Theorem C05_decode_encode_header :
  forall h : header, wf_header h -> decode_header (encode_header h) = Some h.
Proof. exact decode_encode_header. Qed.

(* (b) CRC-32C detects every error pattern confined to a window of at most 32 bits, for every data
   length and every position of the window: d is the data as a bit string, e = 0^i b 0^j the pattern *)
Theorem C05_crc_detects_burst :
  forall (d : list bool) (i j : nat) (b : list bool),
    length d = (i + length b + j)%nat -> (length b <= 32)%nat -> existsb (fun x => x) b = true ->
    crc (xorl d (repeat false i ++ b ++ repeat false j)) <> crc d.
Proof. exact crc_detects_burst. Qed.

Theorem C05_crc32c_detects_burst32 :
  forall (d d' : bytes) (i j : nat) (b : list bool),
    bits_of d' = xorl (bits_of d) (repeat false i ++ b ++ repeat false j) ->
    length (bits_of d) = (i + length b + j)%nat -> (length b <= 32)%nat -> existsb (fun x => x) b = true ->
    crc32c d' <> crc32c d.
Proof. exact crc32c_detects_burst32. Qed.

Theorem C05_crc32c_detects_4_bytes :
  forall p w w' s : bytes,
    wf_bytes w -> wf_bytes w' -> length w = length w' -> (length w <= 4)%nat -> w <> w' ->
    crc32c (p ++ w ++ s) <> crc32c (p ++ w' ++ s).
Proof. exact crc32c_detects_4_bytes. Qed.

(* (c) data bytes whose checksum differs from the recorded one are never returned by a read *)
Theorem C05_altered_data_not_served :
  forall (prefix suffix : bytes) (h' : header) (meta data data' : bytes),
    length data' = length data -> crc32c data' <> crc32c data ->
    h_dcrc h' = crc32c data -> h_msize h' = N.of_nat (length meta) -> h_dsize h' = N.of_nat (length data) ->
    h_off h' = N.of_nat (length prefix) ->
    forall r, entry_load (prefix ++ encode_header h' ++ meta ++ data' ++ suffix) h' = r -> exists e, r = RFail e.
Proof. exact altered_data_not_served. Qed.

(* the byte-wise function the model runs is the bit-serial CRC the burst theorem is about *)
Theorem C05_crc32c_is_bit_serial : forall bs : bytes, crc32c bs = crc (bits_of bs).
Proof. exact crc32c_bits. Qed.

(* conformance: the standard check value of CRC-32C *)
Example C05_check_value : crc32c [49;50;51;52;53;54;55;56;57] = 0xE3069283.
Proof. vm_compute. reflexivity. Qed.

Print Assumptions C05_write_record_bytes.
Print Assumptions C05_entry_load_roundtrip.
Print Assumptions C05_decode_encode_header.
Print Assumptions C05_crc_detects_burst.
Print Assumptions C05_crc32c_detects_burst32.
Print Assumptions C05_crc32c_detects_4_bytes.
Print Assumptions C05_altered_data_not_served.
Print Assumptions C05_crc32c_is_bit_serial.
