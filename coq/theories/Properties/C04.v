(* C04 Representation transparency: lifecycle and maintenance never change answers. Statements only. *)
Require Import Pearl.Base.Prelude Pearl.Storage.Model Pearl.Storage.Spec Pearl.Storage.Inv
               Pearl.Storage.ReadProofs Pearl.Storage.InvProofs Pearl.Storage.Theorems.

(* After every history, an operation that is not a write or a delete -- close / create / restore of the
   active blob (direct or through the background worker, applicable or not), force_update with any
   predicate, free_excess_resources, index dumps completing at the quiescence point, sleep, counters,
   close, drop, open, index removal -- leaves the log (the abstraction every query is a function of)
   exactly as it was. *)
Theorem C04_log_unchanged :
  forall (K : N) (cfg : config) (ops : list op) (o : op),
    is_data_op o = false ->
    abs (fst (step_q K cfg (reach K cfg ops) o)) = abs (reach K cfg ops).
Proof. exact reach_nondata_abs. Qed.

(* hence read / contains answer as before *)
Theorem C04_read_unchanged :
  forall (K : N) (cfg : config) (ops : list op) (o : op) (k : N),
    is_data_op o = false -> s_f2 (reach K cfg (ops ++ [o])) = false ->
    get_latest_entry (reach K cfg (ops ++ [o])) k None = get_latest_entry (reach K cfg ops) k None.
Proof. exact reach_maint_read. Qed.

(* and the invariant under which every later operation is defined is kept by every operation *)
Theorem C04_invariant_kept :
  forall (K : N) (cfg : config) (ops : list op),
    s_f2 (reach K cfg ops) = false -> Inv K (reach K cfg ops).
Proof. exact reach_Inv. Qed.

(* "After any of them the storage keeps accepting writes" is REFUTED by the faithful model (finding F2):
   after the index of a closed blob was dumped, try_restore_active_blob makes it active as it is, and the
   next write appends its bytes and then fails with ErrorKind::Index. Witness by computation: *)
Definition c04_cfg : config := {| c_dup := true; c_maxrec := 1000; c_maxsize := 1000000 |}.
Example C04_still_writable_refuted :
  snd (step_q 4 c04_cfg (reach 4 c04_cfg [OOpen false; OWrite 1 7 None 8 5 1; OCloseActive; ORestoreActive])
                (OWrite 1 9 None 8 5 2)) = RErr EIndex.
Proof. vm_compute. reflexivity. Qed.

Print Assumptions C04_log_unchanged.
Print Assumptions C04_read_unchanged.
Print Assumptions C04_invariant_kept.
