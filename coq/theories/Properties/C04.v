(* C04 Representation transparency: lifecycle and maintenance never change answers. Statements only. *)
Require Import Pearl.Base.Prelude Pearl.Storage.Model Pearl.Storage.Spec Pearl.Storage.Inv
               Pearl.Storage.ReadProofs Pearl.Storage.InvProofs Pearl.Storage.Theorems.
Require Pearl.Generated.Facts.

(* After every history, an operation that is not a write or a delete (nor damage done to a blob file by a crash between
   two sessions, OCut, which is not an operation of the storage: is_data_op counts it with them) -- close / create / restore of the
   active blob (direct or through the background worker, applicable or not), force_update with any
   predicate, free_excess_resources, index dumps completing at the quiescence point, sleep, counters,
   close, drop, open, index removal -- leaves the log (the abstraction every query is a function of)
   exactly as it was. (`s_bad (reach K cfg ops) = []`: no blob file was made unreadable by a crash since the last
   start -- always so while the storage is open, C03_open_storage_has_no_unreadable_file; an `open` after such damage
   moves the file away, C06_cut_inside_quarantines.) *)
Theorem C04_log_unchanged :
  forall (K : N) (cfg : config) (ops : list op) (o : op),
    is_data_op o = false -> s_bad (reach K cfg ops) = [] ->
    abs (fst (step_q K cfg (reach K cfg ops) o)) = abs (reach K cfg ops).
Proof. exact reach_nondata_abs. Qed.

(* without proviso, for EVERY history (crash damage included): the log is as it was, except that `open` drops the records
   of the blob files a crash made unreadable (readable_log s = abs s when there is none, readable_log_no_bad) *)
Theorem C04_log_unchanged_or_readable :
  forall (K : N) (cfg : config) (ops : list op) (o : op),
    is_data_op o = false ->
    abs (fst (step_q K cfg (reach K cfg ops) o))
    = match o with OOpen _ => readable_log (reach K cfg ops) | _ => abs (reach K cfg ops) end.
Proof. exact reach_nondata_abs_gen. Qed.
Theorem C04_readable_log_is_the_log_without_damage :
  forall s : storage, s_bad s = [] -> readable_log s = abs s.
Proof. exact readable_log_no_bad. Qed.

(* hence read / contains answer as before *)
Theorem C04_read_unchanged :
  forall (K : N) (cfg : config) (ops : list op) (o : op) (k : N),
    is_data_op o = false -> s_bad (reach K cfg ops) = [] ->
    get_latest_entry (reach K cfg (ops ++ [o])) k None = get_latest_entry (reach K cfg ops) k None.
Proof. exact reach_maint_read. Qed.

(* and the invariant under which every later operation is defined is kept by every operation *)
Theorem C04_invariant_kept :
  forall (K : N) (cfg : config) (ops : list op),
    Inv K (reach K cfg ops).
Proof. exact reach_Inv. Qed.

(* After any of them -- after any history at all -- the storage keeps accepting writes and deletes:
   neither is ever refused with ErrorKind::Index ...
   Before the repair of restore_active (commit ad9222f of the code) this was REFUTED (finding F2) by
   close_active; dump; restore_active; write: after the index of a closed blob was dumped,
   try_restore_active_blob made it active as it was, and the next write appended its bytes and then
   failed with ErrorKind::Index. The restored blob's index is now loaded into memory. *)
Theorem C04_still_writable :
  forall (K : N) (cfg : config) (ops : list op) (k ts : N) (meta : option N) (msize dlen dseed : N) (oip : bool),
    snd (step K cfg (reach K cfg ops) (OWrite k ts meta msize dlen dseed)) <> RErr EIndex /\
    snd (step K cfg (reach K cfg ops) (ODelete k ts meta msize oip)) <> RErr EIndex.
Proof. exact data_op_never_index_error. Qed.

(* ... and on an open storage every write is acknowledged *)
Theorem C04_write_acknowledged :
  forall (K : N) (cfg : config) (ops : list op) (k ts : N) (meta : option N) (msize dlen dseed : N),
    s_open (reach K cfg ops) = true ->
    snd (step K cfg (reach K cfg ops) (OWrite k ts meta msize dlen dseed)) = RUnit.
Proof. exact write_acknowledged. Qed.

(* the former witness of F2, by computation: the write after close_active; (dump at the quiescence
   point); restore_active is acknowledged *)
Definition c04_cfg : config := {| c_dup := true; c_maxrec := 1000; c_maxsize := 1000000 |}.
Example C04_still_writable_former_F2_history :
  snd (step_q 4 c04_cfg (reach 4 c04_cfg [OOpen false; OWrite 1 7 None 8 5 1; OCloseActive; ORestoreActive])
                (OWrite 1 9 None 8 5 2)) = RUnit.
Proof. vm_compute. reflexivity. Qed.

Print Assumptions C04_log_unchanged.
Print Assumptions C04_log_unchanged_or_readable.
Print Assumptions C04_readable_log_is_the_log_without_damage.
Print Assumptions C04_read_unchanged.
Print Assumptions C04_invariant_kept.
Print Assumptions C04_still_writable.
Print Assumptions C04_write_acknowledged.

(* closing a blob into a filter group whose filter was given up (after offload_buffer) must not re-initialise that filter
   from the new blob alone: structural fact re-extracted on every run *)
Theorem C04_source_group_filter_initialised_only_when_empty : Pearl.Generated.Facts.GROUP_FILTER_INITIALISED_ONLY_WHEN_EMPTY = true.
Proof. reflexivity. Qed.
Print Assumptions C04_source_group_filter_initialised_only_when_empty.
