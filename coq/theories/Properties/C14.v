(* C14 Cancellation safety. Statements only. *)
Require Import Pearl.Base.Prelude Pearl.Storage.Model Pearl.Storage.Spec Pearl.Storage.Cancel Pearl.Storage.CancelProofs.

Require Pearl.Generated.Facts.
(* a write dropped while its append is in flight never disturbs other keys (any state, any record) *)
Theorem C14_other_keys_untouched :
  forall (s : storage) (r : rec) (k : N),
    r_key r <> k -> of_key k (abs (cancel_write_midway s r)) = of_key k (abs s).
Proof. exact cancel_keeps_other_keys. Qed.

(* "not at all" within the session; "entirely" from the next start when the session ends without close *)
Theorem C14_invisible_in_session : get_latest_entry c_state 2 None = NotFound.
Proof. exact cancelled_write_invisible_in_session. Qed.
Theorem C14_visible_after_drop_and_open :
  get_latest_entry (fst (run 4 c_cfg c_state [ODrop; OOpen false])) 2 None = Found c_rec.
Proof. exact cancelled_write_visible_after_drop_and_open. Qed.

(* REFUTED (finding F18): after a regular close + open the write is still invisible, and it takes effect only
   when the index file is regenerated *)
Theorem C14_all_or_nothing_at_next_start_refuted :
  get_latest_entry (fst (run 4 c_cfg c_state [OClose; OOpen false])) 2 None = NotFound /\
  get_latest_entry (fst (run 4 c_cfg c_state [OClose; OOpen false; OClose; ORmIndex 0; OOpen false])) 2 None = Found c_rec.
Proof. exact cancelled_write_surfaces_only_after_index_removal. Qed.

(* ---- structural facts re-extracted from the Rust source on every run (tools/extract_src.py, Generated/Facts.v):
   the orderings inside the code that the models used above assume. A change of the code that invalidates one turns
   the generated boolean into `false` and this file no longer compiles. ---- *)
(* restore_active_blob has no suspension point between taking the blob out and installing it *)
Theorem C14_source_restore_is_atomic : Pearl.Generated.Facts.RESTORE_LOADS_BEFORE_POP = true.
Proof. reflexivity. Qed.
(* close_active_blob has no suspension point between taking the blob out and pushing it *)
Theorem C14_source_close_is_atomic : Pearl.Generated.Facts.CLOSE_SYNCS_BEFORE_TAKE = true.
Proof. reflexivity. Qed.
(* a dropped index dump leaves the in-memory index as it was *)
Theorem C14_source_dump_puts_headers_back : Pearl.Generated.Facts.DUMP_PUTS_HEADERS_BACK = true.
Proof. reflexivity. Qed.

Print Assumptions C14_other_keys_untouched.
Print Assumptions C14_all_or_nothing_at_next_start_refuted.
Print Assumptions C14_source_restore_is_atomic.
Print Assumptions C14_source_close_is_atomic.
Print Assumptions C14_source_dump_puts_headers_back.
