(* C14 Cancellation safety. Statements only.

   "Dropping the future of any public operation at any suspension point leaves the storage consistent: no other
    key is affected, later operations work, and the cancelled operation has either taken effect entirely or not
    at all -- at the latest from the next start."

   The states a dropped future may leave are `cancel_outcomes K cfg s o` (Storage/Cancel.v), defined from the
   suspension points of the code for write, delete, close_active, restore_active, create_active, the reads and
   the counters; "not started" (= s) and "completed" (= fst (step K cfg s o)) are among them.

   Verdict: (A) (B) (C) hold for every outcome of every public operation. (D) a write that did not complete is
   not there at all in the session; on disk it is entirely there, and a start that regenerates the index sees it;
   REFUTED for a start after a regular close (finding F18: the dumped index hides the record). (E) a delete that
   did not complete has written its marker to a subset of the blobs; every read of the key nevertheless answers
   as before the delete or as after the completed delete. *)
Require Import Pearl.Base.Prelude Pearl.Storage.Model Pearl.Storage.Spec Pearl.Storage.Inv Pearl.Storage.InvProofs
               Pearl.Storage.NoHarmProofs Pearl.Storage.Theorems Pearl.Storage.Cancel Pearl.Storage.CancelProofs.

Require Pearl.Generated.Facts.

(* ================= the first model: a write dropped while its append is in flight ================= *)

(* a write dropped while its append is in flight never disturbs other keys (any state, any record) *)
Theorem C14_other_keys_untouched :
  forall (s : storage) (r : rec) (k : N),
    r_key r <> k -> of_key k (abs (cancel_write_midway s r)) = of_key k (abs s).
Proof. exact cancel_keeps_other_keys. Qed.

(* the state of the examples is an outcome in the sense of cancel_outcomes *)
Theorem C14_example_is_an_outcome :
  cancel_outcomes 4 c_cfg (reach 4 c_cfg [OOpen false; OWrite 1 7 None 8 5 1]) (OWrite 2 7 None 8 5 9001) c_state.
Proof. exact c_state_is_outcome. Qed.

(* "not at all" within the session; "entirely" from the next start when the session ends without close *)
Theorem C14_invisible_in_session : get_latest_entry c_state 2 None = NotFound.
Proof. exact cancelled_write_invisible_in_session. Qed.
Theorem C14_visible_after_drop_and_open :
  get_latest_entry (fst (run 4 c_cfg c_state [ODrop; OOpen false])) 2 None = Found c_rec.
Proof. exact cancelled_write_visible_after_drop_and_open. Qed.

(* REFUTED (finding F18): after a regular close + open the write is still invisible, and it takes effect only
   when the index file is regenerated *)
Theorem C14_all_or_nothing_at_next_start_refuted :
  get_latest_entry (fst (run 4 c_cfg c_state [OClose; OOpen false])) 2 None = NotFound /\
  get_latest_entry (fst (run 4 c_cfg c_state [OClose; OOpen false; OClose; ORmIndex 0; OOpen false])) 2 None = Found c_rec.
Proof. exact cancelled_write_surfaces_only_after_index_removal. Qed.

(* ================= every public operation, every suspension point ================= *)

(* (A) No other key is affected: for every key k that is not the key of the operation (for close_active,
   restore_active, create_active, the reads and the counters: for every key), the records of k in the log and the
   answer to every read of k (with or without metadata) are what they were. *)
Theorem C14_A_no_other_key_affected :
  forall (K : N) (cfg : config) (s : storage) (o : op) (s' : storage) (k : N),
    BlobsOk K s -> s_open s = true ->
    cancel_outcomes K cfg s o s' -> op_key o <> Some k ->
    of_key k (abs s') = of_key k (abs s) /\
    (forall meta : option N, get_latest_entry s' k meta = get_latest_entry s k meta).
Proof. exact cancel_other_keys. Qed.

(* (B) Nothing stored is harmed: every blob is still there, with its id, and its records are a prefix of its
   records now (`good` also says: the next blob id did not decrease, new blobs have fresh ids). *)
Theorem C14_B_nothing_harmed :
  forall (K : N) (cfg : config) (s : storage) (o : op) (s' : storage),
    BlobsOk K s -> s_open s = true -> cancel_outcomes K cfg s o s' -> good s s'.
Proof. exact cancel_no_harm. Qed.

Theorem C14_B_append_only :
  forall (K : N) (cfg : config) (s : storage) (o : op) (s' : storage) (b : blob),
    BlobsOk K s -> s_open s = true -> cancel_outcomes K cfg s o s' -> In b (blobs_in_order s) ->
    exists b', In b' (blobs_in_order s') /\ b_id b' = b_id b /\ prefix_of (b_recs b) (b_recs b').
Proof. exact cancel_append_only. Qed.

(* (C) Later operations work: the index of the active blob is still in memory, the worker is as alive as it was,
   the blob ids are still ordered and below the next id, the storage is still open ... *)
Theorem C14_C_later_operations_work :
  forall (K : N) (cfg : config) (s : storage) (o : op) (s' : storage),
    BlobsOk K s -> s_open s = true -> cancel_outcomes K cfg s o s' ->
    (ActiveInMemory s -> ActiveInMemory s') /\ s_alive s' = s_alive s /\ (IdsOk s -> IdsOk s') /\ s_open s' = true.
Proof. exact cancel_later_ops. Qed.

(* ... hence no later operation is answered with the index error, every later write is acknowledged ... *)
Theorem C14_C_no_index_error_afterwards :
  forall (K : N) (cfg : config) (s : storage) (o : op) (s' : storage) (o2 : op),
    BlobsOk K s -> ActiveInMemory s -> s_open s = true -> cancel_outcomes K cfg s o s' ->
    snd (step K cfg s' o2) <> RErr EIndex.
Proof. exact cancel_then_no_index_error. Qed.

Theorem C14_C_write_acknowledged_afterwards :
  forall (K : N) (cfg : config) (s : storage) (o : op) (s' : storage) (k ts : N) (meta : option N) (msize dlen dseed : N),
    BlobsOk K s -> ActiveInMemory s -> s_open s = true -> cancel_outcomes K cfg s o s' ->
    snd (step K cfg s' (OWrite k ts meta msize dlen dseed)) = RUnit.
Proof. exact cancel_then_write_acknowledged. Qed.

(* ... and a restore_active dropped after it loaded the index gives, when called again, the state the first call
   would have given *)
Theorem C14_C_restore_retry :
  forall (K : N) (s s' : storage), restore_partial K s s' -> fst (restore_active K s') = fst (restore_active K s).
Proof. exact restore_retry_completes. Qed.

(* (A) + (B) + (C) for a state that satisfies the invariants, and after every history *)
Theorem C14_cancellation_safety :
  forall (K : N) (cfg : config) (s : storage) (o : op) (s' : storage),
    Inv K s -> ActiveInMemory s -> s_open s = true -> cancel_outcomes K cfg s o s' ->
    (forall k, op_key o <> Some k ->
       of_key k (abs s') = of_key k (abs s) /\ forall meta, get_latest_entry s' k meta = get_latest_entry s k meta) /\
    good s s' /\
    ActiveInMemory s' /\ s_alive s' = s_alive s /\ IdsOk s' /\ s_open s' = true.
Proof. exact cancel_safety. Qed.

Theorem C14_cancellation_safety_after_every_history :
  forall (K : N) (cfg : config) (ops : list op) (o : op) (s' : storage),
    s_open (reach K cfg ops) = true -> cancel_outcomes K cfg (reach K cfg ops) o s' ->
    (forall k, op_key o <> Some k ->
       of_key k (abs s') = of_key k (abs (reach K cfg ops)) /\
       forall meta, get_latest_entry s' k meta = get_latest_entry (reach K cfg ops) k meta) /\
    good (reach K cfg ops) s' /\
    ActiveInMemory s' /\ s_alive s' = s_alive (reach K cfg ops) /\ IdsOk s' /\ s_open s' = true.
Proof. exact reach_cancel_safety. Qed.

(* ================= (D) the cancelled write ================= *)

(* the log is the old log, or the old log with the record at its end (the end of the active blob) *)
Theorem C14_D_write_log :
  forall (K : N) (cfg : config) (s : storage) (k ts : N) (meta : option N) (msize dlen dseed : N) (s' : storage),
    s_open s = true -> cancel_outcomes K cfg s (OWrite k ts meta msize dlen dseed) s' ->
    abs s' = abs s \/ abs s' = abs s ++ [mk_rec k ts false meta msize dlen dseed].
Proof. exact cancelled_write_log. Qed.

(* "not at all" in the session: in every state strictly between "not started" and "completed" every read -- of the
   key of the write too -- answers as before *)
Theorem C14_D_write_not_at_all_in_session :
  forall (K : N) (cfg : config) (s : storage) (k ts : N) (meta : option N) (msize dlen dseed : N) (s' : storage),
    partial_outcomes K cfg s (OWrite k ts meta msize dlen dseed) s' ->
    forall (k' : N) (meta' : option N), get_latest_entry s' k' meta' = get_latest_entry s k' meta'.
Proof. exact cancelled_write_session. Qed.

(* "entirely" on disk: the files of the cancelled write are the files of the completed write, so a start that
   reads the blob as the session left it (no index dump in between) finds the write ... *)
Theorem C14_D_write_same_files :
  forall (K : N) (b : blob) (r : rec),
    blob_from_file K (append_unindexed b r) = blob_from_file K (fst (blob_append b r)).
Proof. exact unindexed_same_files. Qed.

(* ... its index being regenerated from the records, the new one included (the index file, if any, describes a
   strict prefix of the blob file and is rejected) *)
Theorem C14_D_write_entirely_once_regenerated :
  forall (K : N) (b : blob) (r : rec),
    blob_ok K b ->
    b_recs (blob_from_file K (append_unindexed b r)) = b_recs b ++ [r] /\
    b_idx (blob_from_file K (append_unindexed b r)) = index_of (b_recs b ++ [r]) /\
    b_idx (blob_from_file K (append_unindexed b r)) = imap_push (b_idx b) r.
Proof. exact unindexed_regenerated. Qed.

(* finding F18 in general: when the blob is dumped first (Storage::close), the index file lacks the record but
   records the size of the file that contains it, and the next start trusts it: the record stays hidden *)
Theorem C14_D_F18_dump_hides_the_record :
  forall (K : N) (b : blob) (r : rec),
    b_ondisk b = false -> b_idx b <> [] ->
    b_recs (blob_from_file K (blob_dump K (append_unindexed b r))) = b_recs b ++ [r] /\
    b_idx (blob_from_file K (blob_dump K (append_unindexed b r))) = b_idx b.
Proof. exact unindexed_then_dump_hides. Qed.

(* ================= (E) the cancelled delete ================= *)

(* the completed delete, as the model has it, is the instance "every closed slot fully processed" of the staged
   description (plus the request of the index dump): the stages are stages of the modelled operation *)
Theorem C14_E_completed_delete_is_the_last_stage :
  forall (K : N) (s : storage) (k ts : N) (meta : option N) (msize : N) (oip : bool),
    let mk := mk_rec k ts true meta msize 0 0 in
    exists c' : list (option blob),
      Forall2 (slot_stage K mk) (s_closed (delete_start s oip)) c' /\
      same_blobs (upd_closed (delete_active_done K (delete_start s oip) mk oip) c')
                 (fst (do_delete K s k ts meta msize oip)).
Proof. exact do_delete_decomp. Qed.

(* the log: slot by slot (closed list, active blob) every blob keeps its id and has its old records, or -- only
   where Blob::delete applies, i.e. in a subset of the blobs the completed delete marks -- its old records and ONE
   marker. s0 is s, or s with the active blob created (only_if_presented = false). *)
Theorem C14_E_delete_log :
  forall (K : N) (cfg : config) (s : storage) (k ts : N) (meta : option N) (msize : N) (oip : bool) (s' : storage),
    BlobsOk K s -> s_open s = true ->
    cancel_outcomes K cfg s (ODelete k ts meta msize oip) s' ->
    exists s0 : storage,
      (s0 = s \/ oip = false /\ s0 = ensure_active s) /\
      Forall2 (orel (marker_ext (mk_rec k ts true meta msize 0 0) true)) (s_closed s0) (s_closed s') /\
      orel (marker_ext (mk_rec k ts true meta msize 0 0) oip) (s_active s0) (s_active s').
Proof. exact cancelled_delete_log. Qed.

(* the read of the key in the session: as before the delete, or as after the completed delete -- whatever subset
   of the blobs has been processed and how far (read with or without metadata) *)
Theorem C14_E_delete_read_before_or_after :
  forall (K : N) (cfg : config) (s : storage) (k ts : N) (meta : option N) (msize : N) (oip : bool) (s' : storage),
    BlobsOk K s -> s_open s = true ->
    cancel_outcomes K cfg s (ODelete k ts meta msize oip) s' ->
    forall meta' : option N,
      get_latest_entry s' k meta' = get_latest_entry s k meta' \/
      get_latest_entry s' k meta' = get_latest_entry (fst (step K cfg s (ODelete k ts meta msize oip))) k meta'.
Proof. exact cancelled_delete_read. Qed.

(* computed: two closed blobs hold key 1 (timestamps 7 and 8); a delete with timestamp 8 dropped after it fully
   processed the older blob only. The marker is in the log, the read is the read before the delete; the completed
   delete answers Deleted 8. *)
Theorem C14_E_example_is_an_outcome : cancel_outcomes 4 c_cfg d_state d_op d_out.
Proof. exact d_out_is_outcome. Qed.
Theorem C14_E_example :
  In d_mk (abs d_out) /\ ~ In d_mk (abs d_state) /\
  get_latest_entry d_out 1 None = get_latest_entry d_state 1 None /\
  get_latest_entry d_state 1 None = Found (mk_rec 1 8 false None 8 5 2) /\
  get_latest_entry (fst (step 4 c_cfg d_state d_op)) 1 None = Deleted 8.
Proof. exact d_out_read. Qed.

(* ---- structural facts re-extracted from the Rust source on every run (tools/extract_src.py, Generated/Facts.v):
   the orderings inside the code that the models used above assume. A change of the code that invalidates one turns
   the generated boolean into `false` and this file no longer compiles. ---- *)
(* restore_active_blob has no suspension point between taking the blob out and installing it *)
Theorem C14_source_restore_is_atomic : Pearl.Generated.Facts.RESTORE_LOADS_BEFORE_POP = true.
Proof. reflexivity. Qed.
(* close_active_blob has no suspension point between taking the blob out and pushing it *)
Theorem C14_source_close_is_atomic : Pearl.Generated.Facts.CLOSE_SYNCS_BEFORE_TAKE = true.
Proof. reflexivity. Qed.
(* a dropped index dump leaves the in-memory index as it was *)
Theorem C14_source_dump_puts_headers_back : Pearl.Generated.Facts.DUMP_PUTS_HEADERS_BACK = true.
Proof. reflexivity. Qed.

Print Assumptions C14_other_keys_untouched.
Print Assumptions C14_example_is_an_outcome.
Print Assumptions C14_invisible_in_session.
Print Assumptions C14_visible_after_drop_and_open.
Print Assumptions C14_all_or_nothing_at_next_start_refuted.
Print Assumptions C14_A_no_other_key_affected.
Print Assumptions C14_B_nothing_harmed.
Print Assumptions C14_B_append_only.
Print Assumptions C14_C_later_operations_work.
Print Assumptions C14_C_no_index_error_afterwards.
Print Assumptions C14_C_write_acknowledged_afterwards.
Print Assumptions C14_C_restore_retry.
Print Assumptions C14_cancellation_safety.
Print Assumptions C14_cancellation_safety_after_every_history.
Print Assumptions C14_D_write_log.
Print Assumptions C14_D_write_not_at_all_in_session.
Print Assumptions C14_D_write_same_files.
Print Assumptions C14_D_write_entirely_once_regenerated.
Print Assumptions C14_D_F18_dump_hides_the_record.
Print Assumptions C14_E_completed_delete_is_the_last_stage.
Print Assumptions C14_E_delete_log.
Print Assumptions C14_E_delete_read_before_or_after.
Print Assumptions C14_E_example_is_an_outcome.
Print Assumptions C14_E_example.
Print Assumptions C14_source_restore_is_atomic.
Print Assumptions C14_source_close_is_atomic.
Print Assumptions C14_source_dump_puts_headers_back.

(* loading an index into memory has no suspension point between replacing the records and replacing the filters: a dropped caller leaves either the on-disk index or the complete in-memory one (structural fact re-extracted on every run; finding F33) *)
Theorem C14_source_index_load_is_one_step : Pearl.Generated.Facts.INDEX_LOAD_REPLACES_RECORDS_AND_FILTERS_TOGETHER = true.
Proof. reflexivity. Qed.
Print Assumptions C14_source_index_load_is_one_step.
