(* C14 Cancellation safety. Statements only. *)
Require Import Pearl.Base.Prelude Pearl.Storage.Model Pearl.Storage.Spec Pearl.Storage.Cancel Pearl.Storage.CancelProofs.

(* a write dropped while its append is in flight never disturbs other keys (any state, any record) *)
Theorem C14_other_keys_untouched :
  forall (s : storage) (r : rec) (k : N),
    r_key r <> k -> of_key k (abs (cancel_write_midway s r)) = of_key k (abs s).
Proof. exact cancel_keeps_other_keys. Qed.

(* "not at all" within the session; "entirely" from the next start when the session ends without close *)
Theorem C14_invisible_in_session : get_latest_entry c_state 2 None = NotFound.
Proof. exact cancelled_write_invisible_in_session. Qed.
Theorem C14_visible_after_drop_and_open :
  get_latest_entry (fst (run 4 c_cfg c_state [ODrop; OOpen false])) 2 None = Found c_rec.
Proof. exact cancelled_write_visible_after_drop_and_open. Qed.

(* REFUTED (finding F18): after a regular close + open the write is still invisible, and it takes effect only
   when the index file is regenerated *)
Theorem C14_all_or_nothing_at_next_start_refuted :
  get_latest_entry (fst (run 4 c_cfg c_state [OClose; OOpen false])) 2 None = NotFound /\
  get_latest_entry (fst (run 4 c_cfg c_state [OClose; OOpen false; OClose; ORmIndex 0; OOpen false])) 2 None = Found c_rec.
Proof. exact cancelled_write_surfaces_only_after_index_removal. Qed.

Print Assumptions C14_other_keys_untouched.
Print Assumptions C14_all_or_nothing_at_next_start_refuted.
