(* C02 Version history, metadata lookup, deletion and duplicate-write semantics. Statements only. *)
Require Import Pearl.Base.Prelude Pearl.Storage.Model Pearl.Storage.Spec Pearl.Storage.Inv
               Pearl.Storage.ReadProofs Pearl.Storage.ReadAllProofs Pearl.Storage.Theorems.

(* For every state whose indexes describe their blobs (IdxInv: established after every history by
   C02_invariant_after_every_history), any number of contributing blobs, any placement of the records:

   read_all_with_deletion_marker = every record of the key in rank order (timestamp descending, then
   blob recency, then append recency) cut immediately after the first deletion marker. The code's
   per-blob cut, concatenation newest blob first, stable re-sort and global cut (only when more than one
   blob contributes) is proved equal to the specification's single global sort and cut. *)
Theorem C02_read_all_with_deletion_marker :
  forall (s : storage) (k : N), IdxInv s -> read_all_dm s k = spec_all_dm (abs s) k.
Proof. exact read_all_dm_spec. Qed.

(* read_all is that list without the marker *)
Theorem C02_read_all :
  forall (s : storage) (k : N), IdxInv s -> read_all s k = spec_all (abs s) k.
Proof. exact read_all_spec. Qed.

(* read_with(meta): per blob "first match above the local marker, else the local marker", merged by
   `latest`, equals: the first listed record of the global list whose metadata equals meta, else Deleted
   if the list ends in a marker, else NotFound *)
Theorem C02_read_with :
  forall (s : storage) (k m : N), IdxInv s -> get_latest_entry s k (Some m) = spec_read_with (abs s) k m.
Proof. exact read_with_spec. Qed.

Theorem C02_invariant_after_every_history :
  forall (K : N) (cfg : config) (ops : list op),
    IdxInv (reach K cfg ops).
Proof. exact reach_IdxInv. Qed.

Print Assumptions C02_read_all_with_deletion_marker.
Print Assumptions C02_read_all.
Print Assumptions C02_read_with.
Print Assumptions C02_invariant_after_every_history.
