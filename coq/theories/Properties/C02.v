(* C02 Version history, metadata lookup, deletion and duplicate-write semantics. Statements only. *)
Require Import Pearl.Base.Prelude Pearl.Storage.Model Pearl.Storage.Spec Pearl.Storage.Inv
               Pearl.Storage.ReadProofs Pearl.Storage.ReadAllProofs Pearl.Storage.Theorems.
Require Import Pearl.Filter.Bloom Pearl.Filter.Hier Pearl.Filter.Combined Pearl.Storage.Filtered Pearl.Storage.FilteredProofs.

(* For every state whose indexes describe their blobs (IdxInv: established after every history by
   C02_invariant_after_every_history), any number of contributing blobs, any placement of the records:

   read_all_with_deletion_marker = every record of the key in rank order (timestamp descending, then
   blob recency, then append recency) cut immediately after the first deletion marker. The code's
   per-blob cut, concatenation newest blob first, stable re-sort and global cut (only when more than one
   blob contributes) is proved equal to the specification's single global sort and cut. *)
Theorem C02_read_all_with_deletion_marker :
  forall (s : storage) (k : N), IdxInv s -> read_all_dm s k = spec_all_dm (abs s) k.
Proof. exact read_all_dm_spec. Qed.

(* read_all is that list without the marker *)
Theorem C02_read_all :
  forall (s : storage) (k : N), IdxInv s -> read_all s k = spec_all (abs s) k.
Proof. exact read_all_spec. Qed.

(* read_with(meta): per blob "first match above the local marker, else the local marker", merged by
   `latest`, equals: the first listed record of the global list whose metadata equals meta, else Deleted
   if the list ends in a marker, else NotFound *)
Theorem C02_read_with :
  forall (s : storage) (k m : N), IdxInv s -> get_latest_entry s k (Some m) = spec_read_with (abs s) k m.
Proof. exact read_with_spec. Qed.

Theorem C02_invariant_after_every_history :
  forall (K : N) (cfg : config) (ops : list op),
    IdxInv (reach K cfg ops).
Proof. exact reach_IdxInv. Qed.

(* ---------- the group filters INSIDE the all-versions read path ----------
   Storage::read_all_with_deletion_marker / read_all do not open every closed blob: they walk
   `blobs.iter_possible_childs_rev(key)`, the hierarchy of merged (group) filters, exactly as get_latest_entry does.
   Filtered.v models that: `read_all_dm_filtered K bloom0 h s k` builds the per-blob lists from the active blob and from
   the closed blobs at the slots the hierarchy `h` yields for the key (newest first), each asked through its own filter,
   then counts / sorts / cuts as read_all_dm does. `freach K bloom0 cfg group evs` is the storage and its hierarchy after
   ANY history of storage operations interleaved with offload_buffer calls (group > 0, well-formed initial bloom:
   C10_bloom0_wf_cases).

   The filters can never hide a version: the filtered lists ARE the filterless lists, hence the specification's.
   (A skipped blob holds no record of the key and would have contributed the empty list; the count of contributing
   blobs, the marker presence and the concatenation see only non-empty contributions, whose order the iterator keeps.) *)
Theorem C02_filtered_read_all_dm :
  forall (K : N) (bloom0 : option bloom) (cfg : config) (group : nat) (evs : list fev) (k : N),
    (0 < group)%nat -> bloom0_wf bloom0 ->
    let s := fst (freach K bloom0 cfg group evs) in
    let h := snd (freach K bloom0 cfg group evs) in
    read_all_dm_filtered K bloom0 h s k = read_all_dm s k.
Proof. exact filtered_read_all_dm_is_read_all_dm. Qed.

Theorem C02_filtered_read_all :
  forall (K : N) (bloom0 : option bloom) (cfg : config) (group : nat) (evs : list fev) (k : N),
    (0 < group)%nat -> bloom0_wf bloom0 ->
    let s := fst (freach K bloom0 cfg group evs) in
    let h := snd (freach K bloom0 cfg group evs) in
    read_all_filtered K bloom0 h s k = read_all s k.
Proof. exact filtered_read_all_is_read_all. Qed.

Theorem C02_filtered_read_all_is_spec :
  forall (K : N) (bloom0 : option bloom) (cfg : config) (group : nat) (evs : list fev) (k : N),
    (0 < group)%nat -> bloom0_wf bloom0 ->
    let s := fst (freach K bloom0 cfg group evs) in
    let h := snd (freach K bloom0 cfg group evs) in
    read_all_dm_filtered K bloom0 h s k = spec_all_dm (abs s) k /\
    read_all_filtered K bloom0 h s k = spec_all (abs s) k.
Proof. exact filtered_read_all_is_spec. Qed.

(* The Rust text to the letter: on this path Blob::read_all_entries_with_deletion_marker does NOT ask the blob's own
   filter (Blob::get_latest_entry(.., check_filters = true) does); the hierarchy iterator is the only filtering
   (`read_all_dm_iter`). Same result. *)
Theorem C02_iter_read_all_is_spec :
  forall (K : N) (bloom0 : option bloom) (cfg : config) (group : nat) (evs : list fev) (k : N),
    (0 < group)%nat -> bloom0_wf bloom0 ->
    let s := fst (freach K bloom0 cfg group evs) in
    let h := snd (freach K bloom0 cfg group evs) in
    read_all_dm_iter K h s k = spec_all_dm (abs s) k /\ read_all_iter K h s k = spec_all (abs s) k.
Proof. exact iter_read_all_is_spec. Qed.

(* Non-vacuity, computed. K = 4, 100-bit blooms, group = 2 (node 0 = slots 0,1; node 1 = slot 2).
     closed blob 0: key 5 @10, deletion marker of key 5 @15        closed blob 1: key 5 @20, key 7 @21, key 5 @22
     closed blob 2: key 6 @30                                      active blob:   key 5 @40
   and an offload_buffer(16, 1) before the last write. For key 5 the iterator yields slots 0 and 1 and SKIPS blob 2
   (node 1 answers NotContains); the path opens slot 1 then slot 0. Four versions come back from three blobs, re-sorted,
   ending in the marker (blob 0 contributes the marker only: its local cut hides @10); read_all strips the marker.
   For key 6 only blob 2 is opened, for key 7 only blob 1 (blob 0 is yielded and rejects by its own filter), key 9
   opens nothing. Filtered, iterator-only and filterless lists coincide, and equal the specification's. *)
Module FilteredReadAllExample.
  Definition ex_cfg : config := {| c_dup := true; c_maxrec := 1000; c_maxsize := 1000000 |}.
  Definition ex_bloom : option bloom := Some (bloom_new 100 2 (repeat 0 40)).
  Definition ex_evs : list fev :=
    [EOp (OOpen false); EOp (OWrite 5 10 None 0 5 1); EOp (ODelete 5 15 None 0 true); EOp OCloseActive;
     EOp (OWrite 5 20 None 0 5 2); EOp (OWrite 7 21 None 0 5 1); EOp (OWrite 5 22 None 0 5 3); EOp OCloseActive;
     EOp (OWrite 6 30 None 0 5 1); EOp OCloseActive; EOff (OffN 16 1); EOp (OWrite 5 40 None 0 5 4)].
  Definition ex_s := fst (freach 4 ex_bloom ex_cfg 2 ex_evs).
  Definition ex_h := snd (freach 4 ex_bloom ex_cfg 2 ex_evs).
  Definition ex_keys : list N := [5; 6; 7; 9].
  Definition show (l : list rec) : list (N * bool) := map (fun r => (r_ts r, r_del r)) l.

  Example C02_filtered_read_all_nonvacuous :
    occ (s_closed ex_s) = [true; true; true] /\
    map blob_keys (closed_blobs ex_s) = [[5; 5]; [5; 7; 5]; [6]] /\
    option_map blob_keys (s_active ex_s) = Some [5] /\
    map (fun k => (ch_iter 4 ex_h k, consulted_all 4 ex_bloom ex_h ex_s k)) ex_keys =
      [([0; 1], [1; 0]); ([2], [2]); ([0; 1], [1]); ([], [])]%nat /\
    map (fun b => show (idx_get_all_dm (b_idx b) 5)) (rev (closed_blobs ex_s)) =
      [[]; [(22, false); (20, false)]; [(15, true)]] /\
    map (fun k => read_all_dm_filtered 4 ex_bloom ex_h ex_s k) ex_keys = map (fun k => read_all_dm ex_s k) ex_keys /\
    map (fun k => read_all_filtered 4 ex_bloom ex_h ex_s k) ex_keys = map (fun k => read_all ex_s k) ex_keys /\
    map (fun k => read_all_dm_iter 4 ex_h ex_s k) ex_keys = map (fun k => read_all_dm ex_s k) ex_keys /\
    map (fun k => read_all_dm_filtered 4 ex_bloom ex_h ex_s k) ex_keys = map (fun k => spec_all_dm (abs ex_s) k) ex_keys /\
    map (fun k => show (read_all_dm_filtered 4 ex_bloom ex_h ex_s k)) ex_keys =
      [[(40, false); (22, false); (20, false); (15, true)]; [(30, false)]; [(21, false)]; []] /\
    show (read_all_filtered 4 ex_bloom ex_h ex_s 5) = [(40, false); (22, false); (20, false)].
  Proof. vm_compute. repeat split. Qed.
End FilteredReadAllExample.

Print Assumptions C02_read_all_with_deletion_marker.
Print Assumptions C02_read_all.
Print Assumptions C02_read_with.
Print Assumptions C02_invariant_after_every_history.
Print Assumptions C02_filtered_read_all_dm.
Print Assumptions C02_filtered_read_all.
Print Assumptions C02_filtered_read_all_is_spec.
Print Assumptions C02_iter_read_all_is_spec.
Print Assumptions FilteredReadAllExample.C02_filtered_read_all_nonvacuous.
