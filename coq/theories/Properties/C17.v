(* C17 On-disk format compatibility with the pinned release. Statements only. *)
Require Import Pearl.Base.Prelude Pearl.Base.LE Pearl.Generated.Consts Pearl.Format.Record Pearl.Format.RecordProofs
               Pearl.Blob.Scan Pearl.Blob.ScanBasics.
From Coq Require Import String.

(* The constants and field orders regenerated from the CURRENT source equal the pinned release's.
   A changed magic number, version, flag, hasher key rule, aHash constant or a reordered / retyped field
   of an on-disk struct breaks THIS proof (reflexivity fails). *)
Theorem C17_constants_pinned :
  BLOB_VERSION = 1 /\ BLOB_MAGIC_BYTE = 0xdeafabcd /\ HEADER_VERSION = 6 /\ INDEX_HEADER_MAGIC_BYTE = 0xacdcbcde /\
  RECORD_MAGIC_BYTE = 0xacdcbcde /\ DELETE_FLAG = 1 /\ HASH_LENGTH = 32 /\ BLOCK_SIZE = 4096 /\
  MAX_SINGLE_PASS_DATA_SIZE = 4096 /\
  AHASH_MULTIPLE = 6364136223846793005 /\ AHASH_ROT = 23 /\
  AHASH_PI = [0x243f6a8885a308d3; 0x13198a2e03707344; 0xa4093822299f31d0; 0x082efa98ec4e6c89] /\
  BLOOM_HASHER_KEY1_ADD = 1 /\ BLOOM_HASHER_KEY2_ADD = 2.
Proof. repeat split; reflexivity. Qed.

Theorem C17_field_order_pinned :
  FIELDS_RECORD_HEADER = ["magic_byte:u64"; "key:Vec<u8>"; "meta_size:u64"; "data_size:u64"; "flags:u8"; "blob_offset:u64";
                          "timestamp:u64"; "data_checksum:u32"; "header_checksum:u32"]%string /\
  FIELDS_BLOB_HEADER = ["magic_byte:u64"; "version:u32"; "flags:u64"]%string /\
  FIELDS_INDEX_HEADER = ["magic_byte:u64"; "records_count:usize"; "record_header_size:usize"; "meta_size:usize"; "hash:Vec<u8>";
                         "version:u8"; "key_size:u16"; "blob_size:u64"]%string /\
  FIELDS_TREE_META = ["leaves_offset:u64"; "tree_offset:u64"]%string /\
  FIELDS_BLOOM_SAVE = ["config:Config"; "buf:Vec<u64>"; "bits_count:usize"]%string /\
  FIELDS_BLOOM_CONFIG = ["elements:usize"; "hashers_count:usize"; "max_buf_bits_count:usize"; "buf_increase_step:usize";
                         "preferred_false_positive_rate:f64"]%string /\
  FIELDS_RANGE = ["min:K"; "max:K"; "initialized:bool"]%string.
Proof. repeat split; reflexivity. Qed.

(* decode . encode = id for the record header of every key length (no size bound) *)
Theorem C17_header_roundtrip : forall h : header, wf_header h -> decode_header (encode_header h) = Some h.
Proof. exact decode_encode_header. Qed.

(* a blob whose first record has another key length, or whose version differs, is REJECTED with a validation error
   (quarantine, resp. init failure) -- never parsed with the wrong layout *)
Theorem C17_version_mismatch_rejected :
  forall (b : bytes) (K : N) (v : bool),
    (20 <= List.length b)%nat -> u64_at b 0 = BLOB_MAGIC_BYTE -> u32_at b 8 <> BLOB_VERSION ->
    blob_open_scan b K v = RFail EBlobVersion.
Proof. exact version_mismatch_rejected. Qed.

Theorem C17_key_size_mismatch_rejected :
  forall (b : bytes) (K : N) (v : bool),
    (36 <= List.length b)%nat -> blob_header_check b = None -> u64_at b 20 = RECORD_MAGIC_BYTE -> u64_at b 28 <> K ->
    blob_open_scan b K v = RFail EKeySize.
Proof. exact key_size_mismatch_rejected. Qed.

Print Assumptions C17_constants_pinned.
Print Assumptions C17_field_order_pinned.
Print Assumptions C17_header_roundtrip.
Print Assumptions C17_version_mismatch_rejected.
Print Assumptions C17_key_size_mismatch_rejected.
