(* C01 Latest-version read: read/contains return the top-ranked record of a key. Statements only. *)
Require Import Pearl.Base.Prelude Pearl.Storage.Model Pearl.Storage.Spec Pearl.Storage.Inv
               Pearl.Storage.IndexProofs Pearl.Storage.ReadProofs Pearl.Storage.Theorems.

(* After EVERY history `ops` of writes / deletes (any timestamps, metas, sizes), lifecycle and
   maintenance operations, background requests, restarts (with or without close, eager or lazy) and
   index removals, for every key length K, every configuration and every key k: read/contains
   (Storage::get_latest_entry without meta) return the specification's answer on the log.
   No proviso: the class F2 (a write acknowledged with Err after its bytes were appended to a blob
   whose index is on disk), which had to be excluded before the repair of restore_active, is
   unreachable (C01_no_index_error_state). *)
Theorem C01_read_latest :
  forall (K : N) (cfg : config) (ops : list op) (k : N),
    get_latest_entry (reach K cfg ops) k None = spec_read (abs (reach K cfg ops)) k.
Proof. exact reach_read_latest. Qed.

(* what "top-ranked" means: a record of the key with maximal timestamp, and the LAST such record in log
   order ... *)
Theorem C01_top_ranked_is_max :
  forall l : list rec,
    match top_ranked l with
    | None => l = []
    | Some r => exists l1 l2, l = l1 ++ r :: l2 /\
                (forall x, In x l1 -> r_ts x <= r_ts r) /\ (forall x, In x l2 -> r_ts x < r_ts r)
    end.
Proof. exact top_ranked_spec. Qed.

(* ... where log order is blob creation order (ids strictly increasing), then append order *)
Theorem C01_log_is_ordered_by_blob_id :
  forall (K : N) (cfg : config) (ops : list op),
    increasing (map b_id (blobs_in_order (reach K cfg ops))).
Proof. exact reach_ids_increasing. Qed.

(* the state-level statement, for any state whose indexes describe their blobs *)
Theorem C01_read_latest_state :
  forall (k : N) (s : storage), IdxInv s -> get_latest_entry s k None = spec_read (abs s) k.
Proof. exact read_latest. Qed.

(* the ghost flag of the model (a record was appended to a blob whose index is on disk) is never
   raised: the active blob's index is always in memory (InvProofs.ActiveInMemory) *)
Theorem C01_no_index_error_state :
  forall (K : N) (cfg : config) (ops : list op), s_f2 (reach K cfg ops) = false.
Proof. exact never_f2. Qed.

(* non-vacuity: a concrete history with a tie across two blobs and a deletion marker; and the history
   that exhibited F2 before the repair (close_active; restore_active; write): the write is now
   acknowledged and read back (by computation) *)
Definition c01_cfg : config := {| c_dup := true; c_maxrec := 1000; c_maxsize := 1000000 |}.
Definition c01_hist : list op :=
  [OOpen false; OWrite 1 7 None 8 5 1; OCloseActive; OWrite 1 7 None 8 5 2; ODelete 1 5 None 8 true; OClose; OOpen true].
Example C01_nonvacuous :
  s_f2 (reach 4 c01_cfg c01_hist) = false /\
  get_latest_entry (reach 4 c01_cfg c01_hist) 1 None = Found (mk_rec 1 7 false None 8 5 2).
Proof. vm_compute. split; reflexivity. Qed.

Definition c01_f2_hist : list op :=
  [OOpen false; OWrite 1 7 None 8 5 1; OCloseActive; ORestoreActive; OWrite 1 9 None 8 5 2].
Example C01_former_F2_history :
  s_f2 (reach 4 c01_cfg c01_f2_hist) = false /\
  snd (run 4 c01_cfg init_storage c01_f2_hist) = [RUnit; RUnit; RUnit; RUnit; RUnit] /\
  get_latest_entry (reach 4 c01_cfg c01_f2_hist) 1 None = Found (mk_rec 1 9 false None 8 5 2) /\
  get_latest_entry (reach 4 c01_cfg c01_f2_hist) 1 None = spec_read (abs (reach 4 c01_cfg c01_f2_hist)) 1.
Proof. vm_compute. repeat split; reflexivity. Qed.

Print Assumptions C01_read_latest.
Print Assumptions C01_top_ranked_is_max.
Print Assumptions C01_log_is_ordered_by_blob_id.
Print Assumptions C01_read_latest_state.
Print Assumptions C01_no_index_error_state.
