(* Small direct facts about opening a blob byte-wise (used by Properties/C06.v and C17.v). *)
Require Import Pearl.Base.Prelude Pearl.Base.LE Pearl.Generated.Consts Pearl.Format.Record Pearl.Blob.Scan.

Lemma version_mismatch_rejected :
  forall (b : bytes) (K : N) (v : bool),
    (20 <= length b)%nat -> u64_at b 0 = BLOB_MAGIC_BYTE -> u32_at b 8 <> BLOB_VERSION ->
    blob_open_scan b K v = RFail EBlobVersion.
Proof.
  intros b K v Hl Hm Hv. unfold blob_open_scan, blob_header_check.
  destruct (Nat.ltb_spec (length b) 20) as [H|_]; [lia|].
  rewrite Hm, N.eqb_refl. cbn [negb].
  destruct (N.eqb_spec (u32_at b 8) BLOB_VERSION) as [E|_]; [contradiction|reflexivity].
Qed.

Lemma key_size_mismatch_rejected :
  forall (b : bytes) (K : N) (v : bool),
    (36 <= length b)%nat -> blob_header_check b = None -> u64_at b 20 = RECORD_MAGIC_BYTE -> u64_at b 28 <> K ->
    blob_open_scan b K v = RFail EKeySize.
Proof.
  intros b K v Hl Hh Hm Hk. unfold blob_open_scan. rewrite Hh.
  destruct (Nat.ltb_spec 20 (length b)) as [_|H]; [|lia].
  unfold scan_start. destruct (Nat.ltb_spec (length b) 36) as [H|_]; [lia|].
  rewrite Hm, N.eqb_refl. cbn [negb].
  destruct (N.eqb_spec (u64_at b 28) K) as [E|_]; [contradiction|reflexivity].
Qed.


Lemma only_version_fails_init : forall r : res (list header), dispose r = DInitFails <-> r = RFail EBlobVersion.
Proof.
  intros r. destruct r as [hs|e]; cbn [dispose]; [split; discriminate|].
  destruct e; cbn [dispose]; split; intros H; try discriminate; try reflexivity.
Qed.

Lemma short_file_quarantined :
  forall (b : bytes) (K : N) (validate : bool), (length b < 20)%nat -> blob_open_scan b K validate = RFail EBincode.
Proof.
  intros b K v H. unfold blob_open_scan, blob_header_check.
  destruct (Nat.ltb_spec (length b) 20) as [_|H']; [reflexivity|lia].
Qed.
