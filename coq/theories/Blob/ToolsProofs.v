(* The offline tools (validate_blob, recovery_blob) on byte-prefixes of well-formed blobs; the writer of the
   recovery tool stamps the position in the output into each header (repair of finding F7): every record of a
   recovered file, whatever the input was, is found by the storage's scan and read back through its header.
   Builds on Blob/ScanProofs.v (blob layout, slices of truncated files). *)
Require Import Pearl.Base.Prelude Pearl.Base.LE Pearl.Base.LEProofs Pearl.Base.Crc Pearl.Base.CrcProofs
               Pearl.Generated.Consts Pearl.Format.Record Pearl.Format.RecordProofs Pearl.Blob.Scan
               Pearl.Blob.ScanProofs.

(* ------------------------------------------------------------------------------------------------ *)
(* BlobWriter::write_record: the header written to the output carries the position in the output    *)
(* ------------------------------------------------------------------------------------------------ *)

Lemma stamp_off h o : h_off (stamp h o) = o.
Proof. unfold stamp. destruct (N.eqb_spec (h_off h) o) as [E|E]; [exact E|reflexivity]. Qed.

Lemma stamp_same h o : h_off h = o -> stamp h o = h.
Proof. intros E. unfold stamp. rewrite (proj2 (N.eqb_eq _ _) E). reflexivity. Qed.

(* a header whose checksum is right keeps a right checksum *)
Lemma stamp_crc h o : h_hcrc h = header_crc h -> h_hcrc (stamp h o) = header_crc (stamp h o).
Proof.
  intros H. unfold stamp. destruct (h_off h =? o); [exact H|]. cbv zeta.
  rewrite header_crc_with_hcrc. reflexivity.
Qed.

Lemma stamp_other_fields h o :
  h_magic (stamp h o) = h_magic h /\ h_key (stamp h o) = h_key h /\ h_msize (stamp h o) = h_msize h /\
  h_dsize (stamp h o) = h_dsize h /\ h_flags (stamp h o) = h_flags h /\ h_ts (stamp h o) = h_ts h /\
  h_dcrc (stamp h o) = h_dcrc h.
Proof. unfold stamp. destruct (h_off h =? o); repeat split; reflexivity. Qed.

Lemma stamp_valid h o : validate_header h = None -> validate_header (stamp h o) = None.
Proof.
  unfold validate_header. destruct (stamp_other_fields h o) as (Hm & _). rewrite Hm.
  destruct (h_magic h =? RECORD_MAGIC_BYTE); cbn [negb]; [|discriminate].
  destruct (N.eqb_spec (header_crc h) (h_hcrc h)) as [E|E]; cbn [negb]; [intros _|discriminate].
  rewrite (stamp_crc h o (eq_sym E)), N.eqb_refl. reflexivity.
Qed.

Lemma stamp_length h o : length (encode_header (stamp h o)) = length (encode_header h).
Proof. rewrite !encode_header_length. destruct (stamp_other_fields h o) as (_ & Hk & _). rewrite Hk. reflexivity. Qed.

Section ToolsProofs.
Variable meta_ok : bytes -> bool.

Lemma klen_of a b : b < 2^64 -> le_val (firstn 8 (skipn 8 (le64 a ++ le64 b))) = b.
Proof.
  intros Hb. replace (skipn 8 (le64 a ++ le64 b)) with (le64 b)
    by (symmetry; exact (skipn_app_len (le64 a) (le64 b) 8 0 (le64_length a))).
  rewrite firstn_len by apply le64_length. apply le64_val, Hb.
Qed.

(* reading one record of a (possibly truncated) file: all or nothing *)
Lemma tool_read_spec K pre x suf n :
  K < 2^64 -> wf_rec K x -> N.of_nat (length pre) < 2^64 -> meta_ok (rmeta x) = true ->
  tool_read meta_ok (firstn n (pre ++ rec_bytes (N.of_nat (length pre)) x ++ suf)) (N.of_nat (length pre)) =
  if (length pre + rec_len x <=? n)%nat
  then inl (hdr_of (N.of_nat (length pre)) x, rmeta x, rdata x, N.of_nat (length pre + rec_len x))
  else inr TIo.
Proof.
  intros HK Hx Hpre Hmeta. pose proof Hx as (Hk & Hts & Hms & Hds).
  pose proof (wf_rec_len K x Hx) as Hrl.
  set (h' := hdr_of (N.of_nat (length pre)) x).
  set (B := pre ++ rec_bytes (N.of_nat (length pre)) x ++ suf).
  destruct (enc_hdr_front (N.of_nat (length pre)) x) as (rest & Efront). fold h' in Efront.
  assert (HB0 : B = pre ++ (le64 RECORD_MAGIC_BYTE ++ le64 (N.of_nat (length (rkey x)))) ++ (rest ++ rmeta x ++ rdata x ++ suf)).
  { subst B. unfold rec_bytes. fold h'. rewrite Efront, <- !app_assoc. reflexivity. }
  assert (HB1 : B = pre ++ encode_header h' ++ (rmeta x ++ rdata x ++ suf)).
  { subst B. unfold rec_bytes. fold h'. rewrite <- !app_assoc. reflexivity. }
  assert (HB2 : B = (pre ++ encode_header h') ++ rmeta x ++ (rdata x ++ suf)).
  { rewrite HB1, <- !app_assoc. reflexivity. }
  assert (HB3 : B = (pre ++ encode_header h' ++ rmeta x) ++ rdata x ++ suf).
  { rewrite HB1, <- !app_assoc. reflexivity. }
  assert (Hle : length (encode_header h') = (57 + N.to_nat K)%nat) by (subst h'; rewrite enc_hdr_length; lia).
  unfold tool_read.
  destruct (Nat.lt_ge_cases n (length pre + 16)) as [H1|H1].
  { rewrite slice_firstn_lt by lia. destruct (Nat.leb_spec (length pre + rec_len x) n) as [C|_]; [lia|reflexivity]. }
  rewrite slice_firstn_ge by lia.
  assert (S0 : slice B (N.of_nat (length pre)) 16 = Some (le64 RECORD_MAGIC_BYTE ++ le64 (N.of_nat (length (rkey x))))).
  { rewrite HB0. apply slice_at; [reflexivity|]. rewrite app_length, !le64_length. reflexivity. }
  rewrite S0, klen_of by (rewrite Hk; exact HK). rewrite Hk.
  destruct (Nat.lt_ge_cases n (length pre + 57 + N.to_nat K)) as [H2|H2].
  { rewrite slice_firstn_lt by lia. destruct (Nat.leb_spec (length pre + rec_len x) n) as [C|_]; [lia|reflexivity]. }
  rewrite slice_firstn_ge by lia.
  assert (S1 : slice B (N.of_nat (length pre)) (57 + K) = Some (encode_header h')).
  { rewrite HB1. apply slice_at; [reflexivity|]. lia. }
  rewrite S1, decode_encode_header by (apply (hdr_of_wf K); assumption).
  subst h'. rewrite hdr_of_valid, hdr_msize, hdr_dsize, hdr_dcrc.
  set (h' := hdr_of (N.of_nat (length pre)) x) in *.
  destruct (Nat.lt_ge_cases n (length pre + 57 + N.to_nat K + length (rmeta x))) as [H3|H3].
  { rewrite slice_firstn_lt by lia. destruct (Nat.leb_spec (length pre + rec_len x) n) as [C|_]; [lia|reflexivity]. }
  rewrite slice_firstn_ge by lia.
  assert (S2 : slice B (N.of_nat (length pre) + 57 + K) (N.of_nat (length (rmeta x))) = Some (rmeta x)).
  { rewrite HB2. apply slice_at; [|reflexivity]. rewrite app_length, Hle. lia. }
  rewrite S2, Hmeta. cbn [negb].
  destruct (Nat.leb_spec (length pre + rec_len x) n) as [H4|H4].
  - rewrite slice_firstn_ge by lia.
    assert (S3 : slice B (N.of_nat (length pre) + 57 + K + N.of_nat (length (rmeta x))) (N.of_nat (length (rdata x)))
                 = Some (rdata x)).
    { rewrite HB3. apply slice_at; [|reflexivity]. rewrite !app_length, Hle. lia. }
    rewrite S3, N.eqb_refl.
    replace (N.of_nat (length pre) + 57 + K + N.of_nat (length (rmeta x)) + N.of_nat (length (rdata x)))
      with (N.of_nat (length pre + rec_len x)) by lia.
    reflexivity.
  - rewrite slice_firstn_lt by lia. reflexivity.
Qed.

Definition metas_ok (rs : list rec) : Prop := Forall (fun x => meta_ok (rmeta x) = true) rs.

(* number of records that lie completely inside the first n bytes (records start at off) *)
Fixpoint ncomplete (off : nat) (rs : list rec) (n : nat) : nat :=
  match rs with
  | [] => 0%nat
  | x :: r => if (off + rec_len x <=? n)%nat then S (ncomplete (off + rec_len x) r n) else 0%nat
  end.

Lemma ncomplete_spec rs : forall off n, (off <= n)%nat ->
  let j := ncomplete off rs n in
  (j <= length rs)%nat /\ (off + recs_len (firstn j rs) <= n)%nat /\
  ((j < length rs)%nat -> (n < off + recs_len (firstn (S j) rs))%nat).
Proof.
  induction rs as [|x r IH]; intros off n Hoff; cbn [ncomplete length].
  - cbn [firstn recs_len]. split; [lia|]. split; [lia|]. intros C. lia.
  - destruct (Nat.leb_spec (off + rec_len x) n) as [H|H].
    + specialize (IH (off + rec_len x)%nat n H). cbv zeta in IH. destruct IH as (I1 & I2 & I3).
      cbn [firstn recs_len] in *. split; [lia|]. split; [lia|]. intros Hlt. specialize (I3 ltac:(lia)). lia.
    + cbn [firstn recs_len]. split; [lia|]. split; [lia|]. intros _. lia.
Qed.

(* ---------- validate_blob ---------- *)
Lemma tool_validate_loop_spec K (HK : K < 2^64) : forall rs pre fuel n,
  Forall (wf_rec K) rs -> metas_ok rs -> N.of_nat (length pre + recs_len rs) < 2^64 ->
  (length pre <= n)%nat -> (n <= length pre + recs_len rs)%nat -> (0 < fuel)%nat -> (n < fuel + length pre)%nat ->
  (tool_validate_loop meta_ok fuel (firstn n (pre ++ recs_bytes (length pre) rs)) (N.of_nat (length pre)) = true
   <-> exists j, (j <= length rs)%nat /\ n = (length pre + recs_len (firstn j rs))%nat).
Proof.
  induction rs as [|x rs IH]; intros pre fuel n Hwf Hmo Hsz Hlo Hhi Hf Hfuel.
  - cbn [recs_len] in Hhi. destruct fuel as [|f]; [lia|]. cbn [tool_validate_loop recs_bytes]. rewrite app_nil_r, firstn_length.
    destruct (N.ltb_spec (N.of_nat (length pre)) (N.of_nat (Nat.min n (length pre)))) as [C|_]; [lia|].
    split; [intros _|reflexivity]. exists 0%nat. cbn [firstn recs_len length]. split; lia.
  - inversion Hwf as [|x' rs' Hx Hrs]; subst x' rs'. inversion Hmo as [|x' rs' Hmx Hmrs]; subst x' rs'.
    cbn [recs_len] in Hsz, Hhi.
    set (pre' := pre ++ rec_bytes (N.of_nat (length pre)) x).
    assert (Hlp : length pre' = (length pre + rec_len x)%nat).
    { subst pre'. rewrite app_length, rec_bytes_length. reflexivity. }
    assert (Hrl := wf_rec_len K x Hx).
    destruct fuel as [|f]; [lia|]. cbn [tool_validate_loop recs_bytes].
    rewrite firstn_length, !app_length, rec_bytes_length, recs_bytes_length.
    replace (Nat.min n (length pre + (rec_len x + recs_len rs))) with n by lia.
    destruct (N.ltb_spec (N.of_nat (length pre)) (N.of_nat n)) as [Hlt|Hge].
    2:{ split; [intros _|reflexivity]. exists 0%nat. cbn [firstn recs_len length]. split; lia. }
    rewrite (tool_read_spec K) by (assumption || lia).
    destruct (Nat.leb_spec (length pre + rec_len x) n) as [Hc|Hc].
    + rewrite <- Hlp. rewrite (app_assoc pre). fold pre'.
      replace (length pre + rec_len x)%nat with (length pre') by exact Hlp.
      rewrite (IH pre' f n Hrs Hmrs) by lia. rewrite Hlp. split.
      * intros (j & Hj & Hn). exists (S j). cbn [firstn recs_len length]. split; lia.
      * intros ([|j] & Hj & Hn); cbn [firstn recs_len length] in *; [lia|]. exists j. split; lia.
    + split; [discriminate|]. intros ([|j] & Hj & Hn); cbn [firstn recs_len length] in *; lia.
Qed.

(* ---------- recovery_blob ---------- *)
Lemma tool_recover_loop_spec K (HK : K < 2^64) skip : forall rs pre out fuel n,
  Forall (wf_rec K) rs -> metas_ok rs -> N.of_nat (length pre + recs_len rs) < 2^64 ->
  (length pre <= n)%nat -> (n <= length pre + recs_len rs)%nat -> (0 < fuel)%nat -> (n < fuel + length pre)%nat ->
  length out = length pre ->   (* every record is copied to the position it had, so its header is written unchanged *)
  tool_recover_loop meta_ok fuel (firstn n (pre ++ recs_bytes (length pre) rs)) skip (N.of_nat (length pre)) out
  = out ++ recs_bytes (length pre) (firstn (ncomplete (length pre) rs n) rs).
Proof.
  induction rs as [|x rs IH]; intros pre out fuel n Hwf Hmo Hsz Hlo Hhi Hf Hfuel Hout.
  - cbn [recs_len] in Hhi. destruct fuel as [|f]; [lia|]. cbn [tool_recover_loop recs_bytes ncomplete firstn].
    rewrite !app_nil_r, firstn_length.
    destruct (N.ltb_spec (N.of_nat (length pre)) (N.of_nat (Nat.min n (length pre)))) as [C|_]; [lia|reflexivity].
  - inversion Hwf as [|x' rs' Hx Hrs]; subst x' rs'. inversion Hmo as [|x' rs' Hmx Hmrs]; subst x' rs'.
    cbn [recs_len] in Hsz, Hhi.
    set (pre' := pre ++ rec_bytes (N.of_nat (length pre)) x).
    assert (Hlp : length pre' = (length pre + rec_len x)%nat).
    { subst pre'. rewrite app_length, rec_bytes_length. reflexivity. }
    assert (Hrl := wf_rec_len K x Hx).
    destruct fuel as [|f]; [lia|]. cbn [tool_recover_loop recs_bytes ncomplete].
    rewrite firstn_length, !app_length, rec_bytes_length, recs_bytes_length.
    replace (Nat.min n (length pre + (rec_len x + recs_len rs))) with n by lia.
    destruct (N.ltb_spec (N.of_nat (length pre)) (N.of_nat n)) as [Hlt|Hge].
    2:{ destruct (Nat.leb_spec (length pre + rec_len x) n) as [C|_]; [lia|]. cbn [firstn recs_bytes].
        rewrite app_nil_r. reflexivity. }
    rewrite (tool_read_spec K) by (assumption || lia).
    destruct (Nat.leb_spec (length pre + rec_len x) n) as [Hc|Hc].
    + rewrite <- Hlp. rewrite (app_assoc pre). fold pre'.
      assert (Ero : rec_out out (hdr_of (N.of_nat (length pre)) x) (rmeta x) (rdata x)
                    = rec_bytes (N.of_nat (length pre)) x).
      { unfold rec_out. rewrite Hout, stamp_same by apply hdr_off. reflexivity. }
      rewrite Ero.
      rewrite (IH pre' _ f n Hrs Hmrs) by (try lia; rewrite app_length, rec_bytes_length; lia).
      rewrite Hlp. cbn [firstn recs_bytes]. rewrite <- app_assoc. reflexivity.
    + cbn [firstn recs_bytes skip_pos]. rewrite app_nil_r. destruct skip; reflexivity.
Qed.

Lemma blob_magic_app rest : u64_at (blob_header_bytes ++ rest) 0 = BLOB_MAGIC_BYTE.
Proof.
  let x := eval vm_compute in blob_header_bytes in change blob_header_bytes with x.
  reflexivity.
Qed.

Lemma firstn_blob rs n : (20 <= n)%nat ->
  firstn n (blob_bytes rs) = blob_header_bytes ++ firstn (n - 20) (recs_bytes 20 rs).
Proof.
  intros H. rewrite blob_bytes_eq, firstn_app, blob_header_length.
  rewrite firstn_all2 by (rewrite blob_header_length; exact H). reflexivity.
Qed.

(* the validator accepts a byte-prefix of a well-formed blob exactly when the cut is at a record boundary *)
Theorem tool_validate_prefix : forall K rs n, wf_recs K rs -> metas_ok rs -> (n <= length (blob_bytes rs))%nat ->
  (tool_validate_blob meta_ok (firstn n (blob_bytes rs)) = true
   <-> exists j, (j <= length rs)%nat /\ n = boundary rs j).
Proof.
  intros K rs n (HK & Hwf & Hsz) Hmo Hn. rewrite blob_bytes_length in Hsz, Hn.
  assert (Hlb : length (firstn n (blob_bytes rs)) = n) by (rewrite firstn_length, blob_bytes_length; lia).
  unfold tool_validate_blob. rewrite Hlb.
  destruct (Nat.ltb_spec n 20) as [H20|H20].
  { split; [discriminate|]. intros (j & _ & E). rewrite boundary_eq in E. lia. }
  rewrite firstn_blob at 1 by exact H20. rewrite blob_magic_app, N.eqb_refl. cbn [negb].
  rewrite blob_bytes_eq.
  pose proof (tool_validate_loop_spec K HK rs blob_header_bytes (S n) n Hwf Hmo) as Hs.
  rewrite blob_header_length in Hs. change (N.of_nat 20) with 20 in Hs.
  rewrite Hs by lia. split; intros (j & Hj & E); exists j; (split; [exact Hj|]); rewrite boundary_eq in *; exact E.
Qed.

Corollary tool_validate_complete : forall K rs, wf_recs K rs -> metas_ok rs ->
  tool_validate_blob meta_ok (blob_bytes rs) = true.
Proof.
  intros K rs Hwf Hmo. rewrite <- (firstn_all (blob_bytes rs)).
  apply (tool_validate_prefix K rs _ Hwf Hmo (Nat.le_refl _)).
  exists (length rs). split; [lia|]. symmetry. apply boundary_last.
Qed.

(* recovery of a byte-prefix returns exactly the complete records (for skip_wrong on or off) *)
Theorem tool_recover_prefix : forall K rs n skip, wf_recs K rs -> metas_ok rs ->
  (20 <= n)%nat -> (n <= length (blob_bytes rs))%nat ->
  let j := ncomplete 20 rs n in
  tool_recover meta_ok (firstn n (blob_bytes rs)) skip = Some (blob_bytes (firstn j rs)) /\
  (j <= length rs)%nat /\ (boundary rs j <= n)%nat /\ ((j < length rs)%nat -> (n < boundary rs (S j))%nat).
Proof.
  intros K rs n skip (HK & Hwf & Hsz) Hmo H20 Hn j. rewrite blob_bytes_length in Hsz, Hn.
  assert (Hlb : length (firstn n (blob_bytes rs)) = n) by (rewrite firstn_length, blob_bytes_length; lia).
  split.
  - unfold tool_recover. rewrite Hlb.
    destruct (Nat.ltb_spec n 20) as [C|_]; [lia|].
    rewrite firstn_blob at 1 by exact H20. rewrite blob_magic_app, N.eqb_refl. cbn [negb].
    f_equal.
    assert (E20 : firstn 20 (firstn n (blob_bytes rs)) = blob_header_bytes).
    { rewrite firstn_blob by exact H20. apply firstn_app_len, blob_header_length. }
    rewrite E20, !blob_bytes_eq.
    pose proof (tool_recover_loop_spec K HK skip rs blob_header_bytes blob_header_bytes (S n) n Hwf Hmo) as Hs.
    rewrite blob_header_length in Hs. change (N.of_nat 20) with 20 in Hs.
    rewrite Hs by (reflexivity || lia). reflexivity.
  - pose proof (ncomplete_spec rs 20 n H20) as Hc. cbv zeta in Hc. fold j in Hc.
    rewrite !boundary_eq. exact Hc.
Qed.

End ToolsProofs.

(* ------------------------------------------------------------------------------------------------ *)
(* recovery of ANY input file: every record written carries its position in the output (was F7)     *)
(* ------------------------------------------------------------------------------------------------ *)

Section RecoverGeneral.
Variable meta_ok : bytes -> bool.

(* a record the tool writes: the header as it was read, the metadata and the data *)
Definition item := (header * bytes * bytes)%type.

(* the output file after writing the items one after another behind [out] *)
Fixpoint out_of (items : list item) (out : bytes) : bytes :=
  match items with
  | [] => out
  | (h, m, d) :: r => out_of r (out ++ rec_out out h m d)
  end.

(* what a successful read guarantees about the record *)
Definition good_item (it : item) : Prop :=
  let '(h, m, d) := it in
  validate_header h = None /\ h_msize h = N.of_nat (length m) /\ h_dsize h = N.of_nat (length d) /\
  h_dcrc h = crc32c d.

Lemma slice_length b off len x : slice b off len = Some x -> N.of_nat (length x) = len.
Proof.
  unfold slice. destruct (N.eqb_spec len 0) as [Hz|Hz].
  - intros [= <-]. cbn [length]. lia.
  - destruct (N.leb_spec (off + len) (N.of_nat (length b))) as [Hle|Hgt]; [|discriminate].
    intros [= <-]. rewrite firstn_length, skipn_length. lia.
Qed.

Lemma tool_read_good b pos h m d p' :
  tool_read meta_ok b pos = inl (h, m, d, p') -> good_item (h, m, d) /\ meta_ok m = true.
Proof.
  unfold tool_read.
  destruct (slice b pos 16) as [pre|]; [|discriminate].
  destruct (slice b pos (57 + le_val (firstn 8 (skipn 8 pre)))) as [hb|]; [|discriminate].
  destruct (decode_header hb) as [h0|]; [|discriminate].
  destruct (validate_header h0) as [e|] eqn:Hv; [discriminate|].
  destruct (slice b (pos + 57 + le_val (firstn 8 (skipn 8 pre))) (h_msize h0)) as [m0|] eqn:Sm; [|discriminate].
  destruct (slice b (pos + 57 + le_val (firstn 8 (skipn 8 pre)) + h_msize h0) (h_dsize h0)) as [d0|] eqn:Sd;
    [|destruct (meta_ok m0); discriminate].
  destruct (meta_ok m0) eqn:Hmo; cbn [negb]; [|discriminate].
  destruct (N.eqb_spec (crc32c d0) (h_dcrc h0)) as [Hc|Hc]; [|discriminate].
  intros [= -> -> -> _]. split; [|exact Hmo]. cbn [good_item].
  split; [exact Hv|]. split; [symmetry; exact (slice_length _ _ _ _ Sm)|].
  split; [symmetry; exact (slice_length _ _ _ _ Sd)|]. symmetry; exact Hc.
Qed.

Definition was_read (b : bytes) (it : item) : Prop :=
  exists pos p', tool_read meta_ok b pos = inl (it, p').

(* the loop only ever appends records it has read successfully, each through [rec_out] *)
Lemma tool_recover_loop_items : forall fuel b skip pos out,
  exists items, tool_recover_loop meta_ok fuel b skip pos out = out_of items out /\ Forall (was_read b) items.
Proof.
  induction fuel as [|f IH]; intros b skip pos out; cbn [tool_recover_loop].
  - exists []. split; [reflexivity|constructor].
  - destruct (pos <? N.of_nat (length b)); [|exists []; split; [reflexivity|constructor]].
    destruct (tool_read meta_ok b pos) as [[[[h m] d] p']|e] eqn:R.
    + destruct (IH b skip p' (out ++ rec_out out h m d)) as (its & E & F).
      exists ((h, m, d) :: its). split; [exact E|]. constructor; [|exact F]. exists pos, p'. exact R.
    + destruct skip; [|exists []; split; [reflexivity|constructor]].
      destruct (skip_pos b pos e) as [p1|]; [|exists []; split; [reflexivity|constructor]].
      destruct (tool_read meta_ok b p1) as [[[[h m] d] p']|e1] eqn:R1; [|exists []; split; [reflexivity|constructor]].
      destruct (IH b true p' (out ++ rec_out out h m d)) as (its & E & F).
      exists ((h, m, d) :: its). split; [exact E|]. constructor; [|exact F]. exists p1, p'. exact R1.
Qed.

Lemma out_of_app its1 : forall its2 out, out_of (its1 ++ its2) out = out_of its2 (out_of its1 out).
Proof.
  induction its1 as [|[[h m] d] r IH]; intros its2 out; cbn [app out_of]; [reflexivity|apply IH].
Qed.

Lemma out_of_prefix its : forall out, exists suf, out_of its out = out ++ suf.
Proof.
  induction its as [|[[h m] d] r IH]; intros out; cbn [out_of].
  - exists []. rewrite app_nil_r. reflexivity.
  - destruct (IH (out ++ rec_out out h m d)) as (suf & E). exists (rec_out out h m d ++ suf).
    rewrite E, <- app_assoc. reflexivity.
Qed.

(* every record written starts at the length of the output so far, its header carries that position and
   a right checksum, and Entry::load through that header returns the metadata and data that were read *)
Theorem out_of_record_readable its1 h m d its2 out : good_item (h, m, d) ->
  let o1 := out_of its1 out in
  let h' := stamp h (N.of_nat (length o1)) in
  (exists suf, out_of (its1 ++ (h, m, d) :: its2) out = o1 ++ encode_header h' ++ m ++ d ++ suf) /\
  h_off h' = N.of_nat (length o1) /\ validate_header h' = None /\
  entry_load (out_of (its1 ++ (h, m, d) :: its2) out) h' = ROk (m, d).
Proof.
  intros (Hv & Hms & Hds & Hdc) o1 h'.
  assert (E : exists suf, out_of (its1 ++ (h, m, d) :: its2) out = o1 ++ encode_header h' ++ m ++ d ++ suf).
  { rewrite out_of_app. fold o1. cbn [out_of].
    destruct (out_of_prefix its2 (o1 ++ rec_out o1 h m d)) as (suf & E). exists suf.
    rewrite E. unfold rec_out. fold h'. rewrite <- !app_assoc. reflexivity. }
  split; [exact E|]. split; [apply stamp_off|].
  pose proof (stamp_valid h (N.of_nat (length o1)) Hv) as Hv'. fold h' in Hv'.
  split; [exact Hv'|].
  destruct E as (suf & ->).
  destruct (stamp_other_fields h (N.of_nat (length o1))) as (Fmg & Fk & Fms & Fds & _ & _ & Fdc). fold h' in Fmg, Fk, Fms, Fds, Fdc.
  unfold validate_header in Hv'.
  destruct (N.eqb_spec (h_magic h') RECORD_MAGIC_BYTE) as [Hmg|]; cbn [negb] in Hv'; [|discriminate].
  destruct (N.eqb_spec (header_crc h') (h_hcrc h')) as [Hhc|]; cbn [negb] in Hv'; [|discriminate].
  apply entry_load_ok.
  - apply stamp_off.
  - rewrite Fms. exact Hms.
  - rewrite Fds. exact Hds.
  - exact Hmg.
  - exact Hhc.
  - rewrite Fdc. exact Hdc.
Qed.

Theorem tool_recover_loop_offsets : forall fuel b skip pos out,
  exists items, tool_recover_loop meta_ok fuel b skip pos out = out_of items out /\
    Forall (was_read b) items /\
    forall its1 h m d its2, items = its1 ++ (h, m, d) :: its2 ->
      let o1 := out_of its1 out in
      let h' := stamp h (N.of_nat (length o1)) in
      (exists suf, out_of items out = o1 ++ encode_header h' ++ m ++ d ++ suf) /\
      h_off h' = N.of_nat (length o1) /\ validate_header h' = None /\
      entry_load (out_of items out) h' = ROk (m, d).
Proof.
  intros fuel b skip pos out. destruct (tool_recover_loop_items fuel b skip pos out) as (items & E & F).
  exists items. split; [exact E|]. split; [exact F|].
  intros its1 h m d its2 ->. apply out_of_record_readable.
  rewrite Forall_forall in F. destruct (F (h, m, d)) as (p & p' & R).
  { apply in_or_app. right. left. reflexivity. }
  exact (proj1 (tool_read_good b p h m d p' R)).
Qed.

(* ---------- the recovered file under the storage's scan ---------- *)

Lemma stamp_wf h o : wf_header h -> o < 2^64 -> wf_header (stamp h o).
Proof.
  intros (Hm & Hk & Hms & Hds & Hf & Ho & Ht & Hdc & Hhc) Hlt. unfold stamp.
  destruct (h_off h =? o); [repeat split; assumption|].
  unfold wf_header. cbn [h_magic h_key h_msize h_dsize h_flags h_off h_ts h_dcrc h_hcrc with_off with_hcrc].
  repeat split; try assumption. unfold header_crc. apply crc32c_lt.
Qed.

Definition item_len (it : item) : nat :=
  let '(h, m, d) := it in (57 + length (h_key h) + length m + length d)%nat.

(* explicit layout of the records written behind the first [pos] bytes, and the headers they carry *)
Fixpoint items_bytes (pos : nat) (its : list item) : bytes :=
  match its with
  | [] => []
  | (h, m, d) :: r => (encode_header (stamp h (N.of_nat pos)) ++ m ++ d) ++ items_bytes (pos + item_len (h, m, d)) r
  end.
Fixpoint out_hdrs (pos : nat) (its : list item) : list header :=
  match its with
  | [] => []
  | (h, m, d) :: r => stamp h (N.of_nat pos) :: out_hdrs (pos + item_len (h, m, d)) r
  end.

Lemma rec_out_length out h m d : length (rec_out out h m d) = item_len (h, m, d).
Proof. unfold rec_out, item_len. rewrite !app_length, stamp_length, encode_header_length. lia. Qed.

Lemma out_of_eq its : forall out, out_of its out = out ++ items_bytes (length out) its.
Proof.
  induction its as [|[[h m] d] r IH]; intros out; cbn [out_of items_bytes].
  - rewrite app_nil_r. reflexivity.
  - rewrite IH, app_length, rec_out_length, <- app_assoc. reflexivity.
Qed.

Lemma out_hdrs_length its : forall pos, length (out_hdrs pos its) = length its.
Proof. induction its as [|[[h m] d] r IH]; intros pos; cbn [out_hdrs length]; [reflexivity|]. rewrite IH. reflexivity. Qed.

(* a record the scan accepts: what a read guarantees, fields within their widths, key length K *)
Definition scan_item (K : N) (it : item) : Prop :=
  good_item it /\ wf_header (fst (fst it)) /\ N.of_nat (length (h_key (fst (fst it)))) = K.

Lemma scan_loop_items K v : forall its pre acc fuel,
  Forall (scan_item K) its -> N.of_nat (length pre + length (items_bytes (length pre) its)) < 2^64 ->
  (length its < fuel)%nat ->
  scan_loop fuel (pre ++ items_bytes (length pre) its) K v (N.of_nat (length pre)) acc
  = ROk (acc ++ out_hdrs (length pre) its).
Proof.
  induction its as [|[[h m] d] its IH]; intros pre acc fuel Hits Hsz Hfuel.
  - cbn [items_bytes out_hdrs]. rewrite !app_nil_r. apply scan_loop_stop; [exact Hfuel|]. lia.
  - inversion Hits as [|it its' Hit Hrest]; subst it its'.
    destruct Hit as ((Hv & Hms & Hds & Hdc) & Hwf & Hk). cbn [fst] in Hwf, Hk.
    destruct fuel as [|f]; [lia|]. cbn [length] in Hfuel.
    cbn [items_bytes out_hdrs] in *.
    set (h' := stamp h (N.of_nat (length pre))) in *.
    set (rest := items_bytes (length pre + item_len (h, m, d)) its) in *.
    assert (Hle : length (encode_header h') = (57 + length (h_key h))%nat).
    { subst h'. rewrite stamp_length. apply encode_header_length. }
    rewrite !app_length, Hle in Hsz.
    destruct (stamp_other_fields h (N.of_nat (length pre))) as (_ & _ & Fms & Fds & _ & _ & Fdc).
    fold h' in Fms, Fds, Fdc.
    set (B := pre ++ (encode_header h' ++ m ++ d) ++ rest).
    assert (HB1 : B = pre ++ encode_header h' ++ (m ++ d ++ rest)).
    { subst B. rewrite <- !app_assoc. reflexivity. }
    assert (HB2 : B = (pre ++ encode_header h' ++ m) ++ d ++ rest).
    { subst B. rewrite <- !app_assoc. reflexivity. }
    assert (HB3 : B = (pre ++ encode_header h' ++ m ++ d) ++ rest).
    { subst B. rewrite <- !app_assoc. reflexivity. }
    assert (HlB : length B = (length pre + (57 + length (h_key h) + (length m + length d)) + length rest)%nat).
    { subst B. rewrite !app_length, Hle. lia. }
    cbn [scan_loop]. rewrite HlB.
    destruct (N.ltb_spec (N.of_nat (length pre))
                (N.of_nat (length pre + (57 + length (h_key h) + (length m + length d)) + length rest))) as [_|C]; [|lia].
    assert (S1 : slice B (N.of_nat (length pre)) (57 + K) = Some (encode_header h')).
    { rewrite HB1. apply slice_at; [reflexivity|]. rewrite Hle. lia. }
    rewrite S1, decode_encode_header by (apply stamp_wf; [exact Hwf|lia]).
    subst h'. rewrite (stamp_valid _ _ Hv). set (h' := stamp h (N.of_nat (length pre))) in *.
    rewrite Fms, Fds, Fdc.
    set (pre' := pre ++ encode_header h' ++ m ++ d).
    assert (Hlp : length pre' = (length pre + item_len (h, m, d))%nat).
    { subst pre'. rewrite !app_length, Hle. cbn [item_len]. lia. }
    assert (Hcur : N.of_nat (length pre) + (57 + K) + h_msize h + h_dsize h = N.of_nat (length pre')).
    { rewrite Hlp, Hms, Hds, <- Hk. cbn [item_len]. lia. }
    assert (Hrec : scan_loop f B K v (N.of_nat (length pre')) (acc ++ [h']) = ROk (acc ++ h' :: out_hdrs (length pre') its)).
    { rewrite HB3. fold pre'. unfold rest. rewrite <- Hlp.
      rewrite (IH pre' (acc ++ [h']) f Hrest) by (try lia; rewrite Hlp; fold rest; cbn [item_len]; lia).
      rewrite <- app_assoc. reflexivity. }
    rewrite Hlp in Hrec at 2.
    rewrite Hcur.
    (* the record ends inside the file *)
    destruct (N.ltb_spec (N.of_nat (length pre + (57 + length (h_key h) + (length m + length d)) + length rest))
                (N.of_nat (length pre'))) as [C|_]; [rewrite Hlp in C; cbn [item_len] in C; lia|].
    destruct v.
    + assert (S2 : slice B (N.of_nat (length pre) + (57 + K) + h_msize h) (h_dsize h) = Some d).
      { rewrite HB2. apply slice_at; [|exact Hds]. rewrite !app_length, Hle. lia. }
      rewrite S2, Hdc, N.eqb_refl. exact Hrec.
    + exact Hrec.
Qed.

Lemma items_bytes_length_ge its : forall pos, (length its <= length (items_bytes pos its))%nat.
Proof.
  induction its as [|[[h m] d] r IH]; intros pos; cbn [items_bytes length]; [lia|].
  specialize (IH (pos + item_len (h, m, d))%nat). rewrite !app_length, stamp_length, encode_header_length. lia.
Qed.

Lemma blob_header_check_20 hdr rest : length hdr = 20%nat ->
  blob_header_check (hdr ++ rest) = blob_header_check hdr.
Proof.
  intros H. do 20 (destruct hdr as [|? hdr]; [discriminate H|]). destruct hdr; [|discriminate H].
  reflexivity.
Qed.

Lemma encode_header_front h : exists rest,
  encode_header h = le64 (h_magic h) ++ le64 (N.of_nat (length (h_key h))) ++ rest.
Proof. eexists. unfold encode_header. reflexivity. Qed.

(* opening the written file: the scan (with or without data validation) returns exactly the stamped headers *)
Theorem out_of_scan K v its hdr :
  length hdr = 20%nat -> blob_header_check hdr = None -> Forall (scan_item K) its ->
  N.of_nat (length (out_of its hdr)) < 2^64 ->
  blob_open_scan (out_of its hdr) K v = ROk (out_hdrs 20 its).
Proof.
  intros Hl Hc Hits Hsz. rewrite out_of_eq in *. rewrite Hl in *. unfold blob_open_scan.
  rewrite blob_header_check_20, Hc by exact Hl.
  destruct its as [|it its].
  - cbn [items_bytes out_hdrs]. rewrite app_nil_r, Hl. reflexivity.
  - set (its1 := it :: its) in *. set (B := hdr ++ items_bytes 20 its1) in *. destruct it as [[h m] d].
    assert (HB : B = hdr ++ (encode_header (stamp h (N.of_nat 20)) ++ m ++ d) ++ items_bytes (20 + item_len (h, m, d)) its)
      by reflexivity.
    assert (Hlen : (20 + 57 <= length B)%nat).
    { rewrite HB, !app_length, stamp_length, encode_header_length, Hl. lia. }
    destruct (Nat.ltb_spec 20 (length B)) as [_|C]; [|lia].
    assert (Hst : scan_start B K = None).
    { unfold scan_start.
      destruct (Nat.ltb_spec (length B) 36) as [C|_]; [lia|].
      inversion Hits as [|it its' Hit _]; subst it its'.
      destruct Hit as ((Hv & _) & Hwf & Hk). cbn [fst] in Hwf, Hk.
      pose proof (stamp_valid h (N.of_nat 20) Hv) as Hv'.
      pose proof (stamp_wf h (N.of_nat 20) Hwf ltac:(reflexivity)) as (Hm' & Hk' & _).
      destruct (stamp_other_fields h (N.of_nat 20)) as (_ & Fk & _).
      rewrite HB.
      destruct (encode_header_front (stamp h (N.of_nat 20))) as (rest & E). rewrite E, <- !app_assoc.
      unfold u64_at.
      rewrite (field_at hdr (le64 (h_magic (stamp h (N.of_nat 20)))) _ 20 8 Hl (le64_length _)).
      rewrite le64_val by exact Hm'.
      unfold validate_header in Hv'.
      destruct (h_magic (stamp h (N.of_nat 20)) =? RECORD_MAGIC_BYTE); cbn [negb] in *; [|discriminate Hv'].
      rewrite (app_assoc hdr (le64 _)).
      rewrite (field_at (hdr ++ le64 (h_magic (stamp h (N.of_nat 20)))) (le64 (N.of_nat (length (h_key (stamp h (N.of_nat 20)))))) _ 28 8)
        by (rewrite ?app_length, ?le64_length, ?Hl; reflexivity).
      rewrite le64_val by exact Hk'. rewrite Fk, Hk, N.eqb_refl. reflexivity. }
    rewrite Hst.
    pose proof (scan_loop_items K v its1 hdr [] (S (length B)) Hits) as Hs.
    rewrite Hl in Hs. change (N.of_nat 20) with 20 in Hs. fold B in Hs. rewrite Hs; [reflexivity| |].
    + unfold B in Hsz. rewrite app_length, Hl in Hsz. exact Hsz.
    + pose proof (items_bytes_length_ge its1 20) as Hge. unfold B. rewrite app_length. lia.
Qed.

(* ---------- headers read from a file of bytes (< 256) fit their fields ---------- *)
Lemma wf_bytes_firstn b : wf_bytes b -> forall n, wf_bytes (firstn n b).
Proof.
  unfold wf_bytes. induction 1 as [|x l Hx Hl IH]; intros [|n]; cbn [firstn]; constructor; [exact Hx|apply IH].
Qed.
Lemma wf_bytes_skipn b : wf_bytes b -> forall n, wf_bytes (skipn n b).
Proof.
  unfold wf_bytes. induction 1 as [|x l Hx Hl IH]; intros [|n]; cbn [skipn]; try constructor; try assumption. apply IH.
Qed.
Lemma le_val_firstn_lt k b : wf_bytes b -> le_val (firstn k b) < 2^(8 * N.of_nat k).
Proof.
  intros H. eapply N.lt_le_trans; [apply le_val_lt, wf_bytes_firstn, H|].
  apply N.pow_le_mono_r; [lia|]. rewrite firstn_length. lia.
Qed.
Lemma wf_bytes_nth b i : wf_bytes b -> nth i b 0 < 256.
Proof.
  intros H. destruct (Nat.lt_ge_cases i (length b)) as [Hi|Hi].
  - exact (proj1 (Forall_nth _ b) H i 0 Hi).
  - rewrite nth_overflow by exact Hi. reflexivity.
Qed.
Lemma slice_wf b off len x : wf_bytes b -> slice b off len = Some x -> wf_bytes x.
Proof.
  intros H. unfold slice. destruct (len =? 0); [intros [= <-]; constructor|].
  destruct (off + len <=? N.of_nat (length b)); [|discriminate].
  intros [= <-]. apply wf_bytes_firstn, wf_bytes_skipn, H.
Qed.

Lemma decode_header_wf hb h : wf_bytes hb -> decode_header hb = Some h -> wf_header h.
Proof.
  intros Hb.
  assert (U64 : forall o, le_val (firstn 8 (skipn o hb)) < 2^64).
  { intros o. apply (le_val_firstn_lt 8), wf_bytes_skipn, Hb. }
  assert (U32 : forall o, le_val (firstn 4 (skipn o hb)) < 2^32).
  { intros o. apply (le_val_firstn_lt 4), wf_bytes_skipn, Hb. }
  set (u64 := fun o : nat => le_val (firstn 8 (skipn o hb))).
  set (u32 := fun o : nat => le_val (firstn 4 (skipn o hb))).
  set (klen := N.to_nat (u64 8%nat)).
  assert (W : wf_header {| h_magic := u64 0%nat; h_key := firstn klen (skipn 16 hb); h_msize := u64 (16 + klen)%nat;
          h_dsize := u64 (24 + klen)%nat; h_flags := nth (32 + klen) hb 0; h_off := u64 (33 + klen)%nat;
          h_ts := u64 (41 + klen)%nat; h_dcrc := u32 (49 + klen)%nat; h_hcrc := u32 (53 + klen)%nat |}).
  { unfold wf_header. cbn [h_magic h_key h_msize h_dsize h_flags h_off h_ts h_dcrc h_hcrc].
    split; [apply U64|]. split.
    { rewrite firstn_length. specialize (U64 8%nat). subst klen u64. cbv beta. lia. }
    split; [apply U64|]. split; [apply U64|]. split; [apply wf_bytes_nth, Hb|].
    split; [apply U64|]. split; [apply U64|]. split; apply U32. }
  unfold decode_header. cbv beta zeta.
  destruct (length hb <? 16)%nat; [discriminate|].
  destruct (negb (length hb =? 57 + N.to_nat (le_val (firstn 8 (skipn 8 hb))))%nat); [discriminate|].
  intros E. injection E as E. rewrite <- E. exact W.
Qed.

Lemma tool_read_wf b pos h m d p' :
  wf_bytes b -> tool_read meta_ok b pos = inl (h, m, d, p') -> wf_header h.
Proof.
  intros Hb. unfold tool_read.
  destruct (slice b pos 16) as [pre|]; [|discriminate].
  destruct (slice b pos (57 + le_val (firstn 8 (skipn 8 pre)))) as [hb|] eqn:Sh; [|discriminate].
  destruct (decode_header hb) as [h0|] eqn:Dh; [|discriminate].
  destruct (validate_header h0) as [e|]; [discriminate|].
  destruct (slice b (pos + 57 + le_val (firstn 8 (skipn 8 pre))) (h_msize h0)) as [m0|]; [|discriminate].
  destruct (slice b (pos + 57 + le_val (firstn 8 (skipn 8 pre)) + h_msize h0) (h_dsize h0)) as [d0|];
    [|destruct (meta_ok m0); discriminate].
  destruct (meta_ok m0); cbn [negb]; [|discriminate].
  destruct (crc32c d0 =? h_dcrc h0); [|discriminate].
  intros [= <- _ _ _]. exact (decode_header_wf hb h0 (slice_wf _ _ _ _ Hb Sh) Dh).
Qed.

(* every record of the written file is read back through its stamped header *)
Lemma out_of_all_readable its2 : forall its1 out, Forall good_item its2 ->
  Forall2 (fun it h' => entry_load (out_of (its1 ++ its2) out) h' = ROk (snd (fst it), snd it))
          its2 (out_hdrs (length (out_of its1 out)) its2).
Proof.
  induction its2 as [|[[h m] d] r IH]; intros its1 out Hg; cbn [out_hdrs]; [constructor|].
  inversion Hg as [|it r' Hit Hr]; subst it r'. constructor.
  - cbn [fst snd]. apply (out_of_record_readable its1 h m d r out Hit).
  - specialize (IH (its1 ++ [(h, m, d)]) out Hr).
    rewrite (out_of_app its1 [(h, m, d)] out) in IH. cbn [out_of] in IH.
    rewrite app_length, rec_out_length, <- app_assoc in IH. exact IH.
Qed.

(* MAIN: whatever the input file holds (damaged or not, with or without skipping), the file recovery writes is
   opened by the storage's scan, which returns one header per written record, each carrying its position in
   the NEW file, and Entry::load through each of them returns the metadata and data the tool had read.
   Premises: the input is a file of bytes with the blob header the storage expects, every record the tool can
   read has the key length K of the storage, and the output is shorter than 2^64 bytes. *)
Theorem tool_recover_served : forall K b skip out v,
  wf_bytes b -> blob_header_check b = None ->
  (forall pos h m d p', tool_read meta_ok b pos = inl (h, m, d, p') -> N.of_nat (length (h_key h)) = K) ->
  tool_recover meta_ok b skip = Some out -> N.of_nat (length out) < 2^64 ->
  exists items,
    Forall (was_read b) items /\ out = out_of items (firstn 20 b) /\
    blob_open_scan out K v = ROk (out_hdrs 20 items) /\
    Forall2 (fun it h' => entry_load out h' = ROk (snd (fst it), snd it)) items (out_hdrs 20 items).
Proof.
  intros K b skip out v Hb Hc HK Hrec Hsz.
  assert (H20 : (20 <= length b)%nat).
  { unfold blob_header_check in Hc. destruct (Nat.ltb_spec (length b) 20) as [C|C]; [discriminate Hc|exact C]. }
  assert (Hl : length (firstn 20 b) = 20%nat) by (rewrite firstn_length; lia).
  assert (Hc' : blob_header_check (firstn 20 b) = None).
  { rewrite <- (blob_header_check_20 (firstn 20 b) (skipn 20 b) Hl), firstn_skipn. exact Hc. }
  unfold tool_recover in Hrec.
  destruct (length b <? 20)%nat; [discriminate Hrec|].
  destruct (negb (u64_at b 0 =? BLOB_MAGIC_BYTE)); [discriminate Hrec|].
  destruct (tool_recover_loop_items (S (length b)) b skip 20 (firstn 20 b)) as (items & E & F).
  rewrite E in Hrec. assert (Hout : out = out_of items (firstn 20 b)) by congruence.
  clear Hrec. subst out. exists items.
  assert (Hgood : Forall good_item items).
  { rewrite Forall_forall in *. intros [[h m] d] Hin. destruct (F _ Hin) as (p & p' & R).
    exact (proj1 (tool_read_good b p h m d p' R)). }
  assert (Hscan : Forall (scan_item K) items).
  { rewrite Forall_forall in *. intros [[h m] d] Hin. destruct (F _ Hin) as (p & p' & R).
    split; [exact (Hgood _ Hin)|]. cbn [fst]. split; [exact (tool_read_wf b p h m d p' Hb R)|exact (HK p h m d p' R)]. }
  split; [exact F|]. split; [reflexivity|]. split.
  - apply out_of_scan; assumption.
  - pose proof (out_of_all_readable items [] (firstn 20 b) Hgood) as H2.
    cbn [app out_of] in H2. rewrite Hl in H2. exact H2.
Qed.
End RecoverGeneral.

(* ------------------------------------------------------------------------------------------------ *)
(* F7 (repaired in commit 34bfd5d of the code): with skip_wrong the records behind a skipped one    *)
(* are written with their NEW blob_offset. Before the repair the header was copied unchanged, the   *)
(* record kept the offset of its old place and was unreadable through the regenerated index.        *)
(* ------------------------------------------------------------------------------------------------ *)

(* re-stamping a header the writer produced gives the header the writer would have produced at the new place,
   so skipping a record yields byte for byte the blob of the remaining records *)
Lemma stamp_hdr_of o o' x : stamp (hdr_of o x) o' = hdr_of o' x.
Proof. unfold stamp. rewrite hdr_off. destruct (N.eqb_spec o o') as [->|_]; reflexivity. Qed.

Definition all_ok (_ : bytes) : bool := true.
Definition f7_r1 : rec := ([1;2;3;4], 1, [], [10;20;30]).
Definition f7_r2 : rec := ([5;6;7;8], 2, [], [40;50;60]).
Definition f7_r3 : rec := ([9;10;11;12], 3, [], [70;80;90]).
Definition f7_recs : list rec := [f7_r1; f7_r2; f7_r3].
(* the last data byte of record 2 has one bit flipped *)
Definition f7_bad : bytes := updN (blob_bytes f7_recs) (boundary f7_recs 2 - 1) (fun b => N.lxor b 1).
Definition f7_h1 : header := nth 0 (blob_hdrs f7_recs) (new_header [] 0 [] []).
Definition f7_h3 : header := nth 2 (blob_hdrs f7_recs) (new_header [] 0 [] []).   (* record 3 in the damaged blob *)
(* what the tool writes: exactly the blob the storage would have written for records 1 and 3 alone *)
Definition f7_out : bytes := blob_bytes [f7_r1; f7_r3].
Definition f7_h3' : header := nth 1 (blob_hdrs [f7_r1; f7_r3]) (new_header [] 0 [] []).

(* without skip_wrong the tool stops at the bad record: only record 1 survives *)
Example f7_no_skip : tool_recover all_ok f7_bad false = Some (blob_bytes [f7_r1]).
Proof. vm_compute. reflexivity. Qed.

(* with skip_wrong: record 3 now sits at offset 84 (= boundary 1) and its header says 84 (it said 148 = boundary 2
   in the damaged blob), with a refreshed header checksum; the output passes the validator and the scan with and
   without data validation, and every header the scan hands to the index reads back the original bytes *)
Example f7_recover_stamps_new_offset :
  tool_recover all_ok f7_bad true = Some f7_out /\
  length f7_out = 148%nat /\
  slice f7_out 84 61 = Some (encode_header f7_h3') /\         (* the header of record 3 is at 84 *)
  h_off f7_h3 = 148 /\ f7_h3' = stamp f7_h3 84 /\ h_off f7_h3' = 84 /\   (* and says 84 *)
  validate_header f7_h3' = None /\
  tool_validate_blob all_ok f7_out = true /\
  blob_open_scan f7_out 4 true = ROk [f7_h1; f7_h3'] /\
  blob_open_scan f7_out 4 false = ROk [f7_h1; f7_h3'] /\
  entry_load f7_out f7_h1 = ROk ([], [10;20;30]) /\
  entry_load f7_out f7_h3' = ROk ([], [70;80;90]) /\
  entry_load f7_out f7_h3 = RFail EBincode.     (* the stale header (what the writer emitted before the repair) is not usable *)
Proof. vm_compute. repeat split; reflexivity. Qed.

Print Assumptions tool_validate_prefix.
Print Assumptions tool_validate_complete.
Print Assumptions tool_recover_prefix.
Print Assumptions stamp_off.
Print Assumptions stamp_same.
Print Assumptions stamp_crc.
Print Assumptions stamp_other_fields.
Print Assumptions stamp_valid.
Print Assumptions stamp_hdr_of.
Print Assumptions out_of_record_readable.
Print Assumptions tool_recover_loop_offsets.
Print Assumptions out_of_scan.
Print Assumptions tool_recover_served.
Print Assumptions f7_no_skip.
Print Assumptions f7_recover_stamps_new_offset.
