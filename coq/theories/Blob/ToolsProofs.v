(* The offline tools (validate_blob, recovery_blob) on byte-prefixes of well-formed blobs, and the
   recovery defect F7.  Builds on Blob/ScanProofs.v (blob layout, slices of truncated files). *)
Require Import Pearl.Base.Prelude Pearl.Base.LE Pearl.Base.LEProofs Pearl.Base.Crc Pearl.Base.CrcProofs
               Pearl.Generated.Consts Pearl.Format.Record Pearl.Format.RecordProofs Pearl.Blob.Scan
               Pearl.Blob.ScanProofs.

Section ToolsProofs.
Variable meta_ok : bytes -> bool.

Lemma klen_of a b : b < 2^64 -> le_val (firstn 8 (skipn 8 (le64 a ++ le64 b))) = b.
Proof.
  intros Hb. replace (skipn 8 (le64 a ++ le64 b)) with (le64 b)
    by (symmetry; exact (skipn_app_len (le64 a) (le64 b) 8 0 (le64_length a))).
  rewrite firstn_len by apply le64_length. apply le64_val, Hb.
Qed.

(* reading one record of a (possibly truncated) file: all or nothing *)
Lemma tool_read_spec K pre x suf n :
  K < 2^64 -> wf_rec K x -> N.of_nat (length pre) < 2^64 -> meta_ok (rmeta x) = true ->
  tool_read meta_ok (firstn n (pre ++ rec_bytes (N.of_nat (length pre)) x ++ suf)) (N.of_nat (length pre)) =
  if (length pre + rec_len x <=? n)%nat
  then inl (hdr_of (N.of_nat (length pre)) x, rmeta x, rdata x, N.of_nat (length pre + rec_len x))
  else inr TIo.
Proof.
  intros HK Hx Hpre Hmeta. pose proof Hx as (Hk & Hts & Hms & Hds).
  pose proof (wf_rec_len K x Hx) as Hrl.
  set (h' := hdr_of (N.of_nat (length pre)) x).
  set (B := pre ++ rec_bytes (N.of_nat (length pre)) x ++ suf).
  destruct (enc_hdr_front (N.of_nat (length pre)) x) as (rest & Efront). fold h' in Efront.
  assert (HB0 : B = pre ++ (le64 RECORD_MAGIC_BYTE ++ le64 (N.of_nat (length (rkey x)))) ++ (rest ++ rmeta x ++ rdata x ++ suf)).
  { subst B. unfold rec_bytes. fold h'. rewrite Efront, <- !app_assoc. reflexivity. }
  assert (HB1 : B = pre ++ encode_header h' ++ (rmeta x ++ rdata x ++ suf)).
  { subst B. unfold rec_bytes. fold h'. rewrite <- !app_assoc. reflexivity. }
  assert (HB2 : B = (pre ++ encode_header h') ++ rmeta x ++ (rdata x ++ suf)).
  { rewrite HB1, <- !app_assoc. reflexivity. }
  assert (HB3 : B = (pre ++ encode_header h' ++ rmeta x) ++ rdata x ++ suf).
  { rewrite HB1, <- !app_assoc. reflexivity. }
  assert (Hle : length (encode_header h') = (57 + N.to_nat K)%nat) by (subst h'; rewrite enc_hdr_length; lia).
  unfold tool_read.
  destruct (Nat.lt_ge_cases n (length pre + 16)) as [H1|H1].
  { rewrite slice_firstn_lt by lia. destruct (Nat.leb_spec (length pre + rec_len x) n) as [C|_]; [lia|reflexivity]. }
  rewrite slice_firstn_ge by lia.
  assert (S0 : slice B (N.of_nat (length pre)) 16 = Some (le64 RECORD_MAGIC_BYTE ++ le64 (N.of_nat (length (rkey x))))).
  { rewrite HB0. apply slice_at; [reflexivity|]. rewrite app_length, !le64_length. reflexivity. }
  rewrite S0, klen_of by (rewrite Hk; exact HK). rewrite Hk.
  destruct (Nat.lt_ge_cases n (length pre + 57 + N.to_nat K)) as [H2|H2].
  { rewrite slice_firstn_lt by lia. destruct (Nat.leb_spec (length pre + rec_len x) n) as [C|_]; [lia|reflexivity]. }
  rewrite slice_firstn_ge by lia.
  assert (S1 : slice B (N.of_nat (length pre)) (57 + K) = Some (encode_header h')).
  { rewrite HB1. apply slice_at; [reflexivity|]. lia. }
  rewrite S1, decode_encode_header by (apply (hdr_of_wf K); assumption).
  subst h'. rewrite hdr_of_valid, hdr_msize, hdr_dsize, hdr_dcrc.
  set (h' := hdr_of (N.of_nat (length pre)) x) in *.
  destruct (Nat.lt_ge_cases n (length pre + 57 + N.to_nat K + length (rmeta x))) as [H3|H3].
  { rewrite slice_firstn_lt by lia. destruct (Nat.leb_spec (length pre + rec_len x) n) as [C|_]; [lia|reflexivity]. }
  rewrite slice_firstn_ge by lia.
  assert (S2 : slice B (N.of_nat (length pre) + 57 + K) (N.of_nat (length (rmeta x))) = Some (rmeta x)).
  { rewrite HB2. apply slice_at; [|reflexivity]. rewrite app_length, Hle. lia. }
  rewrite S2, Hmeta. cbn [negb].
  destruct (Nat.leb_spec (length pre + rec_len x) n) as [H4|H4].
  - rewrite slice_firstn_ge by lia.
    assert (S3 : slice B (N.of_nat (length pre) + 57 + K + N.of_nat (length (rmeta x))) (N.of_nat (length (rdata x)))
                 = Some (rdata x)).
    { rewrite HB3. apply slice_at; [|reflexivity]. rewrite !app_length, Hle. lia. }
    rewrite S3, N.eqb_refl.
    replace (N.of_nat (length pre) + 57 + K + N.of_nat (length (rmeta x)) + N.of_nat (length (rdata x)))
      with (N.of_nat (length pre + rec_len x)) by lia.
    reflexivity.
  - rewrite slice_firstn_lt by lia. reflexivity.
Qed.

Definition metas_ok (rs : list rec) : Prop := Forall (fun x => meta_ok (rmeta x) = true) rs.

(* number of records that lie completely inside the first n bytes (records start at off) *)
Fixpoint ncomplete (off : nat) (rs : list rec) (n : nat) : nat :=
  match rs with
  | [] => 0%nat
  | x :: r => if (off + rec_len x <=? n)%nat then S (ncomplete (off + rec_len x) r n) else 0%nat
  end.

Lemma ncomplete_spec rs : forall off n, (off <= n)%nat ->
  let j := ncomplete off rs n in
  (j <= length rs)%nat /\ (off + recs_len (firstn j rs) <= n)%nat /\
  ((j < length rs)%nat -> (n < off + recs_len (firstn (S j) rs))%nat).
Proof.
  induction rs as [|x r IH]; intros off n Hoff; cbn [ncomplete length].
  - cbn [firstn recs_len]. split; [lia|]. split; [lia|]. intros C. lia.
  - destruct (Nat.leb_spec (off + rec_len x) n) as [H|H].
    + specialize (IH (off + rec_len x)%nat n H). cbv zeta in IH. destruct IH as (I1 & I2 & I3).
      cbn [firstn recs_len] in *. split; [lia|]. split; [lia|]. intros Hlt. specialize (I3 ltac:(lia)). lia.
    + cbn [firstn recs_len]. split; [lia|]. split; [lia|]. intros _. lia.
Qed.

(* ---------- validate_blob ---------- *)
Lemma tool_validate_loop_spec K (HK : K < 2^64) : forall rs pre fuel n,
  Forall (wf_rec K) rs -> metas_ok rs -> N.of_nat (length pre + recs_len rs) < 2^64 ->
  (length pre <= n)%nat -> (n <= length pre + recs_len rs)%nat -> (0 < fuel)%nat -> (n < fuel + length pre)%nat ->
  (tool_validate_loop meta_ok fuel (firstn n (pre ++ recs_bytes (length pre) rs)) (N.of_nat (length pre)) = true
   <-> exists j, (j <= length rs)%nat /\ n = (length pre + recs_len (firstn j rs))%nat).
Proof.
  induction rs as [|x rs IH]; intros pre fuel n Hwf Hmo Hsz Hlo Hhi Hf Hfuel.
  - cbn [recs_len] in Hhi. destruct fuel as [|f]; [lia|]. cbn [tool_validate_loop recs_bytes]. rewrite app_nil_r, firstn_length.
    destruct (N.ltb_spec (N.of_nat (length pre)) (N.of_nat (Nat.min n (length pre)))) as [C|_]; [lia|].
    split; [intros _|reflexivity]. exists 0%nat. cbn [firstn recs_len length]. split; lia.
  - inversion Hwf as [|x' rs' Hx Hrs]; subst x' rs'. inversion Hmo as [|x' rs' Hmx Hmrs]; subst x' rs'.
    cbn [recs_len] in Hsz, Hhi.
    set (pre' := pre ++ rec_bytes (N.of_nat (length pre)) x).
    assert (Hlp : length pre' = (length pre + rec_len x)%nat).
    { subst pre'. rewrite app_length, rec_bytes_length. reflexivity. }
    assert (Hrl := wf_rec_len K x Hx).
    destruct fuel as [|f]; [lia|]. cbn [tool_validate_loop recs_bytes].
    rewrite firstn_length, !app_length, rec_bytes_length, recs_bytes_length.
    replace (Nat.min n (length pre + (rec_len x + recs_len rs))) with n by lia.
    destruct (N.ltb_spec (N.of_nat (length pre)) (N.of_nat n)) as [Hlt|Hge].
    2:{ split; [intros _|reflexivity]. exists 0%nat. cbn [firstn recs_len length]. split; lia. }
    rewrite (tool_read_spec K) by (assumption || lia).
    destruct (Nat.leb_spec (length pre + rec_len x) n) as [Hc|Hc].
    + rewrite <- Hlp. rewrite (app_assoc pre). fold pre'.
      replace (length pre + rec_len x)%nat with (length pre') by exact Hlp.
      rewrite (IH pre' f n Hrs Hmrs) by lia. rewrite Hlp. split.
      * intros (j & Hj & Hn). exists (S j). cbn [firstn recs_len length]. split; lia.
      * intros ([|j] & Hj & Hn); cbn [firstn recs_len length] in *; [lia|]. exists j. split; lia.
    + split; [discriminate|]. intros ([|j] & Hj & Hn); cbn [firstn recs_len length] in *; lia.
Qed.

(* ---------- recovery_blob ---------- *)
Lemma tool_recover_loop_spec K (HK : K < 2^64) skip : forall rs pre out fuel n,
  Forall (wf_rec K) rs -> metas_ok rs -> N.of_nat (length pre + recs_len rs) < 2^64 ->
  (length pre <= n)%nat -> (n <= length pre + recs_len rs)%nat -> (0 < fuel)%nat -> (n < fuel + length pre)%nat ->
  tool_recover_loop meta_ok fuel (firstn n (pre ++ recs_bytes (length pre) rs)) skip (N.of_nat (length pre)) out
  = out ++ recs_bytes (length pre) (firstn (ncomplete (length pre) rs n) rs).
Proof.
  induction rs as [|x rs IH]; intros pre out fuel n Hwf Hmo Hsz Hlo Hhi Hf Hfuel.
  - cbn [recs_len] in Hhi. destruct fuel as [|f]; [lia|]. cbn [tool_recover_loop recs_bytes ncomplete firstn].
    rewrite !app_nil_r, firstn_length.
    destruct (N.ltb_spec (N.of_nat (length pre)) (N.of_nat (Nat.min n (length pre)))) as [C|_]; [lia|reflexivity].
  - inversion Hwf as [|x' rs' Hx Hrs]; subst x' rs'. inversion Hmo as [|x' rs' Hmx Hmrs]; subst x' rs'.
    cbn [recs_len] in Hsz, Hhi.
    set (pre' := pre ++ rec_bytes (N.of_nat (length pre)) x).
    assert (Hlp : length pre' = (length pre + rec_len x)%nat).
    { subst pre'. rewrite app_length, rec_bytes_length. reflexivity. }
    assert (Hrl := wf_rec_len K x Hx).
    destruct fuel as [|f]; [lia|]. cbn [tool_recover_loop recs_bytes ncomplete].
    rewrite firstn_length, !app_length, rec_bytes_length, recs_bytes_length.
    replace (Nat.min n (length pre + (rec_len x + recs_len rs))) with n by lia.
    destruct (N.ltb_spec (N.of_nat (length pre)) (N.of_nat n)) as [Hlt|Hge].
    2:{ destruct (Nat.leb_spec (length pre + rec_len x) n) as [C|_]; [lia|]. cbn [firstn recs_bytes].
        rewrite app_nil_r. reflexivity. }
    rewrite (tool_read_spec K) by (assumption || lia).
    destruct (Nat.leb_spec (length pre + rec_len x) n) as [Hc|Hc].
    + rewrite <- Hlp. rewrite (app_assoc pre). fold pre'.
      rewrite (IH pre' _ f n Hrs Hmrs) by lia. rewrite Hlp. cbn [firstn recs_bytes].
      unfold rec_out. fold (rec_bytes (N.of_nat (length pre)) x). rewrite <- app_assoc. reflexivity.
    + cbn [firstn recs_bytes skip_pos]. rewrite app_nil_r. destruct skip; reflexivity.
Qed.

Lemma blob_magic_app rest : u64_at (blob_header_bytes ++ rest) 0 = BLOB_MAGIC_BYTE.
Proof.
  let x := eval vm_compute in blob_header_bytes in change blob_header_bytes with x.
  reflexivity.
Qed.

Lemma firstn_blob rs n : (20 <= n)%nat ->
  firstn n (blob_bytes rs) = blob_header_bytes ++ firstn (n - 20) (recs_bytes 20 rs).
Proof.
  intros H. rewrite blob_bytes_eq, firstn_app, blob_header_length.
  rewrite firstn_all2 by (rewrite blob_header_length; exact H). reflexivity.
Qed.

(* the validator accepts a byte-prefix of a well-formed blob exactly when the cut is at a record boundary *)
Theorem tool_validate_prefix : forall K rs n, wf_recs K rs -> metas_ok rs -> (n <= length (blob_bytes rs))%nat ->
  (tool_validate_blob meta_ok (firstn n (blob_bytes rs)) = true
   <-> exists j, (j <= length rs)%nat /\ n = boundary rs j).
Proof.
  intros K rs n (HK & Hwf & Hsz) Hmo Hn. rewrite blob_bytes_length in Hsz, Hn.
  assert (Hlb : length (firstn n (blob_bytes rs)) = n) by (rewrite firstn_length, blob_bytes_length; lia).
  unfold tool_validate_blob. rewrite Hlb.
  destruct (Nat.ltb_spec n 20) as [H20|H20].
  { split; [discriminate|]. intros (j & _ & E). rewrite boundary_eq in E. lia. }
  rewrite firstn_blob at 1 by exact H20. rewrite blob_magic_app, N.eqb_refl. cbn [negb].
  rewrite blob_bytes_eq.
  pose proof (tool_validate_loop_spec K HK rs blob_header_bytes (S n) n Hwf Hmo) as Hs.
  rewrite blob_header_length in Hs. change (N.of_nat 20) with 20 in Hs.
  rewrite Hs by lia. split; intros (j & Hj & E); exists j; (split; [exact Hj|]); rewrite boundary_eq in *; exact E.
Qed.

Corollary tool_validate_complete : forall K rs, wf_recs K rs -> metas_ok rs ->
  tool_validate_blob meta_ok (blob_bytes rs) = true.
Proof.
  intros K rs Hwf Hmo. rewrite <- (firstn_all (blob_bytes rs)).
  apply (tool_validate_prefix K rs _ Hwf Hmo (Nat.le_refl _)).
  exists (length rs). split; [lia|]. symmetry. apply boundary_last.
Qed.

(* recovery of a byte-prefix returns exactly the complete records (for skip_wrong on or off) *)
Theorem tool_recover_prefix : forall K rs n skip, wf_recs K rs -> metas_ok rs ->
  (20 <= n)%nat -> (n <= length (blob_bytes rs))%nat ->
  let j := ncomplete 20 rs n in
  tool_recover meta_ok (firstn n (blob_bytes rs)) skip = Some (blob_bytes (firstn j rs)) /\
  (j <= length rs)%nat /\ (boundary rs j <= n)%nat /\ ((j < length rs)%nat -> (n < boundary rs (S j))%nat).
Proof.
  intros K rs n skip (HK & Hwf & Hsz) Hmo H20 Hn j. rewrite blob_bytes_length in Hsz, Hn.
  assert (Hlb : length (firstn n (blob_bytes rs)) = n) by (rewrite firstn_length, blob_bytes_length; lia).
  split.
  - unfold tool_recover. rewrite Hlb.
    destruct (Nat.ltb_spec n 20) as [C|_]; [lia|].
    rewrite firstn_blob at 1 by exact H20. rewrite blob_magic_app, N.eqb_refl. cbn [negb].
    f_equal.
    assert (E20 : firstn 20 (firstn n (blob_bytes rs)) = blob_header_bytes).
    { rewrite firstn_blob by exact H20. apply firstn_app_len, blob_header_length. }
    rewrite E20, !blob_bytes_eq.
    pose proof (tool_recover_loop_spec K HK skip rs blob_header_bytes blob_header_bytes (S n) n Hwf Hmo) as Hs.
    rewrite blob_header_length in Hs. change (N.of_nat 20) with 20 in Hs.
    rewrite Hs by lia. reflexivity.
  - pose proof (ncomplete_spec rs 20 n H20) as Hc. cbv zeta in Hc. fold j in Hc.
    rewrite !boundary_eq. exact Hc.
Qed.

End ToolsProofs.

(* ------------------------------------------------------------------------------------------------ *)
(* F7: recovery with skip_wrong re-emits the records after a skipped one with their OLD blob_offset  *)
(* ------------------------------------------------------------------------------------------------ *)

Definition all_ok (_ : bytes) : bool := true.
Definition f7_r1 : rec := ([1;2;3;4], 1, [], [10;20;30]).
Definition f7_r2 : rec := ([5;6;7;8], 2, [], [40;50;60]).
Definition f7_r3 : rec := ([9;10;11;12], 3, [], [70;80;90]).
Definition f7_recs : list rec := [f7_r1; f7_r2; f7_r3].
(* the last data byte of record 2 has one bit flipped *)
Definition f7_bad : bytes := updN (blob_bytes f7_recs) (boundary f7_recs 2 - 1) (fun b => N.lxor b 1).
Definition f7_h1 : header := nth 0 (blob_hdrs f7_recs) (new_header [] 0 [] []).
Definition f7_h3 : header := nth 2 (blob_hdrs f7_recs) (new_header [] 0 [] []).
(* what the tool writes: header, record 1, and record 3 byte-for-byte as it was at its old position *)
Definition f7_out : bytes :=
  blob_header_bytes ++ rec_bytes 20 f7_r1 ++ rec_bytes (N.of_nat (boundary f7_recs 2)) f7_r3.

(* without skip_wrong the tool stops at the bad record: only record 1 survives *)
Example f7_no_skip : tool_recover all_ok f7_bad false = Some (blob_bytes [f7_r1]).
Proof. vm_compute. reflexivity. Qed.

(* with skip_wrong: record 3 now sits at offset 84 (= boundary 1) but its header still says 148
   (= boundary 2); the output passes the validator and a validating scan, which hands that header to the
   index -- and reading record 3 through it fails (here: beyond end of file) *)
Example f7_recover_keeps_old_offset :
  tool_recover all_ok f7_bad true = Some f7_out /\
  length f7_out = 148%nat /\
  slice f7_out 84 61 = Some (encode_header f7_h3) /\          (* the header of record 3 is at 84 *)
  h_off f7_h3 = 148 /\                                         (* but claims 148 *)
  tool_validate_blob all_ok f7_out = true /\
  blob_open_scan f7_out 4 true = ROk [f7_h1; f7_h3] /\
  entry_load f7_out f7_h3 = RFail EBincode /\
  entry_load (blob_bytes f7_recs) f7_h3 = ROk ([], [70;80;90]).  (* in the original it was readable *)
Proof. vm_compute. repeat split; reflexivity. Qed.

Print Assumptions tool_validate_prefix.
Print Assumptions tool_validate_complete.
Print Assumptions tool_recover_prefix.
Print Assumptions f7_no_skip.
Print Assumptions f7_recover_keeps_old_offset.
