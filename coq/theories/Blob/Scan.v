(* L2: opening a blob file byte-wise (Blob::from_file header check, RawRecords::start / load) and the
   offline tools' sequential reader, validator and recovery (src/tools/blob_reader.rs, validation.rs,
   utils.rs). Errors are the classes that decide quarantine in Storage::read_blobs. *)
Require Import Pearl.Base.Prelude Pearl.Base.LE Pearl.Base.Crc Pearl.Generated.Consts Pearl.Format.Record.

Definition u64_at (b : bytes) (o : nat) : N := le_val (firstn 8 (skipn o b)).
Definition u32_at (b : bytes) (o : nat) : N := le_val (firstn 4 (skipn o b)).

(* Header::from_file: 20 bytes, magic, version *)
Definition blob_header_check (b : bytes) : option rerr :=
  if (length b <? 20)%nat then Some EBincode
  else if negb (u64_at b 0 =? BLOB_MAGIC_BYTE) then Some EBlobMagic
  else if negb (u32_at b 8 =? BLOB_VERSION) then Some EBlobVersion else None.

(* RawRecords::start: 16 bytes at offset 20: magic of the first record, key length *)
Definition scan_start (b : bytes) (K : N) : option rerr :=
  if (length b <? 36)%nat then Some EBincode
  else if negb (u64_at b 20 =? RECORD_MAGIC_BYTE) then Some EMagic
  else if negb (u64_at b 28 =? K) then Some EKeySize else None.

(* RawRecords::load / read_current_record. `size` is the file length. After a header is accepted the cursor is
   advanced by meta_size; the record must then end inside the file (check added by commit 865f94b of the code;
   before it a record cut by the end of the file was accepted whenever its data was not read back: finding F6). *)
Fixpoint scan_loop (fuel : nat) (b : bytes) (K : N) (validate : bool) (cur : N) (acc : list header) : res (list header) :=
  match fuel with
  | O => RFail EBincode
  | S f =>
    if cur <? N.of_nat (length b) then
      match slice b cur (57 + K) with
      | None => RFail EBincode
      | Some hb =>
        match decode_header hb with
        | None => RFail EBincode
        | Some h =>
          match validate_header h with
          | Some e => RFail e
          | None =>
            let cur1 := cur + (57 + K) + h_msize h in
            if N.of_nat (length b) <? cur1 + h_dsize h then RFail EBincode else
            if validate then
              match slice b cur1 (h_dsize h) with
              | None => RFail EBincode
              | Some d => if crc32c d =? h_dcrc h then scan_loop f b K validate (cur1 + h_dsize h) (acc ++ [h])
                          else RFail EDataCrc
              end
            else scan_loop f b K validate (cur1 + h_dsize h) (acc ++ [h])
          end
        end
      end
    else ROk acc
  end.

(* Blob::from_file without an index file: header check; regenerate iff size > 20 *)
Definition blob_open_scan (b : bytes) (K : N) (validate : bool) : res (list header) :=
  match blob_header_check b with
  | Some e => RFail e
  | None =>
    if (20 <? length b)%nat then
      match scan_start b K with
      | Some e => RFail e
      | None => scan_loop (S (length b)) b K validate 20 []
      end
    else ROk []
  end.

(* Storage::read_blobs: what happens to a blob whose open failed *)
Inductive disposition := DServed | DQuarantined | DInitFails.
Definition dispose (r : res (list header)) : disposition :=
  match r with
  | ROk _ => DServed
  | RFail EBlobVersion => DInitFails
  | RFail _ => DQuarantined       (* Bincode, or Validation other than BlobVersion *)
  end.

(* ---------- offline tools ---------- *)
Section Tools.
Variable meta_ok : bytes -> bool.   (* the metadata bytes decode as a bincode map *)

Inductive terr := TIo | THeaderValidation (h : header) | TRecordValidation | TMeta.

(* BlobReader::read_single_record at position pos: (record header, meta, data, new position) *)
Definition tool_read (b : bytes) (pos : N) : (header * bytes * bytes * N) + terr :=
  (* the key length is read from the stream *)
  match slice b pos 16 with
  | None => inr TIo
  | Some pre =>
    let klen := le_val (firstn 8 (skipn 8 pre)) in
    match slice b pos (57 + klen) with
    | None => inr TIo
    | Some hb =>
      match decode_header hb with
      | None => inr TIo
      | Some h =>
        match validate_header h with
        | Some _ => inr (THeaderValidation h)
        | None =>
          let p1 := pos + 57 + klen in
          match slice b p1 (h_msize h) with
          | None => inr TIo
          | Some m =>
            if negb (meta_ok m) then
              (* the header is valid, its sizes are trusted: the data is read as well, which leaves the reader behind
                 the record, and the failure is reported as a record validation error, so that recovery with
                 skipping steps over it (code commit "recovery steps over a record whose metadata does not decode";
                 before it the bincode error ended the recovery: finding F23) *)
              match slice b (p1 + h_msize h) (h_dsize h) with None => inr TIo | Some _ => inr TRecordValidation end
            else
            match slice b (p1 + h_msize h) (h_dsize h) with
            | None => inr TIo
            | Some d => if crc32c d =? h_dcrc h then inl (h, m, d, p1 + h_msize h + h_dsize h)
                        else inr TRecordValidation
            end
          end
        end
      end
    end
  end.

(* validate_blob: header (magic only), then records until EOF *)
Fixpoint tool_validate_loop (fuel : nat) (b : bytes) (pos : N) : bool :=
  match fuel with
  | O => false
  | S f => if pos <? N.of_nat (length b) then
             match tool_read b pos with inl (_, _, _, p') => tool_validate_loop f b p' | inr _ => false end
           else true
  end.
Definition tool_validate_blob (b : bytes) : bool :=
  if (length b <? 20)%nat then false
  else if negb (u64_at b 0 =? BLOB_MAGIC_BYTE) then false
  else tool_validate_loop (S (length b)) b 20.

(* recovery_blob: copy records until the first unreadable one; with skip_wrong, one bad record may be
   stepped over (by its own sizes when only its header checksum/magic is wrong, or directly when only its
   data checksum is wrong). The writer re-serialises header, meta, data; BlobWriter::write_record stamps the
   position in the OUTPUT file into the header and refreshes the header checksum when it differs (commit 34bfd5d of
   the code; before it the header was copied unchanged and records behind a skipped one kept stale offsets: F7). *)
Definition stamp (h : header) (off : N) : header :=
  if h_off h =? off then h else let h1 := with_off h off in with_hcrc h1 (header_crc h1).
Definition rec_out (out : bytes) (h : header) (m d : bytes) : bytes :=
  encode_header (stamp h (N.of_nat (length out))) ++ m ++ d.

(* position reached after a failed read when the tool may step over the record; None = give up *)
Definition skip_pos (b : bytes) (pos : N) (e : terr) : option N :=
  match e with
  | TRecordValidation =>
    (* the stream is already past the record *)
    match slice b pos 16 with
    | Some pre => let klen := le_val (firstn 8 (skipn 8 pre)) in
                  match slice b pos (57 + klen) with
                  | Some hb => match decode_header hb with
                               | Some h => Some (pos + 57 + klen + h_msize h + h_dsize h)
                               | None => None end
                  | None => None end
    | None => None end
  | THeaderValidation h =>
    let p := pos + 57 + N.of_nat (length (h_key h)) + h_dsize h + h_msize h in
    if N.of_nat (length b) <=? p then None else Some p
  | _ => None
  end.

Fixpoint tool_recover_loop (fuel : nat) (b : bytes) (skip : bool) (pos : N) (out : bytes) : bytes :=
  match fuel with
  | O => out
  | S f =>
    if pos <? N.of_nat (length b) then
      match tool_read b pos with
      | inl (h, m, d, p') => tool_recover_loop f b skip p' (out ++ rec_out out h m d)
      | inr e =>
        if skip then
          match skip_pos b pos e with
          | Some p1 =>
            match tool_read b p1 with
            | inl (h, m, d, p') => tool_recover_loop f b skip p' (out ++ rec_out out h m d)
            | inr _ => out
            end
          | None => out
          end
        else out
      end
    else out
  end.
Definition tool_recover (b : bytes) (skip : bool) : option bytes :=
  if (length b <? 20)%nat then None
  else if negb (u64_at b 0 =? BLOB_MAGIC_BYTE) then None
  else Some (tool_recover_loop (S (length b)) b skip 20 (firstn 20 b)).
End Tools.
