(* Crash recovery at byte level: scanning ANY byte-prefix of a well-formed blob file (Blob/Scan.v).

   The blob is an abstract list of records (key, timestamp, meta, data) laid out by [write_record]
   after the 20-byte blob header; no storage model is involved.

   Main result: [scan_prefix_exact] gives, for EVERY cut length n and both validation modes, the exact
   result of [blob_open_scan]:
     n < 20                                          -> RFail EBincode
     n = boundary j                                  -> ROk (first j headers)
     boundary j < n < boundary (j+1)                 -> RFail EBincode   (cut anywhere inside a record:
                                                        header, metadata or data)
   [scan_complete], [scan_prefix_cases], [scan_prefix_disposition], [scan_prefix_served_iff_boundary] follow.

   The scan checks that a record whose header was accepted ends inside the file (commit 865f94b of the
   code).  Before it a record whose header was complete but whose body was cut was ACCEPTED whenever its
   data was not read back (validation off, or empty data): finding F6.

   Differences from the first formulation of the statements:
   - wf_recs additionally requires the whole file to be shorter than 2^64 bytes (otherwise a blob_offset
     does not fit its field and the decoded header differs from the written one).
   - scan_complete needs no [rs <> []].
   - the error disjuncts also state that n is not a boundary; the error is always EBincode. *)
Require Import Pearl.Base.Prelude Pearl.Base.LE Pearl.Base.LEProofs Pearl.Base.Crc Pearl.Base.CrcProofs
               Pearl.Generated.Consts Pearl.Format.Record Pearl.Format.RecordProofs Pearl.Blob.Scan.

(* ------------------------------------------------------------------------------------------------ *)
(* crc32c fits 32 bits                                                                              *)
(* ------------------------------------------------------------------------------------------------ *)

Lemma lxor_lt32 a b : a < 2^32 -> b < 2^32 -> N.lxor a b < 2^32.
Proof.
  intros Ha Hb. apply lt_pow2_testbit. intros m Hm. rewrite N.lxor_spec.
  rewrite (proj1 (lt_pow2_testbit a 32) Ha m Hm), (proj1 (lt_pow2_testbit b 32) Hb m Hm). reflexivity.
Qed.

Lemma feed_lt s c : s < 2^32 -> feed s c < 2^32.
Proof. intros H. unfold feed. apply Zs_lt, lxor_lt32; [exact H|]. destruct c; reflexivity. Qed.

Lemma fold_left_inv {A B} (f : A -> B -> A) (Q : A -> Prop) :
  (forall a b, Q a -> Q (f a b)) -> forall l a, Q a -> Q (fold_left f l a).
Proof. intros Hf. induction l as [|x l IH]; intros a Ha; [exact Ha|]. apply (IH (f a x)), Hf, Ha. Qed.

Lemma crc_byte_lt s b : s < 2^32 -> crc_byte s b < 2^32.
Proof. unfold crc_byte. apply (fold_left_inv feed (fun s => s < 2^32)). intros a c. apply feed_lt. Qed.

Lemma fold_crc_byte_lt l s : s < 2^32 -> fold_left crc_byte l s < 2^32.
Proof. apply (fold_left_inv crc_byte (fun s => s < 2^32)). intros a c. apply crc_byte_lt. Qed.

Lemma crc32c_lt bs : crc32c bs < 2^32.
Proof. unfold crc32c. apply lxor_lt32; [apply fold_crc_byte_lt|]; reflexivity. Qed.

(* ------------------------------------------------------------------------------------------------ *)
(* slices of truncated files                                                                        *)
(* ------------------------------------------------------------------------------------------------ *)

Lemma slice_zero b off : slice b off 0 = Some [].
Proof. reflexivity. Qed.

Lemma slice_firstn_lt b n off len :
  len <> 0 -> N.of_nat n < off + len -> slice (firstn n b) off len = None.
Proof.
  intros Hz H. unfold slice. destruct (N.eqb_spec len 0) as [|_]; [contradiction|].
  rewrite firstn_length.
  destruct (N.leb_spec (off + len) (N.of_nat (Nat.min n (length b)))) as [Hle|_]; [lia|reflexivity].
Qed.

Lemma slice_short b off len :
  len <> 0 -> N.of_nat (length b) < off + len -> slice b off len = None.
Proof.
  intros Hz H. unfold slice. destruct (N.eqb_spec len 0) as [|_]; [contradiction|].
  destruct (N.leb_spec (off + len) (N.of_nat (length b))) as [Hle|_]; [lia|reflexivity].
Qed.

Lemma firstn_skipn_firstn {A} (b : list A) n o k :
  (o + k <= n)%nat -> firstn k (skipn o (firstn n b)) = firstn k (skipn o b).
Proof.
  intros H. rewrite skipn_firstn_comm, firstn_firstn.
  replace (Nat.min k (n - o)) with k by lia. reflexivity.
Qed.

Lemma slice_firstn_ge b n off len :
  off + len <= N.of_nat n -> slice (firstn n b) off len = slice b off len.
Proof.
  intros H. unfold slice. destruct (len =? 0); [reflexivity|].
  rewrite firstn_length.
  destruct (N.leb_spec (off + len) (N.of_nat (length b))) as [Hb|Hb].
  - destruct (N.leb_spec (off + len) (N.of_nat (Nat.min n (length b)))) as [_|C]; [|lia].
    f_equal. apply firstn_skipn_firstn. lia.
  - destruct (N.leb_spec (off + len) (N.of_nat (Nat.min n (length b)))) as [C|_]; [lia|reflexivity].
Qed.

Lemma slice_at pre X suf off len :
  off = N.of_nat (length pre) -> len = N.of_nat (length X) -> slice (pre ++ X ++ suf) off len = Some X.
Proof. intros -> ->. apply (slice_mid pre [] X suf); cbn [length]; lia. Qed.

Lemma u64_at_firstn b n o : (o + 8 <= n)%nat -> u64_at (firstn n b) o = u64_at b o.
Proof. intros H. unfold u64_at. rewrite firstn_skipn_firstn by exact H. reflexivity. Qed.

(* ------------------------------------------------------------------------------------------------ *)
(* well-formed blobs                                                                                *)
(* ------------------------------------------------------------------------------------------------ *)

Definition rec := (bytes * N * bytes * bytes)%type.   (* key, timestamp, meta, data *)

Fixpoint blob_of (rs : list rec) (acc : bytes) : bytes * list header :=
  match rs with
  | [] => (acc, [])
  | (key, ts, meta, data) :: r =>
    let '(b, h') := write_record (new_header key ts meta data) meta data (N.of_nat (length acc)) in
    let '(bytes, hs) := blob_of r (acc ++ b) in (bytes, h' :: hs)
  end.
Definition blob_bytes rs := fst (blob_of rs blob_header_bytes).
Definition blob_hdrs rs := snd (blob_of rs blob_header_bytes).
Definition boundary rs j := length (blob_bytes (firstn j rs)).   (* end offset of record j *)

Definition rkey (x : rec) : bytes := fst (fst (fst x)).
Definition rts (x : rec) : N := snd (fst (fst x)).
Definition rmeta (x : rec) : bytes := snd (fst x).
Definition rdata (x : rec) : bytes := snd x.

Definition wf_rec (K : N) (x : rec) : Prop :=
  N.of_nat (length (rkey x)) = K /\ rts x < 2^64 /\
  N.of_nat (length (rmeta x)) < 2^64 /\ N.of_nat (length (rdata x)) < 2^64.

(* every key has length K, every field fits its width, and the whole file is shorter than 2^64 bytes
   (so that every blob_offset fits its field) *)
Definition wf_recs (K : N) (rs : list rec) : Prop :=
  K < 2^64 /\ Forall (wf_rec K) rs /\ N.of_nat (length (blob_bytes rs)) < 2^64.

(* explicit layout *)
Definition hdr_of (off : N) (x : rec) : header :=
  with_hcrc (with_off (new_header (rkey x) (rts x) (rmeta x) (rdata x)) off)
            (header_crc (with_off (new_header (rkey x) (rts x) (rmeta x) (rdata x)) off)).
Definition rec_bytes (off : N) (x : rec) : bytes := encode_header (hdr_of off x) ++ rmeta x ++ rdata x.
Definition rec_len (x : rec) : nat := (57 + length (rkey x) + length (rmeta x) + length (rdata x))%nat.

Fixpoint recs_bytes (off : nat) (rs : list rec) : bytes :=
  match rs with [] => [] | x :: r => rec_bytes (N.of_nat off) x ++ recs_bytes (off + rec_len x) r end.
Fixpoint recs_hdrs (off : nat) (rs : list rec) : list header :=
  match rs with [] => [] | x :: r => hdr_of (N.of_nat off) x :: recs_hdrs (off + rec_len x) r end.
Fixpoint recs_len (rs : list rec) : nat :=
  match rs with [] => 0%nat | x :: r => (rec_len x + recs_len r)%nat end.

Lemma hdr_key off x : h_key (hdr_of off x) = rkey x. Proof. reflexivity. Qed.
Lemma hdr_msize off x : h_msize (hdr_of off x) = N.of_nat (length (rmeta x)). Proof. reflexivity. Qed.
Lemma hdr_dsize off x : h_dsize (hdr_of off x) = N.of_nat (length (rdata x)). Proof. reflexivity. Qed.
Lemma hdr_dcrc off x : h_dcrc (hdr_of off x) = crc32c (rdata x). Proof. reflexivity. Qed.
Lemma hdr_off off x : h_off (hdr_of off x) = off. Proof. reflexivity. Qed.

Lemma enc_hdr_length off x : length (encode_header (hdr_of off x)) = (57 + length (rkey x))%nat.
Proof. rewrite encode_header_length, hdr_key. reflexivity. Qed.

Lemma rec_bytes_length off x : length (rec_bytes off x) = rec_len x.
Proof. unfold rec_bytes, rec_len. rewrite !app_length, enc_hdr_length. lia. Qed.

Lemma recs_bytes_length rs : forall off, length (recs_bytes off rs) = recs_len rs.
Proof.
  induction rs as [|x r IH]; intros off; cbn [recs_bytes recs_len length]; [reflexivity|].
  rewrite app_length, rec_bytes_length, IH. reflexivity.
Qed.

Lemma blob_of_eq rs : forall acc,
  blob_of rs acc = (acc ++ recs_bytes (length acc) rs, recs_hdrs (length acc) rs).
Proof.
  induction rs as [|x r IH]; intros acc.
  - cbn [blob_of recs_bytes recs_hdrs]. rewrite app_nil_r. reflexivity.
  - destruct x as [[[key ts] meta] data]. cbn [blob_of]. rewrite write_record_eq.
    cbv beta iota. rewrite IH. cbn [recs_bytes recs_hdrs].
    set (x := (key, ts, meta, data)).
    change (((acc ++ rec_bytes (N.of_nat (length acc)) x)
             ++ recs_bytes (length (acc ++ rec_bytes (N.of_nat (length acc)) x)) r,
             hdr_of (N.of_nat (length acc)) x
             :: recs_hdrs (length (acc ++ rec_bytes (N.of_nat (length acc)) x)) r)
            = (acc ++ rec_bytes (N.of_nat (length acc)) x ++ recs_bytes (length acc + rec_len x) r,
               hdr_of (N.of_nat (length acc)) x :: recs_hdrs (length acc + rec_len x) r)).
    rewrite app_length, rec_bytes_length, <- app_assoc. reflexivity.
Qed.


Lemma blob_header_length : length blob_header_bytes = 20%nat. Proof. reflexivity. Qed.

Lemma blob_bytes_eq rs : blob_bytes rs = blob_header_bytes ++ recs_bytes 20 rs.
Proof. unfold blob_bytes. rewrite blob_of_eq, blob_header_length. reflexivity. Qed.

Lemma blob_hdrs_eq rs : blob_hdrs rs = recs_hdrs 20 rs.
Proof. unfold blob_hdrs. rewrite blob_of_eq, blob_header_length. reflexivity. Qed.

Lemma blob_bytes_length rs : length (blob_bytes rs) = (20 + recs_len rs)%nat.
Proof. rewrite blob_bytes_eq, app_length, blob_header_length, recs_bytes_length. reflexivity. Qed.

Lemma boundary_eq rs j : boundary rs j = (20 + recs_len (firstn j rs))%nat.
Proof. unfold boundary. apply blob_bytes_length. Qed.

Lemma recs_hdrs_firstn rs : forall off j, recs_hdrs off (firstn j rs) = firstn j (recs_hdrs off rs).
Proof.
  induction rs as [|x r IH]; intros off [|j]; cbn [firstn recs_hdrs]; try reflexivity.
  rewrite IH. reflexivity.
Qed.

Lemma recs_hdrs_length rs : forall off, length (recs_hdrs off rs) = length rs.
Proof. induction rs as [|x r IH]; intros off; cbn [recs_hdrs length]; [reflexivity|]. rewrite IH. reflexivity. Qed.

(* the written headers are well-formed and valid *)
Lemma hdr_of_wf K off x : K < 2^64 -> wf_rec K x -> off < 2^64 -> wf_header (hdr_of off x).
Proof.
  intros HK (Hk & Hts & Hms & Hds) Hoff. unfold wf_header, hdr_of.
  cbn [h_magic h_key h_msize h_dsize h_flags h_off h_ts h_dcrc h_hcrc with_hcrc with_off new_header].
  split; [reflexivity|]. split; [rewrite Hk; exact HK|]. split; [exact Hms|]. split; [exact Hds|].
  split; [reflexivity|]. split; [exact Hoff|]. split; [exact Hts|]. split; [apply crc32c_lt|].
  unfold header_crc. apply crc32c_lt.
Qed.

Lemma hdr_of_valid off x : validate_header (hdr_of off x) = None.
Proof.
  unfold validate_header, hdr_of. rewrite header_crc_with_hcrc.
  cbn [h_magic h_hcrc with_hcrc with_off new_header]. rewrite !N.eqb_refl. reflexivity.
Qed.

(* ------------------------------------------------------------------------------------------------ *)
(* the scan loop on a truncated file                                                                *)
(* ------------------------------------------------------------------------------------------------ *)

(* the exact outcome of the loop started at the end of [pre] with [rs] still to come, on a file cut at [n]:
   the headers of the complete records when the cut is at a record boundary, EBincode when it is strictly
   inside a record *)
Definition scan_spec (pre : nat) (rs : list rec) (acc : list header) (n : nat)
           (r : res (list header)) : Prop :=
  (exists j, (j <= length rs)%nat /\ n = (pre + recs_len (firstn j rs))%nat /\
             r = ROk (acc ++ recs_hdrs pre (firstn j rs)))
  \/ (exists j, (j < length rs)%nat /\
        (pre + recs_len (firstn j rs) < n)%nat /\ (n < pre + recs_len (firstn (S j) rs))%nat /\
        r = RFail EBincode).

Lemma scan_spec_cons pre x rs acc n r :
  scan_spec (pre + rec_len x) rs (acc ++ [hdr_of (N.of_nat pre) x]) n r ->
  scan_spec pre (x :: rs) acc n r.
Proof.
  intros [(j & Hj & Hn & Hr) | (j & Hj & Hn1 & Hn2 & Hr)].
  - left. exists (S j). cbn [length firstn recs_len recs_hdrs]. split; [lia|]. split; [lia|].
    rewrite Hr, <- app_assoc. reflexivity.
  - right. exists (S j). cbn [length firstn recs_len] in *. split; [lia|]. split; [lia|]. split; [lia|exact Hr].
Qed.

Lemma scan_loop_stop fuel b K v cur acc :
  (0 < fuel)%nat -> N.of_nat (length b) <= cur -> scan_loop fuel b K v cur acc = ROk acc.
Proof.
  intros Hf H. destruct fuel as [|f]; [lia|]. cbn [scan_loop].
  destruct (N.ltb_spec cur (N.of_nat (length b))) as [C|_]; [lia|reflexivity].
Qed.

Lemma scan_loop_spec K v (HK : K < 2^64) : forall rs pre acc fuel n,
  Forall (wf_rec K) rs -> N.of_nat (length pre + recs_len rs) < 2^64 ->
  (length pre <= n)%nat -> (n <= length pre + recs_len rs)%nat ->
  (0 < fuel)%nat -> (n < fuel + length pre)%nat ->
  scan_spec (length pre) rs acc n
    (scan_loop fuel (firstn n (pre ++ recs_bytes (length pre) rs)) K v (N.of_nat (length pre)) acc).
Proof.
  induction rs as [|x rs IH]; intros pre acc fuel n Hwf Hsz Hlo Hhi Hf Hfuel.
  - cbn [recs_len] in Hhi. left. exists 0%nat. cbn [firstn recs_len recs_hdrs length].
    split; [lia|]. split; [lia|]. rewrite (app_nil_r acc). apply scan_loop_stop; [exact Hf|].
    rewrite firstn_length. lia.
  - inversion Hwf as [|x' rs' Hx Hrs]; subst x' rs'. pose proof Hx as (Hk & Hts & Hms & Hds).
    cbn [recs_len] in Hsz, Hhi.
    set (h' := hdr_of (N.of_nat (length pre)) x).
    set (pre' := pre ++ rec_bytes (N.of_nat (length pre)) x).
    assert (Hlp : length pre' = (length pre + rec_len x)%nat).
    { subst pre'. rewrite app_length, rec_bytes_length. reflexivity. }
    set (B := pre ++ recs_bytes (length pre) (x :: rs)).
    assert (HB1 : B = pre ++ encode_header h' ++ (rmeta x ++ rdata x ++ recs_bytes (length pre + rec_len x) rs)).
    { subst B h'. cbn [recs_bytes]. unfold rec_bytes. rewrite <- !app_assoc. reflexivity. }
    assert (HB2 : B = (pre ++ encode_header h' ++ rmeta x) ++ rdata x ++ recs_bytes (length pre + rec_len x) rs).
    { rewrite HB1, <- !app_assoc. reflexivity. }
    assert (HB3 : B = pre' ++ recs_bytes (length pre') rs).
    { subst B pre'. cbn [recs_bytes]. rewrite app_length, rec_bytes_length, <- app_assoc. reflexivity. }
    assert (HlB : length B = (length pre + rec_len x + recs_len rs)%nat).
    { rewrite HB3, app_length, recs_bytes_length, Hlp. reflexivity. }
    assert (Hlb : length (firstn n B) = n) by (rewrite firstn_length; lia).
    assert (Hrl : rec_len x = (57 + N.to_nat K + length (rmeta x) + length (rdata x))%nat).
    { unfold rec_len. lia. }
    destruct (Nat.eq_dec n (length pre)) as [Hn|Hn].
    { left. exists 0%nat. cbn [firstn recs_len recs_hdrs length]. split; [lia|]. split; [lia|].
      rewrite (app_nil_r acc). apply scan_loop_stop; [exact Hf|]. rewrite Hlb. lia. }
    destruct fuel as [|f]; [lia|]. cbn [scan_loop]. rewrite Hlb.
    destruct (N.ltb_spec (N.of_nat (length pre)) (N.of_nat n)) as [_|C]; [|lia].
    destruct (Nat.lt_ge_cases n (length pre + 57 + N.to_nat K)) as [Hc|Hc].
    { rewrite slice_firstn_lt by lia. right. exists 0%nat.
      cbn [firstn recs_len length]. split; [lia|]. split; [lia|]. split; [lia|reflexivity]. }
    rewrite slice_firstn_ge by lia.
    assert (S1 : slice B (N.of_nat (length pre)) (57 + K) = Some (encode_header h')).
    { rewrite HB1. apply slice_at; [reflexivity|]. subst h'. rewrite enc_hdr_length. lia. }
    rewrite S1. rewrite decode_encode_header by (apply (hdr_of_wf K); [exact HK|exact Hx|lia]).
    subst h'. rewrite hdr_of_valid, hdr_msize, hdr_dsize, hdr_dcrc.
    set (h' := hdr_of (N.of_nat (length pre)) x).
    assert (Hcur : N.of_nat (length pre) + (57 + K) + N.of_nat (length (rmeta x)) + N.of_nat (length (rdata x))
                   = N.of_nat (length pre')) by lia.
    rewrite Hcur.
    destruct (Nat.lt_ge_cases n (length pre + rec_len x)) as [Ht|Ht].
    + (* torn record: it does not end inside the file *)
      destruct (N.ltb_spec (N.of_nat n) (N.of_nat (length pre'))) as [_|C]; [|lia].
      right. exists 0%nat. cbn [firstn recs_len length].
      split; [lia|]. split; [lia|]. split; [lia|reflexivity].
    + (* complete record *)
      destruct (N.ltb_spec (N.of_nat n) (N.of_nat (length pre'))) as [C|_]; [lia|].
      apply scan_spec_cons. fold h'. rewrite <- Hlp.
      assert (Estep : (if v
                       then match slice (firstn n B) (N.of_nat (length pre) + (57 + K) + N.of_nat (length (rmeta x)))
                                        (N.of_nat (length (rdata x))) with
                            | Some d => if crc32c d =? crc32c (rdata x)
                                        then scan_loop f (firstn n B) K v (N.of_nat (length pre')) (acc ++ [h'])
                                        else RFail EDataCrc
                            | None => RFail EBincode
                            end
                       else scan_loop f (firstn n B) K v (N.of_nat (length pre')) (acc ++ [h']))
                      = scan_loop f (firstn n B) K v (N.of_nat (length pre')) (acc ++ [h'])).
      { destruct v; [|reflexivity]. rewrite slice_firstn_ge by lia.
        rewrite HB2 at 1. rewrite slice_at; [rewrite N.eqb_refl; reflexivity| |reflexivity].
        rewrite !app_length. subst h'. rewrite enc_hdr_length. lia. }
      rewrite Estep. rewrite HB3.
      apply IH; [exact Hrs|lia|lia|lia|lia|lia].
Qed.

(* ------------------------------------------------------------------------------------------------ *)
(* record boundaries                                                                                *)
(* ------------------------------------------------------------------------------------------------ *)

Lemma recs_len_firstn_mono rs : forall i j, (i <= j)%nat -> (recs_len (firstn i rs) <= recs_len (firstn j rs))%nat.
Proof.
  induction rs as [|x r IH]; intros i j Hij.
  - rewrite !firstn_nil. lia.
  - destruct i as [|i]; [cbn [firstn recs_len]; lia|]. destruct j as [|j]; [lia|].
    cbn [firstn recs_len]. specialize (IH i j ltac:(lia)). lia.
Qed.

Lemma recs_len_firstn_le rs j : (recs_len (firstn j rs) <= recs_len rs)%nat.
Proof.
  destruct (Nat.le_gt_cases (length rs) j) as [H|H].
  - rewrite firstn_all2 by exact H. lia.
  - rewrite <- (firstn_all rs) at 2. apply recs_len_firstn_mono. lia.
Qed.

Lemma recs_len_firstn_S rs : forall j x,
  nth_error rs j = Some x -> recs_len (firstn (S j) rs) = (recs_len (firstn j rs) + rec_len x)%nat.
Proof.
  induction rs as [|y r IH]; intros [|j] x H; cbn [nth_error] in H; try discriminate.
  - injection H as ->. cbn [firstn recs_len]. lia.
  - cbn [firstn recs_len] in *. rewrite (IH j x H). cbn [firstn]. lia.
Qed.

Lemma wf_rec_len K x : wf_rec K x -> rec_len x = (57 + N.to_nat K + length (rmeta x) + length (rdata x))%nat.
Proof. intros (Hk & _). unfold rec_len. lia. Qed.

Lemma nth_error_wf K rs j x : Forall (wf_rec K) rs -> nth_error rs j = Some x -> wf_rec K x.
Proof. intros H E. apply nth_error_In in E. rewrite Forall_forall in H. apply H, E. Qed.

Lemma boundary_mono rs i j : (i <= j)%nat -> (boundary rs i <= boundary rs j)%nat.
Proof. intros H. rewrite !boundary_eq. pose proof (recs_len_firstn_mono rs i j H). lia. Qed.

Lemma boundary_0 rs : boundary rs 0 = 20%nat.
Proof. reflexivity. Qed.

Lemma boundary_last rs : boundary rs (length rs) = length (blob_bytes rs).
Proof. unfold boundary. rewrite firstn_all. reflexivity. Qed.

(* consecutive boundaries are at least a header apart *)
Lemma boundary_S K rs j x : Forall (wf_rec K) rs -> nth_error rs j = Some x ->
  boundary rs (S j) = (boundary rs j + 57 + N.to_nat K + length (rmeta x) + length (rdata x))%nat.
Proof.
  intros Hwf E. rewrite !boundary_eq, (recs_len_firstn_S rs j x E), (wf_rec_len K x (nth_error_wf K rs j x Hwf E)). lia.
Qed.

Lemma between_not_boundary rs j n :
  (boundary rs j < n)%nat -> (n < boundary rs (S j))%nat -> forall j', n <> boundary rs j'.
Proof.
  intros H1 H2 j' ->. destruct (Nat.le_gt_cases j' j) as [H|H].
  - pose proof (boundary_mono rs j' j H). lia.
  - pose proof (boundary_mono rs (S j) j' H). lia.
Qed.

(* ------------------------------------------------------------------------------------------------ *)
(* opening a truncated blob                                                                         *)
(* ------------------------------------------------------------------------------------------------ *)

Lemma blob_header_check_app rest : blob_header_check (blob_header_bytes ++ rest) = None.
Proof.
  let x := eval vm_compute in blob_header_bytes in change blob_header_bytes with x.
  reflexivity.
Qed.

Lemma enc_hdr_front off x : exists rest,
  encode_header (hdr_of off x) = le64 RECORD_MAGIC_BYTE ++ le64 (N.of_nat (length (rkey x))) ++ rest.
Proof. eexists. unfold encode_header. rewrite hdr_key. reflexivity. Qed.

Lemma scan_start_ok K off x suf n : K < 2^64 -> wf_rec K x -> (36 <= n)%nat ->
  (n <= length (blob_header_bytes ++ rec_bytes off x ++ suf))%nat ->
  scan_start (firstn n (blob_header_bytes ++ rec_bytes off x ++ suf)) K = None.
Proof.
  intros HK (Hk & _) Hn Hle. unfold scan_start.
  rewrite firstn_length. destruct (Nat.ltb_spec (Nat.min n (length (blob_header_bytes ++ rec_bytes off x ++ suf))) 36) as [C|_]; [lia|].
  rewrite !u64_at_firstn by lia.
  destruct (enc_hdr_front off x) as (rest & E). unfold rec_bytes. rewrite E, <- !app_assoc.
  unfold u64_at.
  rewrite (field_at blob_header_bytes (le64 RECORD_MAGIC_BYTE) _ 20 8 eq_refl (le64_length _)).
  rewrite le64_val by reflexivity. rewrite N.eqb_refl. cbn [negb].
  rewrite (app_assoc blob_header_bytes (le64 RECORD_MAGIC_BYTE)).
  rewrite (field_at (blob_header_bytes ++ le64 RECORD_MAGIC_BYTE) (le64 (N.of_nat (length (rkey x)))) _ 28 8)
    by (rewrite ?app_length, ?le64_length; reflexivity).
  rewrite le64_val by (rewrite Hk; exact HK). rewrite Hk, N.eqb_refl. reflexivity.
Qed.

(* MAIN: the exact outcome of opening the first n bytes of a well-formed blob, for every n and both
   validation modes: a cut strictly inside a record (header, metadata or data alike) is EBincode *)
Theorem scan_prefix_exact : forall K rs n v, wf_recs K rs -> (n <= length (blob_bytes rs))%nat ->
  let r := blob_open_scan (firstn n (blob_bytes rs)) K v in
  ((n < 20)%nat /\ r = RFail EBincode)
  \/ (exists j, (j <= length rs)%nat /\ n = boundary rs j /\ r = ROk (firstn j (blob_hdrs rs)))
  \/ (exists j, (j < length rs)%nat /\
        (boundary rs j < n)%nat /\ (n < boundary rs (S j))%nat /\ r = RFail EBincode).
Proof.
  intros K rs n v (HK & Hwf & Hsz) Hn r. subst r.
  rewrite blob_bytes_length in Hsz, Hn. rewrite blob_hdrs_eq.
  assert (Hb : forall j, boundary rs j = (20 + recs_len (firstn j rs))%nat) by (intros; apply boundary_eq).
  rewrite blob_bytes_eq.
  set (B := blob_header_bytes ++ recs_bytes 20 rs).
  assert (HlB : length B = (20 + recs_len rs)%nat).
  { subst B. rewrite app_length, blob_header_length, recs_bytes_length. reflexivity. }
  assert (Hlb : length (firstn n B) = n) by (rewrite firstn_length; lia).
  destruct (Nat.lt_ge_cases n 20) as [H20|H20].
  { left. split; [exact H20|]. unfold blob_open_scan, blob_header_check. rewrite Hlb.
    destruct (Nat.ltb_spec n 20) as [_|C]; [reflexivity|lia]. }
  right.
  assert (Hhc : blob_header_check (firstn n B) = None).
  { subst B. rewrite firstn_app, blob_header_length, (firstn_all2 blob_header_bytes) by (rewrite blob_header_length; exact H20).
    apply blob_header_check_app. }
  unfold blob_open_scan. rewrite Hhc, Hlb.
  destruct (Nat.ltb_spec 20 n) as [Hgt|Hle].
  2:{ left. exists 0%nat. rewrite Hb. cbn [firstn recs_len]. split; [lia|]. split; [lia|reflexivity]. }
  destruct rs as [|x rs]; [cbn [recs_len] in Hn; lia|].
  inversion Hwf as [|x' rs' Hx Hrs]; subst x' rs'.
  destruct (Nat.lt_ge_cases n 36) as [H36|H36].
  { right. exists 0%nat. rewrite !Hb. cbn [firstn recs_len length]. unfold rec_len.
    split; [lia|]. split; [lia|]. split; [lia|].
    unfold scan_start. rewrite Hlb. destruct (Nat.ltb_spec n 36) as [_|C]; [reflexivity|lia]. }
  assert (Hss : scan_start (firstn n B) K = None).
  { subst B. cbn [recs_bytes]. apply scan_start_ok; [exact HK|exact Hx|exact H36|].
    cbn [recs_bytes] in HlB. rewrite HlB. exact Hn. }
  rewrite Hss.
  pose proof (scan_loop_spec K v HK (x :: rs) blob_header_bytes [] (S n) n Hwf) as Hs.
  rewrite blob_header_length in Hs. change (N.of_nat 20) with 20 in Hs. fold B in Hs.
  specialize (Hs ltac:(lia) ltac:(lia) ltac:(lia) ltac:(lia) ltac:(lia)).
  destruct Hs as [(j & Hj & Hnj & Hr) | (j & Hj & Hn1 & Hn2 & Hr)].
  - left. exists j. rewrite Hb. split; [exact Hj|]. split; [exact Hnj|].
    rewrite Hr, recs_hdrs_firstn. reflexivity.
  - right. exists j. rewrite !Hb. split; [exact Hj|]. split; [exact Hn1|]. split; [exact Hn2|exact Hr].
Qed.

(* ------------------------------------------------------------------------------------------------ *)
(* the requested statements                                                                         *)
(* ------------------------------------------------------------------------------------------------ *)

(* a. a complete blob: exactly its headers, with or without data validation (also for rs = []) *)
Theorem scan_complete : forall K rs validate, wf_recs K rs ->
  blob_open_scan (blob_bytes rs) K validate = ROk (blob_hdrs rs).
Proof.
  intros K rs v Hwf. pose proof Hwf as (HK & Hrs & Hsz).
  pose proof (scan_prefix_exact K rs (length (blob_bytes rs)) v Hwf (Nat.le_refl _)) as H.
  cbv zeta in H. rewrite firstn_all in H.
  assert (Hlast := boundary_last rs).
  destruct H as [(C & _) | [(j & Hj & Hn & Hr) | (j & Hj & Hn1 & Hn2 & _)]].
  - rewrite blob_bytes_length in C. lia.
  - rewrite Hr. f_equal. apply firstn_all2.
    unfold blob_hdrs. rewrite blob_of_eq. cbn [snd]. rewrite recs_hdrs_length.
    destruct (Nat.le_gt_cases (length rs) j) as [|Hlt]; [assumption|exfalso].
    destruct (nth_error rs j) as [x|] eqn:Ex; [|apply nth_error_None in Ex; lia].
    pose proof (boundary_S K rs j x Hrs Ex). pose proof (boundary_mono rs (S j) (length rs) Hlt). lia.
  - pose proof (boundary_mono rs (S j) (length rs) Hj). lia.
Qed.

Corollary scan_empty : forall K validate, blob_open_scan (blob_bytes []) K validate = ROk [].
Proof. intros K v. reflexivity. Qed.

(* b. every truncation length, both validation modes, with the side information that the cut is not a
   boundary in the error case: a prefix of the headers exactly at record boundaries and a quarantining
   error everywhere else. *)
Theorem scan_prefix_cases : forall K rs n v, wf_recs K rs -> (n <= length (blob_bytes rs))%nat ->
  let r := blob_open_scan (firstn n (blob_bytes rs)) K v in
  (exists j, (j <= length rs)%nat /\ n = boundary rs j /\ r = ROk (firstn j (blob_hdrs rs)))
  \/ ((forall j, n <> boundary rs j) /\ r = RFail EBincode).
Proof.
  intros K rs n v Hwf Hn r. pose proof (scan_prefix_exact K rs n v Hwf Hn) as H. fold r in H.
  destruct H as [(C & Hr) | [(j & Hj & Hnj & Hr) | (j & Hj & Hn1 & Hn2 & Hr)]].
  - right. split; [|exact Hr]. intros j E. rewrite boundary_eq in E. lia.
  - left. exists j. auto.
  - right. split; [|exact Hr]. apply (between_not_boundary rs j); assumption.
Qed.

Theorem scan_prefix_validate : forall K rs n, wf_recs K rs -> (n <= length (blob_bytes rs))%nat ->
  let r := blob_open_scan (firstn n (blob_bytes rs)) K true in
  (exists j, (j <= length rs)%nat /\ n = boundary rs j /\ r = ROk (firstn j (blob_hdrs rs)))
  \/ ((forall j, n <> boundary rs j) /\ r = RFail EBincode).
Proof. intros K rs n. exact (scan_prefix_cases K rs n true). Qed.

(* c. data validation OFF: the same (before commit 865f94b of the code ANY record whose header was complete
   was indexed although its meta/data was cut: finding F6). *)
Theorem scan_prefix_novalidate : forall K rs n, wf_recs K rs -> (n <= length (blob_bytes rs))%nat ->
  let r := blob_open_scan (firstn n (blob_bytes rs)) K false in
  (exists j, (j <= length rs)%nat /\ n = boundary rs j /\ r = ROk (firstn j (blob_hdrs rs)))
  \/ ((forall j, n <> boundary rs j) /\ r = RFail EBincode).
Proof. intros K rs n. exact (scan_prefix_cases K rs n false). Qed.

(* consequences for Storage::read_blobs: a truncated blob never makes initialisation fail; it is either
   served or quarantined *)
Corollary scan_prefix_disposition : forall K rs n v, wf_recs K rs -> (n <= length (blob_bytes rs))%nat ->
  dispose (blob_open_scan (firstn n (blob_bytes rs)) K v) <> DInitFails.
Proof.
  intros K rs n v Hwf Hn. pose proof (scan_prefix_cases K rs n v Hwf Hn) as H. cbv zeta in H.
  destruct H as [(j & _ & _ & Hr) | (_ & Hr)]; rewrite Hr; discriminate.
Qed.

(* in both validation modes "served" happens exactly at record boundaries *)
Corollary scan_prefix_served_iff_boundary : forall K rs n v, wf_recs K rs -> (n <= length (blob_bytes rs))%nat ->
  (dispose (blob_open_scan (firstn n (blob_bytes rs)) K v) = DServed <->
   exists j, (j <= length rs)%nat /\ n = boundary rs j).
Proof.
  intros K rs n v Hwf Hn. pose proof (scan_prefix_cases K rs n v Hwf Hn) as H. cbv zeta in H.
  destruct H as [(j & Hj & Hnj & Hr) | (Hnb & Hr)].
  - rewrite Hr. split; [intros _; exists j; auto | reflexivity].
  - rewrite Hr. split; [discriminate|].
    intros (j & _ & E). exfalso. exact (Hnb j E).
Qed.

(* ------------------------------------------------------------------------------------------------ *)
(* computed examples                                                                                *)
(* ------------------------------------------------------------------------------------------------ *)

(* F6: two records, K = 4; the file is cut inside the data of record 2 (2 of its 4 data bytes are missing).
   The scan rejects the file (quarantine) with and without data validation.  Before the repair the scan
   without data validation indexed BOTH records, and reading the second one then failed. *)
Definition f6_recs : list rec := [([1;2;3;4], 1, [], [10;20;30]); ([5;6;7;8], 2, [9], [40;50;60;70])].
Definition f6_cut : bytes := firstn (length (blob_bytes f6_recs) - 2) (blob_bytes f6_recs).

Example f6_torn_record_rejected :
  blob_open_scan f6_cut 4 false = RFail EBincode /\ blob_open_scan f6_cut 4 true = RFail EBincode.
Proof. vm_compute. split; reflexivity. Qed.

(* the record that used to be indexed could not be read *)
Example f6_torn_record_unreadable :
  entry_load f6_cut (nth 1 (blob_hdrs f6_recs) (new_header [] 0 [] [])) = RFail EBincode.
Proof. vm_compute. reflexivity. Qed.

(* zero-length data: one record, K = 4, 8-byte meta and EMPTY data (e.g. a deletion marker); the file is
   cut inside the meta.  The scan rejects the file in both modes.  Before the repair the record was indexed
   even WITH data validation (a zero-length read never fails). *)
Definition z_recs : list rec := [([1;2;3;4], 1, [1;2;3;4;5;6;7;8], [])].
Definition z_cut : bytes := firstn (length (blob_bytes z_recs) - 5) (blob_bytes z_recs).

Example empty_data_torn_meta_rejected :
  (length z_cut < length (blob_bytes z_recs))%nat /\
  blob_open_scan z_cut 4 true = RFail EBincode /\ blob_open_scan z_cut 4 false = RFail EBincode.
Proof. vm_compute. repeat split; try reflexivity. lia. Qed.

Print Assumptions scan_prefix_exact.
Print Assumptions scan_complete.
Print Assumptions scan_prefix_cases.
Print Assumptions scan_prefix_validate.
Print Assumptions scan_prefix_novalidate.
Print Assumptions scan_prefix_disposition.
Print Assumptions scan_prefix_served_iff_boundary.
Print Assumptions f6_torn_record_rejected.
Print Assumptions empty_data_torn_meta_rejected.
