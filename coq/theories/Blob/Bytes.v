(* L2: the bytes of a blob file as a function of the records appended to it (ties L3 records to L0). *)
Require Import Pearl.Base.Prelude Pearl.Base.LE Pearl.Base.Crc Pearl.Generated.Consts
               Pearl.Format.Record Pearl.Storage.Model.

(* big-endian key bytes: ArrayKey<K> orders keys lexicographically = numerically on this value *)
Fixpoint be_bytes (n : nat) (v : N) : bytes :=
  match n with O => [] | S m => be_bytes m (v / 256) ++ [v mod 256] end.

(* the deterministic payload of the script vocabulary: byte i of (seed, len) *)
Fixpoint gen_aux (n : nat) (i : N) (seed : N) : bytes :=
  match n with
  | O => []
  | S m => (((N.shiftr seed (8 * (i mod 8))) mod 256 + i * 7 + (N.shiftr i 8) * 13) mod 256) :: gen_aux m (i + 1) seed
  end.
Definition gen_data (seed len : N) : bytes := gen_aux (N.to_nat len) 0 (seed mod 2^64).

Definition str_bytes (l : list N) : bytes := le64 (N.of_nat (length l)) ++ l.

(* metadata maps of the script vocabulary (bincode of HashMap<String, Vec<u8>>) *)
Definition meta_bytes (id : N) : bytes :=
  match id with
  | 0 => le64 0
  | 1 => le64 1 ++ str_bytes [118] ++ str_bytes [49]                                  (* {"v": "1"} *)
  | 2 => le64 2 ++ str_bytes [118] ++ str_bytes [50] ++ str_bytes [120] ++ str_bytes [48;49;50;51;52;53;54;55;56;57]
  | _ => le64 1 ++ str_bytes (flat_map (fun _ => [108;111;110;103;110;97;109;101;45]) (seq 0 2) ++ [108;111;110;103;110;97;109;101])
              ++ str_bytes (repeat 7 300)
  end.

Definition rec_header (K : N) (r : rec) : header :=
  let key := be_bytes (N.to_nat K) (r_key r) in
  if r_del r then deleted_header key (r_ts r) (meta_bytes (r_meta r))
  else new_header key (r_ts r) (meta_bytes (r_meta r)) (gen_data (r_dseed r) (r_dlen r)).

Definition rec_bytes (K : N) (r : rec) (off : N) : bytes * header :=
  write_record (rec_header K r) (meta_bytes (r_meta r)) (if r_del r then [] else gen_data (r_dseed r) (r_dlen r)) off.

(* Blob::open_new writes the header; every Blob::write appends at the current size *)
Definition blob_file_bytes (K : N) (rs : list rec) : bytes :=
  fold_left (fun acc r => acc ++ fst (rec_bytes K r (N.of_nat (length acc)))) rs blob_header_bytes.

(* the headers the index holds, in file order *)
Definition blob_headers (K : N) (rs : list rec) : list header :=
  snd (fold_left (fun '(off, hs) r => let '(b, h) := rec_bytes K r off in (off + N.of_nat (length b), hs ++ [h]))
                 rs (N.of_nat (length blob_header_bytes), [])).
