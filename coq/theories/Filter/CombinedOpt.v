(* Children WITHOUT a filter (BloomProvider::get_filter() = None: "unknown", e.g. a whole Storage that has no closed
   blob yet, pushed into a second-level HierarchicalFilters): the combined filter lifted to `option`, None = unknown.
   An unknown filter answers "maybe" to every key, merging it into a group gives the group up (merge fails: the group
   filter becomes None, which also answers "maybe"), off-loading and memory do nothing. This is one more instance of the
   abstract filter type of Filter/Hier.v, so the hierarchy theorem applies to it as it is; it is the instance that is
   extracted and driven against HierarchicalFilters<_, CombinedFilter, Child> with filterless children on every run. *)
Require Import Pearl.Base.Prelude Pearl.Base.LE Pearl.Filter.Bloom Pearl.Filter.Combined Pearl.Filter.Hier Pearl.Base.AHash.

Definition ocf := option combined.
Definition ocf_contains (K : N) (f : ocf) (k : N) : bool :=
  match f with Some c => cf_contains bloom_hash (ckey_bytes K) c k | None => true end.
Definition ocf_merge (a b : ocf) : option ocf :=
  match a, b with Some x, Some y => option_map Some (cf_merge x y) | _, _ => None end.
Definition ocf_offload (f : ocf) : ocf := option_map cf_offload f.
Definition ocf_mem (f : ocf) : N := match f with Some c => cf_mem c | None => 0 end.

Definition ohier := hier ocf.
Definition oh_new (group : nat) : ohier := h_new ocf group.
Definition oh_step (h : ohier) (o : hop ocf) : ohier := h_step ocf ocf_merge ocf_offload ocf_mem h o.
Definition oh_offload (h : ohier) (needed : N) (level : nat) : ohier * N := h_offload ocf ocf_offload ocf_mem h needed level.
Definition oh_iter (K : N) (h : ohier) (k : N) : list nat := iter_possible N ocf (ocf_contains K) h k.
Definition oh_mem (h : ohier) : N := h_mem ocf ocf_mem h.
Definition oh_check (K : N) (h : ohier) (k : N) : bool :=
  existsb (fun c => match nth_error (h_children ocf h) c with
                    | Some (Some f) => ocf_contains K f k
                    | _ => false end) (oh_iter K h k).
Definition oh_run (group : nat) (ops : list (hop ocf)) : ohier := fold_left oh_step ops (oh_new group).
