(* The hierarchy theorem for filterless ("unknown") children: Filter/CombinedOpt.v is an instance of the abstract filter. *)
Require Import Pearl.Base.Prelude Pearl.Base.LE Pearl.Filter.Bloom Pearl.Filter.BloomProofs Pearl.Filter.Combined
               Pearl.Filter.CombinedProofs Pearl.Filter.Hier Pearl.Filter.HierProofs Pearl.Base.AHash Pearl.Filter.CombinedOpt.

Definition ocf_wf (f : ocf) : Prop := match f with Some c => cf_wf c | None => True end.

Lemma ocf_merge_sound K a b c k :
  ocf_wf a -> ocf_wf b -> ocf_merge a b = Some c ->
  ocf_contains K a k = true \/ ocf_contains K b k = true -> ocf_contains K c k = true.
Proof.
  intros Ha Hb Hm Hk. destruct a as [x|], b as [y|]; cbn in Hm; try discriminate.
  destruct (cf_merge x y) as [m|] eqn:E; cbn in Hm; [|discriminate]. injection Hm as <-. cbn.
  eapply cf_merge_sound; [exact Ha | exact Hb | exact E | exact Hk].
Qed.

Lemma ocf_merge_wf a b c : ocf_wf a -> ocf_wf b -> ocf_merge a b = Some c -> ocf_wf c.
Proof.
  intros Ha Hb Hm. destruct a as [x|], b as [y|]; cbn in Hm; try discriminate.
  destruct (cf_merge x y) as [m|] eqn:E; cbn in Hm; [|discriminate]. injection Hm as <-. cbn.
  eapply cf_merge_wf; [exact Ha | exact Hb | exact E].
Qed.

Lemma ocf_offload_sound K f k : ocf_contains K f k = true -> ocf_contains K (ocf_offload f) k = true.
Proof. destruct f as [x|]; cbn; [apply cf_offload_sound | trivial]. Qed.

Lemma ocf_offload_wf f : ocf_wf f -> ocf_wf (ocf_offload f).
Proof. destruct f as [x|]; cbn; [apply cf_offload_wf | trivial]. Qed.

(* after any sequence of push (with or without a filter) / pop / remove / offload: a present child is yielded for every
   key its own filter admits -- a filterless child for EVERY key -- and check_filter answers "maybe" *)
Theorem oh_no_false_negative : forall K group (ops : list (hop ocf)) c f k,
  (0 < group)%nat -> Forall ocf_wf (pushed ocf ops) ->
  nth_error (pushed ocf ops) c = Some f -> present ocf (oh_run group ops) c = true ->
  ocf_contains K f k = true ->
  In c (oh_iter K (oh_run group ops) k) /\ oh_check K (oh_run group ops) k = true.
Proof.
  intros K group ops c f k Hg Hwf Hp Hpres Hk.
  assert (Hit : In c (oh_iter K (oh_run group ops) k)).
  { unfold oh_iter, oh_run.
    apply (iter_complete N ocf (ocf_contains K) ocf_merge ocf_offload ocf_mem ocf_wf) with (f := f); try assumption.
    - intros a b m k0. apply ocf_merge_sound.
    - exact ocf_merge_wf.
    - intros g k0 _. apply ocf_offload_sound.
    - exact ocf_offload_wf. }
  split; [exact Hit|].
  unfold oh_check. apply existsb_exists. exists c. split; [exact Hit|].
  unfold present in Hpres.
  destruct (nth_error (h_children ocf (oh_run group ops)) c) as [[g|]|] eqn:Eg; try discriminate.
  unfold oh_run in Eg.
  eapply (child_filter_sound N ocf (ocf_contains K) ocf_merge ocf_offload ocf_mem ocf_wf);
    [| exact ocf_merge_wf | | exact ocf_offload_wf | exact Hwf | exact Hp | exact Eg | exact Hk].
  - intros a b m k0. apply ocf_merge_sound.
  - intros g0 k0 _. apply ocf_offload_sound.
Qed.

Corollary oh_filterless_child_never_hidden : forall K group (ops : list (hop ocf)) c k,
  (0 < group)%nat -> Forall ocf_wf (pushed ocf ops) ->
  nth_error (pushed ocf ops) c = Some None -> present ocf (oh_run group ops) c = true ->
  In c (oh_iter K (oh_run group ops) k).
Proof. intros K group ops c k Hg Hwf Hp Hpres. eapply oh_no_false_negative; eauto. Qed.

(* non-vacuity: groups of two; the second group holds a child with a filter and a filterless one, so its group filter is
   given up and it is consulted for every key; the first and the third group keep their ranges *)
Example oh_nonvacuous :
  let f1 : ocf := Some (cf_add bloom_hash (ckey_bytes 4) (cf_new None) 5) in
  let f3 : ocf := Some (cf_add bloom_hash (ckey_bytes 4) (cf_new None) 9) in
  let f4 : ocf := Some (cf_add bloom_hash (ckey_bytes 4) (cf_new None) 20) in
  let h := oh_run 2 [HPush ocf f1; HPush ocf f3; HPush ocf f4; HPush ocf None; HPush ocf f1] in
  oh_iter 4 h 5 = [0; 1; 2; 3; 4]%nat /\ oh_iter 4 h 20 = [2; 3]%nat /\ oh_iter 4 h 7 = [0; 1; 2; 3]%nat /\
  oh_check 4 h 30 = true.
Proof. vm_compute. repeat split; reflexivity. Qed.

Print Assumptions oh_no_false_negative.
Print Assumptions oh_filterless_child_never_hidden.
