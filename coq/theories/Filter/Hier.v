(* Model of src/filter/hierarchical.rs (HierarchicalFilters as used by the storage: level = 1).
   Shape facts read off `push`: the first `group` children go directly under the original root; when the
   number of SLOTS (vacated ones included) reaches `group`, the root is wrapped ONCE in a new root that
   copies its filter; from then on children go to the new root's last node, a fresh node (filter None)
   being created when that one holds `group` children. The root is never wrapped again: two levels.
   The filter type is abstract: `contains f k = true` means "maybe" (NeedAdditionalCheck). *)
Require Import Pearl.Base.Prelude.

Section Hier.
Variables (key F : Type).
Variable contains : F -> key -> bool.
Variable merge : F -> F -> option F.        (* checked_add_assign: None = failed *)
Variable offload : F -> F.                  (* offload_filter: the bloom buffer is dropped *)

Record hnode := { hn_filter : option F; hn_leaves : list nat }.      (* leaves: child ids in push order *)

Record hier := {
  h_group : nat;
  h_wrapped : bool;
  h_root_filter : option F;          (* filter of the current root (never consulted by the iterator) *)
  h_nodes : list hnode;              (* wrapped: the root's child nodes in order; not wrapped: [the root itself] *)
  h_children : list (option F)       (* slots: the child's own filter; None = vacated by pop/remove *)
}.

Definition h_new (group : nat) : hier :=
  {| h_group := group; h_wrapped := false; h_root_filter := None;
     h_nodes := [{| hn_filter := None; hn_leaves := [] |}]; h_children := [] |}.

(* Inner::merge_filters: dest stays Some only if both are Some and the merge succeeds *)
Definition merge_filters (dest : option F) (src : F) : option F :=
  match dest with Some d => merge d src | None => None end.

(* add_child(node, child): first child initialises the node filter from the child's, later ones are merged *)
Definition node_add (n : hnode) (cid : nat) (f : F) : hnode :=
  {| hn_filter := match hn_leaves n with [] => Some f | _ => merge_filters (hn_filter n) f end;
     hn_leaves := hn_leaves n ++ [cid] |}.

Fixpoint upd_last {A} (l : list A) (g : A -> A) : list A :=
  match l with [] => [] | [x] => [g x] | x :: r => x :: upd_last r g end.

Definition last_full (h : hier) : bool :=
  match rev (h_nodes h) with n :: _ => (h_group h <=? length (hn_leaves n))%nat | [] => true end.

(* push *)
Definition h_push (h : hier) (f : F) : hier :=
  let cid := length (h_children h) in
  if (cid <? h_group h)%nat then
    (* still filling the original root *)
    let nodes := upd_last (h_nodes h) (fun n => node_add n cid f) in
    let rootf := match nodes with [n] => hn_filter n | _ => None end in
    let wrap := (h_group h <=? S cid)%nat in
    {| h_group := h_group h; h_wrapped := wrap; h_root_filter := rootf;
       h_nodes := nodes; h_children := h_children h ++ [Some f] |}
  else
    let nodes := if last_full h then h_nodes h ++ [{| hn_filter := None; hn_leaves := [] |}] else h_nodes h in
    {| h_group := h_group h; h_wrapped := h_wrapped h;
       h_root_filter := merge_filters (h_root_filter h) f;     (* every ancestor gets the child's filter merged *)
       h_nodes := upd_last nodes (fun n => node_add n cid f);
       h_children := h_children h ++ [Some f] |}.

(* remove(id) / pop: the slot is vacated, node filters stay *)
Fixpoint vacate (l : list (option F)) (i : nat) : list (option F) :=
  match l, i with
  | [], _ => []
  | _ :: r, O => None :: r
  | x :: r, S j => x :: vacate r j
  end.
Definition h_remove (h : hier) (i : nat) : hier :=
  {| h_group := h_group h; h_wrapped := h_wrapped h; h_root_filter := h_root_filter h; h_nodes := h_nodes h;
     h_children := vacate (h_children h) i |}.
Fixpoint last_some_idx (l : list (option F)) (i : nat) : option nat :=
  match l with
  | [] => None
  | x :: r => match last_some_idx r (S i) with Some j => Some j | None => match x with Some _ => Some i | None => None end end
  end.
Definition h_pop (h : hier) : hier :=
  match last_some_idx (h_children h) 0 with Some i => h_remove h i | None => h end.

(* offload_buffer at level >= 1: node filters (and the children's own) lose their bloom buffers *)
Definition h_offload_nodes (h : hier) : hier :=
  {| h_group := h_group h; h_wrapped := h_wrapped h; h_root_filter := option_map offload (h_root_filter h);
     h_nodes := map (fun n => {| hn_filter := option_map offload (hn_filter n); hn_leaves := hn_leaves n |}) (h_nodes h);
     h_children := map (option_map offload) (h_children h) |}.

(* iter_possible_childs: DFS from the root (whose own filter is not consulted); a NODE is skipped iff its
   filter is Some and answers NotContains; vacated leaves are skipped. Not wrapped: the root's leaves. *)
Definition node_passes (h : hier) (n : hnode) (k : key) : bool :=
  if h_wrapped h then match hn_filter n with Some f => contains f k | None => true end else true.
Definition present (h : hier) (cid : nat) : bool :=
  match nth_error (h_children h) cid with Some (Some _) => true | _ => false end.
Definition iter_possible (h : hier) (k : key) : list nat :=
  flat_map (fun n => if node_passes h n k then filter (present h) (hn_leaves n) else []) (h_nodes h).

(* ---------- the exact offload_buffer(needed_memory, level) of the hierarchy (self.level = 1) ----------
   pass 1: present children in id order, stopping (and RETURNING) as soon as freed >= needed; each child's own
   offload frees `mem f`; when level >= 1 the child's parent node is remembered.
   pass 2 (level >= 1 only): the remembered nodes in id order, same early return; then their parent (the root,
   when wrapped). *)
Variable mem : F -> N.       (* memory_allocated, = what offload_filter frees *)
Definition omem (o : option F) : N := match o with Some f => mem f | None => 0 end.

Fixpoint node_of (nodes : list hnode) (cid : nat) (i : nat) : option nat :=
  match nodes with
  | [] => None
  | n :: r => if existsb (Nat.eqb cid) (hn_leaves n) then Some i else node_of r cid (S i)
  end.
Definition add_parent (o : option nat) (ps : list nat) : list nat :=
  match o with Some i => if existsb (Nat.eqb i) ps then ps else i :: ps | None => ps end.

(* result: new slots, freed, parents, returned-early *)
Fixpoint off_children (nodes : list hnode) (level_ok : bool) (needed : N) (l : list (option F)) (cid : nat)
         (freed : N) (ps : list nat) : list (option F) * N * list nat * bool :=
  match l with
  | [] => ([], freed, ps, false)
  | None :: r =>
    let '(r', fr, ps', st) := off_children nodes level_ok needed r (S cid) freed ps in (None :: r', fr, ps', st)
  | Some f :: r =>
    if needed <=? freed then (l, freed, ps, true)
    else
      let ps1 := if level_ok then add_parent (node_of nodes cid 0) ps else ps in
      let '(r', fr, ps', st) := off_children nodes level_ok needed r (S cid) (freed + mem f) ps1 in
      (Some (offload f) :: r', fr, ps', st)
  end.

Definition node_offload (n : hnode) : hnode := {| hn_filter := option_map offload (hn_filter n); hn_leaves := hn_leaves n |}.

(* result: new nodes, freed, some node visited, returned-early *)
Fixpoint off_nodes (needed : N) (nodes : list hnode) (i : nat) (ps : list nat) (freed : N) : list hnode * N * bool * bool :=
  match nodes with
  | [] => ([], freed, false, false)
  | n :: r =>
    if existsb (Nat.eqb i) ps then
      if needed <=? freed then (nodes, freed, false, true)
      else let '(r', fr, _, st) := off_nodes needed r (S i) ps (freed + omem (hn_filter n)) in (node_offload n :: r', fr, true, st)
    else let '(r', fr, v, st) := off_nodes needed r (S i) ps freed in (n :: r', fr, v, st)
  end.

Definition h_offload (h : hier) (needed : N) (level : nat) : hier * N :=
  let '(ch, fr1, ps, st1) := off_children (h_nodes h) (1 <=? level)%nat needed (h_children h) 0 0 [] in
  let h1 := {| h_group := h_group h; h_wrapped := h_wrapped h; h_root_filter := h_root_filter h; h_nodes := h_nodes h;
               h_children := ch |} in
  if st1 || (level <? 1)%nat then (h1, fr1) else
  let '(nodes, fr2, visited, st2) := off_nodes needed (h_nodes h) 0 ps fr1 in
  if h_wrapped h then
    if st2 || negb visited || (needed <=? fr2) then
      ({| h_group := h_group h; h_wrapped := true; h_root_filter := h_root_filter h; h_nodes := nodes; h_children := ch |}, fr2)
    else
      ({| h_group := h_group h; h_wrapped := true; h_root_filter := option_map offload (h_root_filter h); h_nodes := nodes;
          h_children := ch |}, fr2 + omem (h_root_filter h))
  else
    (* the single node IS the root *)
    ({| h_group := h_group h; h_wrapped := false;
        h_root_filter := match nodes with [n] => hn_filter n | _ => h_root_filter h end; h_nodes := nodes; h_children := ch |}, fr2).

(* filter_memory_allocated *)
Definition h_mem (h : hier) : N :=
  fold_left N.add (map (fun n => omem (hn_filter n)) (h_nodes h)) 0
  + (if h_wrapped h then omem (h_root_filter h) else 0)
  + fold_left N.add (map omem (h_children h)) 0.

Inductive hop := HPush (f : F) | HPop | HRemove (i : nat) | HOffload | HOffloadN (needed : N) (level : nat).
Definition h_step (h : hier) (o : hop) : hier :=
  match o with HPush f => h_push h f | HPop => h_pop h | HRemove i => h_remove h i | HOffload => h_offload_nodes h
  | HOffloadN needed level => fst (h_offload h needed level) end.

End Hier.
