(* No false negatives of the two-level filter hierarchy modelled in Hier.v.
   Main results (end of file):
     iter_complete                   : a present child whose pushed filter says "maybe" is produced by the iterator
     check_filter_fast_conservative  : hence the iterator is non-empty for such a key
     child_filter_sound              : a present child's stored filter still covers the filter it was pushed with
   The proof goes through an invariant `Inv P h` relating the ghost list `P` of pushed filters to the state.
   The filter operations are only required to be sound on `good` (well-formed) filters; `good` must be preserved
   by merge and offload, and every pushed filter must be good (premise `Forall good (pushed ops)`).
   The ops include both the "offload everything" step and the exact offload_buffer(needed, level) with its early
   returns (HOffloadN), for every memory measure `mem`: all the invariant needs is that each slot / node filter is
   either unchanged or the `offload` of the old one. *)
Require Import Pearl.Base.Prelude Pearl.Filter.Hier.
Local Open Scope nat_scope.

Local Arguments hn_filter {F} _.
Local Arguments hn_leaves {F} _.
Local Arguments Build_hnode {F} _ _.
Local Arguments h_group {F} _.
Local Arguments h_wrapped {F} _.
Local Arguments h_root_filter {F} _.
Local Arguments h_nodes {F} _.
Local Arguments h_children {F} _.
Local Arguments Build_hier {F} _ _ _ _ _.
Local Arguments h_new {F} _.
Local Arguments last_full {F} _.
Local Arguments vacate {F} _ _.
Local Arguments h_remove {F} _ _.
Local Arguments last_some_idx {F} _ _.
Local Arguments h_pop {F} _.
Local Arguments present {F} _ _.
Local Arguments HPush {F} _.
Local Arguments HPop {F}.
Local Arguments HRemove {F} _.
Local Arguments HOffload {F}.
Local Arguments HOffloadN {F} _ _.

(* ---------- generic list facts ---------- *)

Lemma upd_last_snoc {A} (l : list A) (x : A) (g : A -> A) : upd_last (l ++ [x]) g = l ++ [g x].
Proof.
  induction l as [|y r IH]; [reflexivity|].
  cbn [app]. destruct (r ++ [x]) as [|z t] eqn:E.
  - destruct r; discriminate E.
  - cbn [upd_last]. rewrite <- IH. reflexivity.
Qed.

Lemma nonempty_snoc {A} (l : list A) : l <> [] -> exists l' x, l = l' ++ [x].
Proof.
  intros Hne. destruct (exists_last Hne) as [l' [x Hx]]. exists l', x. exact Hx.
Qed.

Lemma upd_last_Forall {A} (Q : A -> Prop) (l : list A) (g : A -> A) :
  (forall x, Q x -> Q (g x)) -> Forall Q l -> Forall Q (upd_last l g).
Proof.
  intros Hg. induction l as [|x r IH]; intros HF; [constructor|].
  inversion HF as [|? ? Hx Hr]; subst. destruct r as [|y t].
  - cbn. constructor; [apply Hg; exact Hx | constructor].
  - change (upd_last (x :: y :: t) g) with (x :: upd_last (y :: t) g).
    constructor; [exact Hx | apply IH; exact Hr].
Qed.

Lemma Forall2_refl {A} (R : A -> A -> Prop) (l : list A) : (forall x, R x x) -> Forall2 R l l.
Proof. intros HR. induction l as [|x r IH]; constructor; auto. Qed.

Lemma Forall2_len {A B} (R : A -> B -> Prop) l l' : Forall2 R l l' -> length l = length l'.
Proof. intros HF. induction HF as [|x0 y0 l l' HR HF IH]; cbn; [reflexivity | rewrite IH; reflexivity]. Qed.

Lemma Forall2_nth_error_r {A B} (R : A -> B -> Prop) l l' c y :
  Forall2 R l l' -> nth_error l' c = Some y -> exists x, nth_error l c = Some x /\ R x y.
Proof.
  intros HF. revert c. induction HF as [|x0 y0 l l' HR HF IH]; intros c Hc.
  - destruct c; discriminate Hc.
  - destruct c as [|c]; cbn in *.
    + injection Hc as <-. exists x0. split; [reflexivity | exact HR].
    + apply IH. exact Hc.
Qed.

Lemma Forall2_Forall {A B} (R : A -> B -> Prop) (Q : A -> Prop) (Q' : B -> Prop) l l' :
  (forall x y, R x y -> Q x -> Q' y) -> Forall2 R l l' -> Forall Q l -> Forall Q' l'.
Proof.
  intros HRQ HF. induction HF as [|x0 y0 l l' HR HF IH]; intros HQ; [constructor|].
  inversion HQ as [|? ? Hx Hr]; subst. constructor; [eapply HRQ; eauto | apply IH; exact Hr].
Qed.

Lemma Forall2_map_eq {A B C} (R : A -> B -> Prop) (g : A -> C) (g' : B -> C) l l' :
  (forall x y, R x y -> g x = g' y) -> Forall2 R l l' -> map g l = map g' l'.
Proof.
  intros Hg HF. induction HF as [|x0 y0 l l' HR HF IH]; [reflexivity|]. cbn. rewrite (Hg _ _ HR), IH. reflexivity.
Qed.

Section HierProofs.
Variables (key F : Type).
Variable contains : F -> key -> bool.
Variable merge : F -> F -> option F.
Variable offload : F -> F.
Variable mem : F -> N.       (* memory_allocated of a filter: only steers the early returns of HOffloadN *)

(* well-formedness: merge / offload are only required to be sound on good filters, and must preserve goodness *)
Variable good : F -> Prop.
Hypothesis merge_sound : forall a b c k,
  good a -> good b -> merge a b = Some c -> contains a k = true \/ contains b k = true -> contains c k = true.
Hypothesis merge_good : forall a b c, good a -> good b -> merge a b = Some c -> good c.
Hypothesis offload_sound : forall f k, good f -> contains f k = true -> contains (offload f) k = true.
Hypothesis offload_good : forall f, good f -> good (offload f).

Definition run_h (group : nat) (ops : list (hop F)) : hier F :=
  fold_left (h_step F merge offload mem) ops (h_new group).

(* ghost: the filters the children were pushed with, in push order = child ids *)
Fixpoint pushed (ops : list (hop F)) : list F :=
  match ops with
  | [] => []
  | HPush f :: r => f :: pushed r
  | _ :: r => pushed r
  end.

Definition pushed_of (o : hop F) : list F := match o with HPush f => [f] | _ => [] end.

Lemma pushed_cons o r : pushed (o :: r) = pushed_of o ++ pushed r.
Proof. destruct o; reflexivity. Qed.

(* ---------- the invariant ---------- *)

(* g answers "maybe" whenever f does *)
Definition covers (g f : F) : Prop := forall k, contains f k = true -> contains g k = true.
(* a node filter: absent = passes everything *)
Definition ocovers (o : option F) (f : F) : Prop := match o with None => True | Some g => covers g f end.

Definition node_ok (P : list F) (n : hnode F) : Prop :=
  forall c f, In c (hn_leaves n) -> nth_error P c = Some f -> ocovers (hn_filter n) f.

(* an optional filter (node filter, root filter, child slot) is good when present *)
Definition ogood (o : option F) : Prop := match o with None => True | Some g => good g end.
Definition node_good (n : hnode F) : Prop := ogood (hn_filter n).

Record Inv (P : list F) (h : hier F) : Prop := {
  inv_len : length (h_children h) = length P;
  inv_child : forall c g f, nth_error (h_children h) c = Some (Some g) -> nth_error P c = Some f -> covers g f;
  inv_leaves : concat (map hn_leaves (h_nodes h)) = seq 0 (length P);
  inv_nonempty : h_nodes h <> [];
  inv_nodes : Forall (node_ok P) (h_nodes h);
  inv_good_children : Forall ogood (h_children h);     (* every Some child slot is good *)
  inv_good_root : ogood (h_root_filter h);             (* the root filter, when Some, is good *)
  inv_good_nodes : Forall node_good (h_nodes h)        (* every Some node filter is good *)
}.

Lemma covers_refl f : covers f f.
Proof. intros k Hk. exact Hk. Qed.

Lemma covers_offload g f : good g -> covers g f -> covers (offload g) f.
Proof. intros Hg Hc k Hk. apply offload_sound; [exact Hg | apply Hc, Hk]. Qed.

Lemma ocovers_offload o f : ogood o -> ocovers o f -> ocovers (option_map offload o) f.
Proof. destruct o as [g|]; cbn; [apply covers_offload | trivial]. Qed.

Lemma ogood_offload o : ogood o -> ogood (option_map offload o).
Proof. destruct o as [g|]; cbn; [apply offload_good | trivial]. Qed.

Lemma ogood_nth (l : list (option F)) c g : Forall ogood l -> nth_error l c = Some (Some g) -> good g.
Proof.
  intros HF Hc. apply nth_error_In in Hc. rewrite Forall_forall in HF. exact (HF _ Hc).
Qed.

Lemma Inv_new group : Inv [] (h_new group).
Proof.
  constructor; cbn.
  - reflexivity.
  - intros c g f Hc. destruct c; discriminate Hc.
  - reflexivity.
  - discriminate.
  - constructor; [|constructor]. intros c f Hin. destruct Hin.
  - constructor.
  - exact I.
  - constructor; [exact I | constructor].
Qed.

(* ---------- vacate (pop / remove) ---------- *)

Lemma vacate_length (l : list (option F)) i : length (vacate l i) = length l.
Proof. revert i; induction l as [|x r IH]; intros [|j]; cbn; auto. Qed.

Lemma vacate_some (l : list (option F)) i c g :
  nth_error (vacate l i) c = Some (Some g) -> nth_error l c = Some (Some g).
Proof.
  revert i c; induction l as [|x r IH]; intros [|j] [|c] H; cbn in *; try discriminate; auto.
  eapply IH; eauto.
Qed.

Lemma vacate_good (l : list (option F)) i : Forall ogood l -> Forall ogood (vacate l i).
Proof.
  revert i; induction l as [|x r IH]; intros [|j] HF; cbn; try exact HF.
  - inversion HF as [|? ? Hx Hr]; subst. constructor; [exact I | exact Hr].
  - inversion HF as [|? ? Hx Hr]; subst. constructor; [exact Hx | apply IH; exact Hr].
Qed.

Lemma Inv_remove P h i : Inv P h -> Inv P (h_remove h i).
Proof.
  intros [Hlen Hch Hlv Hne Hnd Hgc Hgr Hgn]. constructor; cbn.
  - rewrite vacate_length. exact Hlen.
  - intros c g f Hc Hp. apply vacate_some in Hc. eapply Hch; eauto.
  - exact Hlv.
  - exact Hne.
  - exact Hnd.
  - apply vacate_good. exact Hgc.
  - exact Hgr.
  - exact Hgn.
Qed.

Lemma Inv_pop P h : Inv P h -> Inv P (h_pop h).
Proof.
  intros HI. unfold h_pop. destruct (last_some_idx (h_children h) 0) as [i|]; [apply Inv_remove|]; exact HI.
Qed.

(* ---------- offload ---------- *)

Lemma Inv_offload P h : Inv P h -> Inv P (h_offload_nodes F offload h).
Proof.
  intros [Hlen Hch Hlv Hne Hnd Hgc Hgr Hgn]. constructor; cbn.
  - rewrite map_length. exact Hlen.
  - intros c g f Hc Hp. rewrite nth_error_map in Hc.
    destruct (nth_error (h_children h) c) as [[g0|]|] eqn:E; cbn in Hc; try discriminate.
    injection Hc as <-. apply covers_offload; [eapply ogood_nth; eauto | eapply Hch; eauto].
  - rewrite map_map. cbn. exact Hlv.
  - intros Hnil. apply map_eq_nil in Hnil. exact (Hne Hnil).
  - apply Forall_map. rewrite Forall_forall in *.
    intros n Hin c f Hcin Hp. cbn in *. apply ocovers_offload; [exact (Hgn n Hin) | eapply Hnd; eauto].
  - apply Forall_map. eapply Forall_impl; [|exact Hgc]. intros o Ho. apply ogood_offload. exact Ho.
  - apply ogood_offload. exact Hgr.
  - apply Forall_map. eapply Forall_impl; [|exact Hgn]. intros n Hn. unfold node_good in *. cbn.
    apply ogood_offload. exact Hn.
Qed.

(* ---------- push ---------- *)

Lemma merge_filters_covers_old o f m f' :
  ogood o -> good f -> merge_filters F merge o f = Some m -> ocovers o f' -> covers m f'.
Proof.
  unfold merge_filters. destruct o as [d|]; [|discriminate].
  intros Hgo Hgf Hm Hc k Hk. cbn in Hc, Hgo. eapply merge_sound; [exact Hgo | exact Hgf | exact Hm|].
  left. apply Hc, Hk.
Qed.

Lemma merge_filters_covers_new o f m :
  ogood o -> good f -> merge_filters F merge o f = Some m -> covers m f.
Proof.
  unfold merge_filters. destruct o as [d|]; [|discriminate].
  intros Hgo Hgf Hm k Hk. cbn in Hgo. eapply merge_sound; [exact Hgo | exact Hgf | exact Hm|]. right. exact Hk.
Qed.

Lemma merge_filters_good o f : ogood o -> good f -> ogood (merge_filters F merge o f).
Proof.
  unfold merge_filters. destruct o as [d|]; [|intros; exact I].
  intros Hgo Hgf. cbn in Hgo. destruct (merge d f) as [m|] eqn:Em; cbn; [|exact I].
  exact (merge_good d f m Hgo Hgf Em).
Qed.

Lemma node_add_good x cid f : node_good x -> good f -> node_good (node_add F merge x cid f).
Proof.
  unfold node_good, node_add. cbn [hn_filter]. intros Hx Hf.
  destruct (hn_leaves x); [exact Hf | apply merge_filters_good; assumption].
Qed.

Lemma node_add_ok P x f :
  node_good x -> good f ->
  node_ok P x -> (forall c, In c (hn_leaves x) -> c < length P) ->
  node_ok (P ++ [f]) (node_add F merge x (length P) f).
Proof.
  intros Hgx Hgf Hok Hlt c f' Hin Hp. cbn in Hin. apply in_app_or in Hin.
  unfold node_add; cbn [hn_filter].
  destruct Hin as [Hin | [<- | []]].
  - pose proof (Hlt _ Hin) as Hc. rewrite nth_error_app1 in Hp by exact Hc.
    pose proof (Hok _ _ Hin Hp) as Hcov.
    destruct (hn_leaves x) as [|l0 lr] eqn:El; [destruct Hin|].
    destruct (merge_filters F merge (hn_filter x) f) as [m|] eqn:Em; cbn; [|trivial].
    eapply merge_filters_covers_old; eauto.
  - rewrite nth_error_app2 in Hp by lia. rewrite Nat.sub_diag in Hp. cbn in Hp. injection Hp as <-.
    destruct (hn_leaves x) as [|l0 lr] eqn:El; cbn; [apply covers_refl|].
    destruct (merge_filters F merge (hn_filter x) f) as [m|] eqn:Em; cbn; [|trivial].
    eapply merge_filters_covers_new; eauto.
Qed.

Lemma node_ok_weaken P f n :
  node_ok P n -> (forall c, In c (hn_leaves n) -> c < length P) -> node_ok (P ++ [f]) n.
Proof.
  intros Hok Hlt c f' Hin Hp. rewrite nth_error_app1 in Hp by (apply Hlt; exact Hin). eapply Hok; eauto.
Qed.

Lemma leaves_lt (P : list F) (N : list (hnode F)) n c :
  concat (map hn_leaves N) = seq 0 (length P) -> In n N -> In c (hn_leaves n) -> c < length P.
Proof.
  intros Hlv Hn Hc.
  assert (Hin : In c (concat (map hn_leaves N))).
  { apply in_concat. exists (hn_leaves n). split; [apply in_map; exact Hn | exact Hc]. }
  rewrite Hlv in Hin. apply in_seq in Hin. lia.
Qed.

(* the common part of both branches of h_push: the child is appended to the last node *)
Lemma push_nodes P (N : list (hnode F)) f :
  Forall node_good N -> good f ->
  N <> [] -> concat (map hn_leaves N) = seq 0 (length P) -> Forall (node_ok P) N ->
  let N' := upd_last N (fun n => node_add F merge n (length P) f) in
  concat (map hn_leaves N') = seq 0 (length (P ++ [f])) /\ N' <> [] /\ Forall (node_ok (P ++ [f])) N' /\
  Forall node_good N'.
Proof.
  intros HgN Hgf Hne Hlv Hnd.
  assert (HgN' : Forall node_good (upd_last N (fun n => node_add F merge n (length P) f))).
  { apply upd_last_Forall; [|exact HgN]. intros x Hx. apply node_add_good; assumption. }
  revert HgN'.
  destruct (nonempty_snoc N Hne) as [N0 [x ->]]. cbn zeta.
  rewrite upd_last_snoc. intros HgN'.
  assert (Hgx : node_good x).
  { apply Forall_app in HgN. destruct HgN as [_ HgN]. inversion HgN; assumption. }
  assert (Hlt : forall n c, In n (N0 ++ [x]) -> In c (hn_leaves n) -> c < length P).
  { intros n c Hn Hc. eapply leaves_lt; eauto. }
  apply Forall_app in Hnd. destruct Hnd as [Hnd0 Hndx]. inversion Hndx as [|? ? Hx _]; subst.
  split; [|split; [|split; [|exact HgN']]].
  - rewrite map_app, concat_app in *. cbn in *. rewrite app_nil_r in *.
    rewrite app_assoc, Hlv, app_length. cbn [length]. rewrite Nat.add_1_r, seq_S. reflexivity.
  - intros Hnil. apply app_eq_nil in Hnil. destruct Hnil as [_ Hnil]. discriminate Hnil.
  - apply Forall_app. split.
    + rewrite Forall_forall in *. intros n Hn. apply node_ok_weaken; [apply Hnd0; exact Hn|].
      intros c Hc. eapply Hlt; [|exact Hc]. apply in_or_app. left. exact Hn.
    + constructor; [|constructor]. apply node_add_ok; [exact Hgx | exact Hgf | exact Hx|].
      intros c Hc. eapply Hlt; [|exact Hc]. apply in_or_app. right. left. reflexivity.
Qed.

Lemma push_children P (ch : list (option F)) f :
  length ch = length P ->
  (forall c g f', nth_error ch c = Some (Some g) -> nth_error P c = Some f' -> covers g f') ->
  forall c g f', nth_error (ch ++ [Some f]) c = Some (Some g) -> nth_error (P ++ [f]) c = Some f' -> covers g f'.
Proof.
  intros Hlen Hch c g f' Hc Hp.
  destruct (Nat.lt_ge_cases c (length P)) as [Hlt|Hge].
  - rewrite nth_error_app1 in Hc by lia. rewrite nth_error_app1 in Hp by lia. eapply Hch; eauto.
  - rewrite nth_error_app2 in Hc by lia. rewrite nth_error_app2 in Hp by lia. rewrite Hlen in Hc.
    destruct (c - length P) as [|d]; cbn in *.
    + injection Hc as <-. injection Hp as <-. apply covers_refl.
    + destruct d; discriminate Hp.
Qed.

Lemma push_children_good (ch : list (option F)) f : Forall ogood ch -> good f -> Forall ogood (ch ++ [Some f]).
Proof. intros Hch Hf. apply Forall_app. split; [exact Hch|]. constructor; [exact Hf | constructor]. Qed.

Lemma Inv_push P h f : good f -> Inv P h -> Inv (P ++ [f]) (h_push F merge h f).
Proof.
  intros Hgf [Hlen Hch Hlv Hne Hnd Hgc Hgr Hgn]. unfold h_push. rewrite Hlen.
  destruct (length P <? h_group h) eqn:Eg.
  - destruct (push_nodes P (h_nodes h) f Hgn Hgf Hne Hlv Hnd) as [H1 [H2 [H3 H4]]].
    constructor; cbn [h_children h_nodes h_root_filter]; auto.
    + rewrite !app_length, Hlen. reflexivity.
    + apply push_children; assumption.
    + apply push_children_good; assumption.
    + destruct (upd_last (h_nodes h) (fun n => node_add F merge n (length P) f)) as [|n0 [|n1 t]]; try exact I.
      inversion H4; assumption.
  - set (N := if last_full h then h_nodes h ++ [Build_hnode None []] else h_nodes h).
    assert (HN : N <> [] /\ concat (map hn_leaves N) = seq 0 (length P) /\ Forall (node_ok P) N /\
                 Forall node_good N).
    { subst N. destruct (last_full h); [|auto]. split; [|split; [|split]].
      - intros Hnil. apply app_eq_nil in Hnil. destruct Hnil as [_ Hnil]. discriminate Hnil.
      - rewrite map_app, concat_app. cbn. rewrite app_nil_r. exact Hlv.
      - apply Forall_app. split; [exact Hnd|]. constructor; [|constructor].
        intros c f' Hin. destruct Hin.
      - apply Forall_app. split; [exact Hgn|]. constructor; [exact I | constructor]. }
    destruct HN as [HN1 [HN2 [HN3 HN4]]].
    destruct (push_nodes P N f HN4 Hgf HN1 HN2 HN3) as [H1 [H2 [H3 H4]]].
    constructor; cbn [h_children h_nodes h_root_filter]; auto.
    + rewrite !app_length, Hlen. reflexivity.
    + apply push_children; assumption.
    + apply push_children_good; assumption.
    + apply merge_filters_good; assumption.
Qed.

(* ---------- offload_buffer(needed, level): every filter is unchanged or offloaded ---------- *)

Definition ostep (o o' : option F) : Prop := o' = o \/ o' = option_map offload o.
Definition nstep (n n' : hnode F) : Prop := n' = n \/ n' = node_offload F offload n.

Lemma ostep_refl o : ostep o o.
Proof. left. reflexivity. Qed.
Lemma nstep_refl n : nstep n n.
Proof. left. reflexivity. Qed.

Lemma ostep_good o o' : ostep o o' -> ogood o -> ogood o'.
Proof. intros [->| ->] Hg; [exact Hg | apply ogood_offload, Hg]. Qed.

(* Some-ness of a slot is preserved *)
Lemma ostep_some o o' : ostep o o' -> (o' = None <-> o = None).
Proof. intros [->| ->]; [tauto|]. destruct o; cbn; split; intros H; try discriminate H; reflexivity. Qed.

Lemma nstep_leaves n n' : nstep n n' -> hn_leaves n = hn_leaves n'.
Proof. intros [->| ->]; reflexivity. Qed.

Lemma nstep_good n n' : nstep n n' -> node_good n -> node_good n'.
Proof. intros [->| ->] Hg; [exact Hg|]. unfold node_good, node_offload in *. cbn. apply ogood_offload, Hg. Qed.

Lemma nstep_ok P n n' : nstep n n' -> node_ok P n /\ node_good n -> node_ok P n'.
Proof.
  intros [->| ->] [Hok Hg]; [exact Hok|]. intros c f Hin Hp. unfold node_offload in *. cbn in *.
  apply ocovers_offload; [exact Hg | eapply Hok; eauto].
Qed.

Lemma off_children_ostep nodes lv needed (l : list (option F)) : forall cid freed ps l' fr ps' st,
  off_children F offload mem nodes lv needed l cid freed ps = (l', fr, ps', st) -> Forall2 ostep l l'.
Proof.
  induction l as [|[f|] r IH]; intros cid freed ps l' fr ps' st; cbn [off_children].
  - intros [= <- _ _ _]. constructor.
  - destruct (N.leb needed freed).
    + intros [= <- _ _ _]. apply Forall2_refl, ostep_refl.
    + destruct (off_children F offload mem nodes lv needed r (S cid) (freed + mem f)%N
                  (if lv then add_parent (node_of F nodes cid 0) ps else ps)) as [[[r' fr1] ps1] st1] eqn:E.
      intros [= <- _ _ _]. constructor; [right; reflexivity | eapply IH; exact E].
  - destruct (off_children F offload mem nodes lv needed r (S cid) freed ps) as [[[r' fr1] ps1] st1] eqn:E.
    intros [= <- _ _ _]. constructor; [left; reflexivity | eapply IH; exact E].
Qed.

Lemma off_nodes_nstep needed ps (nodes : list (hnode F)) : forall i freed nodes' fr v st,
  off_nodes F offload mem needed nodes i ps freed = (nodes', fr, v, st) -> Forall2 nstep nodes nodes'.
Proof.
  induction nodes as [|n r IH]; intros i freed nodes' fr v st; cbn [off_nodes].
  - intros [= <- _ _ _]. constructor.
  - destruct (existsb (Nat.eqb i) ps).
    + destruct (N.leb needed freed).
      * intros [= <- _ _ _]. apply Forall2_refl, nstep_refl.
      * destruct (off_nodes F offload mem needed r (S i) ps (freed + omem F mem (hn_filter n))%N)
          as [[[r' fr1] v1] st1] eqn:E.
        intros [= <- _ _ _]. constructor; [right; reflexivity | eapply IH; exact E].
    + destruct (off_nodes F offload mem needed r (S i) ps freed) as [[[r' fr1] v1] st1] eqn:E.
      intros [= <- _ _ _]. constructor; [left; reflexivity | eapply IH; exact E].
Qed.

(* what the invariant needs from an offloading step *)
Lemma Inv_offstep P h g w' root' nodes' ch' :
  Inv P h -> Forall2 ostep (h_children h) ch' -> Forall2 nstep (h_nodes h) nodes' -> ogood root' ->
  Inv P (Build_hier g w' root' nodes' ch').
Proof.
  intros [Hlen Hch Hlv Hne Hnd Hgc Hgr Hgn] Hc2 Hn2 Hroot. constructor; cbn [h_children h_nodes h_root_filter].
  - rewrite <- (Forall2_len _ _ _ Hc2). exact Hlen.
  - intros c g0 f Hc Hp. destruct (Forall2_nth_error_r _ _ _ _ _ Hc2 Hc) as [o [Ho Hstep]].
    destruct Hstep as [E|E].
    + rewrite <- E in Ho. eapply Hch; eauto.
    + destruct o as [g1|]; cbn in E; [|discriminate E]. injection E as ->.
      apply covers_offload; [eapply ogood_nth; eauto | eapply Hch; eauto].
  - rewrite <- (Forall2_map_eq nstep hn_leaves hn_leaves _ _ nstep_leaves Hn2). exact Hlv.
  - intros Hnil. subst nodes'. inversion Hn2 as [E|]. exact (Hne (eq_sym E)).
  - apply (Forall2_Forall nstep (fun n => node_ok P n /\ node_good n) (node_ok P) _ _ (nstep_ok P) Hn2).
    rewrite Forall_forall in *. intros n Hn. split; [apply Hnd | apply Hgn]; exact Hn.
  - exact (Forall2_Forall ostep ogood ogood _ _ ostep_good Hc2 Hgc).
  - exact Hroot.
  - exact (Forall2_Forall nstep node_good node_good _ _ nstep_good Hn2 Hgn).
Qed.

Lemma Inv_offload_n P h needed level : Inv P h -> Inv P (fst (h_offload F offload mem h needed level)).
Proof.
  intros HI. pose proof HI as [_ _ _ _ _ _ Hgr Hgn]. unfold h_offload.
  destruct (off_children F offload mem (h_nodes h) (1 <=? level) needed (h_children h) 0 0%N [])
    as [[[ch fr1] ps] st1] eqn:Ec.
  pose proof (off_children_ostep _ _ _ _ _ _ _ _ _ _ _ Ec) as Hc2.
  destruct (st1 || (level <? 1)).
  - cbn [fst]. apply Inv_offstep with (h := h); [exact HI | exact Hc2 | apply Forall2_refl, nstep_refl | exact Hgr].
  - destruct (off_nodes F offload mem needed (h_nodes h) 0 ps fr1) as [[[nodes fr2] visited] st2] eqn:En.
    pose proof (off_nodes_nstep _ _ _ _ _ _ _ _ _ En) as Hn2.
    destruct (h_wrapped h).
    + destruct (st2 || negb visited || N.leb needed fr2); cbn [fst];
        (apply Inv_offstep with (h := h); [exact HI | exact Hc2 | exact Hn2 |]); [exact Hgr | apply ogood_offload, Hgr].
    + cbn [fst]. apply Inv_offstep with (h := h); [exact HI | exact Hc2 | exact Hn2 |].
      pose proof (Forall2_Forall nstep node_good node_good _ _ nstep_good Hn2 Hgn) as Hgn'.
      destruct nodes as [|n0 [|n1 t]]; try exact Hgr. inversion Hgn'; assumption.
Qed.

(* ---------- steps and runs ---------- *)

Lemma Inv_step P h o :
  Forall good (pushed_of o) -> Inv P h -> Inv (P ++ pushed_of o) (h_step F merge offload mem h o).
Proof.
  intros Hgo HI. destruct o as [f| |i| |needed level]; cbn [h_step pushed_of] in *; rewrite ?app_nil_r.
  - apply Inv_push; [inversion Hgo; assumption | exact HI].
  - apply Inv_pop; exact HI.
  - apply Inv_remove; exact HI.
  - apply Inv_offload; exact HI.
  - apply Inv_offload_n; exact HI.
Qed.

Lemma Inv_fold ops : forall P h, Forall good (pushed ops) -> Inv P h ->
  Inv (P ++ pushed ops) (fold_left (h_step F merge offload mem) ops h).
Proof.
  induction ops as [|o r IH]; intros P h Hg HI.
  - cbn. rewrite app_nil_r. exact HI.
  - rewrite pushed_cons in Hg. apply Forall_app in Hg. destruct Hg as [Hgo Hgr].
    rewrite pushed_cons, app_assoc. cbn [fold_left]. apply IH; [exact Hgr|]. apply Inv_step; [exact Hgo | exact HI].
Qed.

Theorem Inv_run group ops : Forall good (pushed ops) -> Inv (pushed ops) (run_h group ops).
Proof.
  intros Hg. unfold run_h. change (pushed ops) with ([] ++ pushed ops). apply Inv_fold; [exact Hg | apply Inv_new].
Qed.

(* ---------- completeness of the iterator, from the invariant ---------- *)

Lemma Inv_iter_complete P h c f k :
  Inv P h -> nth_error P c = Some f -> present h c = true -> contains f k = true ->
  In c (iter_possible key F contains h k).
Proof.
  intros [Hlen Hch Hlv Hne Hnd _ _ _] Hp Hpres Hk.
  assert (Hc : c < length P). { apply nth_error_Some. rewrite Hp. discriminate. }
  assert (Hin : In c (concat (map hn_leaves (h_nodes h)))).
  { rewrite Hlv. apply in_seq. lia. }
  apply in_concat in Hin. destruct Hin as [lv [Hlvin Hcin]].
  apply in_map_iff in Hlvin. destruct Hlvin as [n [<- Hn]].
  unfold iter_possible. apply in_flat_map. exists n. split; [exact Hn|].
  rewrite Forall_forall in Hnd. pose proof (Hnd n Hn c f Hcin Hp) as Hcov.
  assert (Hpass : node_passes key F contains h n k = true).
  { unfold node_passes. destruct (h_wrapped h); [|reflexivity].
    destruct (hn_filter n) as [g|]; [|reflexivity]. cbn in Hcov. apply Hcov, Hk. }
  rewrite Hpass. apply filter_In. split; assumption.
Qed.

(* MAIN: no false negative of the hierarchy. After ANY sequence of push / pop / remove / offload (all pushed filters
   being good), every child that is still present and whose own filter (as it was when pushed) answers "maybe" for k
   is produced by the iterator. (The hypothesis 0 < group is not needed by the proof; it is kept as in the claim.) *)
Theorem iter_complete : forall group ops c f k,
  0 < group -> Forall good (pushed ops) ->
  nth_error (pushed ops) c = Some f -> present (run_h group ops) c = true -> contains f k = true ->
  In c (iter_possible key F contains (run_h group ops) k).
Proof.
  intros group ops c f k _ Hgood Hp Hpres Hk.
  eapply Inv_iter_complete; [apply Inv_run; exact Hgood | exact Hp | exact Hpres | exact Hk].
Qed.

Corollary check_filter_fast_conservative : forall group ops c f k,
  0 < group -> Forall good (pushed ops) ->
  nth_error (pushed ops) c = Some f -> present (run_h group ops) c = true -> contains f k = true ->
  iter_possible key F contains (run_h group ops) k <> [].
Proof.
  intros group ops c f k Hg Hgood Hp Hpres Hk Hnil.
  pose proof (iter_complete group ops c f k Hg Hgood Hp Hpres Hk) as Hin. rewrite Hnil in Hin. destruct Hin.
Qed.

(* the child's own stored filter (possibly offloaded since) still covers the filter it was pushed with *)
Theorem child_filter_sound : forall group ops c f g k,
  Forall good (pushed ops) ->
  nth_error (pushed ops) c = Some f -> nth_error (h_children (run_h group ops)) c = Some (Some g) ->
  contains f k = true -> contains g k = true.
Proof.
  intros group ops c f g k Hgood Hp Hc Hk. destruct (Inv_run group ops Hgood) as [_ Hch _ _ _ _ _ _].
  exact (Hch c g f Hc Hp k Hk).
Qed.

(* every filter stored in the hierarchy (child slots, node filters, root filter) is good *)
Theorem stored_filters_good : forall group ops,
  Forall good (pushed ops) ->
  Forall ogood (h_children (run_h group ops)) /\ ogood (h_root_filter (run_h group ops)) /\
  Forall node_good (h_nodes (run_h group ops)).
Proof.
  intros group ops Hgood. destruct (Inv_run group ops Hgood) as [_ _ _ _ _ Hgc Hgr Hgn]. auto.
Qed.

End HierProofs.

(* structural corollaries: every child id appears exactly once among the node leaves, in push order.
   Purely about the shape, so no soundness / goodness assumption on the filter operations is needed: the invariant is
   instantiated with the trivial filter semantics (contains := always "maybe", good := everything). *)
Theorem leaves_exact : forall (F : Type) (merge : F -> F -> option F) (offload : F -> F) (mem : F -> N) group ops,
  concat (map hn_leaves (h_nodes (run_h F merge offload mem group ops))) = seq 0 (length (pushed F ops)) /\
  length (h_children (run_h F merge offload mem group ops)) = length (pushed F ops).
Proof.
  intros F merge offload mem group ops.
  assert (Hall : forall l : list F, Forall (fun _ => True) l).
  { intros l. apply Forall_forall. intros x _. exact I. }
  destruct (Inv_run unit F (fun _ _ => true) merge offload mem (fun _ => True)
              (fun _ _ _ _ _ _ _ _ => eq_refl) (fun _ _ _ _ _ _ => I) (fun _ _ _ _ => eq_refl) (fun _ _ => I)
              group ops (Hall _)) as [Hlen _ Hlv _ _ _ _ _].
  split; assumption.
Qed.

Print Assumptions iter_complete.
Print Assumptions check_filter_fast_conservative.
Print Assumptions child_filter_sound.
Print Assumptions stored_filters_good.
Print Assumptions leaves_exact.

(* Non-vacuity on a concrete instance: key := nat, F := list nat with membership, merge := append, offload := id,
   mem := length, good := everything; group = 2, five pushes with a pop, a remove, a full offload and two
   offload_buffer(needed, level) steps in between: children 0 and 3 are vacated, the iterator for key 7 yields exactly
   the present child pushed with a filter containing 7 (and whatever shares its node). *)
Module Sanity.
  Definition cont (f : list nat) (k : nat) : bool := existsb (Nat.eqb k) f.
  Definition mrg (a b : list nat) : option (list nat) := Some (a ++ b).
  Definition mm (f : list nat) : N := N.of_nat (length f).
  Definition ops : list (hop (list nat)) :=
    [HPush [1]; HPush [2]; HPush [7]; HRemove 0; HOffloadN 1 0; HPush [4]; HPop; HOffload; HOffloadN 100 1; HPush [5]].
  Example sanity_iter :
    iter_possible nat (list nat) cont (run_h (list nat) mrg id mm 2 ops) 7%nat = [2] /\
    iter_possible nat (list nat) cont (run_h (list nat) mrg id mm 2 ops) 5%nat = [4] /\
    iter_possible nat (list nat) cont (run_h (list nat) mrg id mm 2 ops) 1%nat = [1] /\
    pushed (list nat) ops = [[1]; [2]; [7]; [4]; [5]].
  Proof. vm_compute. repeat split. Qed.

  (* the early returns of offload_buffer: state = children [vacated; [2;3]; [7]], nodes [1;2;3] and [7], root [1;2;3;7].
     level 0 visits only the children and stops as soon as enough was freed; level 1 goes on with the touched nodes
     and then the root, freeing everything (= h_mem). *)
  Definition st3 : hier (list nat) := run_h (list nat) mrg id mm 2 [HPush [1]; HPush [2;3]; HPush [7]; HRemove 0].
  Example sanity_offload_freed :
    snd (h_offload (list nat) id mm st3 1 0) = 2%N /\ snd (h_offload (list nat) id mm st3 3 0) = 3%N /\
    snd (h_offload (list nat) id mm st3 100 0) = 3%N /\ snd (h_offload (list nat) id mm st3 4 1) = 6%N /\
    snd (h_offload (list nat) id mm st3 100 1) = 11%N /\ h_mem (list nat) mm st3 = 11%N.
  Proof. vm_compute. repeat split. Qed.

  (* the section hypotheses are satisfiable: the instance above with good := fun _ => True *)
  Definition gd (_ : list nat) : Prop := True.
  Lemma mrg_sound a b c k : gd a -> gd b -> mrg a b = Some c -> cont a k = true \/ cont b k = true -> cont c k = true.
  Proof.
    intros _ _ [= <-] H. unfold cont in *. rewrite existsb_app. apply orb_true_iff. exact H.
  Qed.
  Lemma gd_all (l : list (list nat)) : Forall gd l.
  Proof. apply Forall_forall. intros x _. exact I. Qed.
  Example sanity_iter_complete : forall group os c f k,
    0 < group -> nth_error (pushed (list nat) os) c = Some f ->
    present (run_h (list nat) mrg id mm group os) c = true -> cont f k = true ->
    In c (iter_possible nat (list nat) cont (run_h (list nat) mrg id mm group os) k).
  Proof.
    intros group os c f k Hg Hp Hpres Hk.
    exact (iter_complete nat (list nat) cont mrg id mm gd mrg_sound (fun _ _ _ _ _ _ => I) (fun _ _ _ H => H)
             (fun _ _ => I) group os c f k Hg (gd_all _) Hp Hpres Hk).
  Qed.
End Sanity.
