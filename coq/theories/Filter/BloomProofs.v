Require Import Pearl.Base.Prelude Pearl.Base.LE Pearl.Base.LEProofs Pearl.Generated.Pure Pearl.Filter.Bloom.

(* ---- characterisation of the generated (translated) bit arithmetic ---- *)
Lemma shiftl_1 n : N.shiftl 1 n = 2^n.
Proof. rewrite N.shiftl_mul_pow2. lia. Qed.

Lemma offset_and_mask_spec i : offset_and_mask i = (i / 64, 2^(i mod 64)).
Proof.
  unfold offset_and_mask. rewrite shiftl_1. f_equal.
  apply N.mod_small. apply N.pow_lt_mono_r; [lia|]. apply N.mod_lt; lia.
Qed.

Lemma offset_and_mask_u8_spec i : offset_and_mask_u8 i = (i / 8, 2^(i mod 8)).
Proof.
  unfold offset_and_mask_u8. rewrite shiftl_1, N.shiftr_div_pow2. change (2^3) with 8. f_equal.
  apply N.mod_small. apply N.pow_lt_mono_r; [lia|]. apply N.mod_lt; lia.
Qed.

Lemma land_pow2_testbit w n : negb (N.land w (2^n) =? 0) = N.testbit w n.
Proof.
  destruct (N.testbit w n) eqn:E.
  - apply negb_true_iff, N.eqb_neq. intros H.
    assert (N.testbit (N.land w (2^n)) n = false) by (rewrite H; apply N.bits_0).
    rewrite N.land_spec, E, N.pow2_bits_true in H0. discriminate.
  - apply negb_false_iff, N.eqb_eq. apply N.bits_inj. intros m.
    rewrite N.land_spec, N.bits_0, N.pow2_bits_eqb.
    destruct (N.eqb_spec n m) as [->|]; [rewrite E; reflexivity|apply andb_false_r].
Qed.

Lemma get_bit_u8_spec b i : get_bit_u8 b (2^i) = N.testbit b i.
Proof. unfold get_bit_u8. apply land_pow2_testbit. Qed.

Lemma items_count_spec bits : bits < 2^64 ->
  items_count bits = if 0 <? bits then (bits - 1) / 64 + 1 else 0.
Proof.
  intros H. unfold items_count. destruct (N.ltb_spec 0 bits) as [Hp|]; [|reflexivity].
  replace ((bits + 2^64 - 1) mod 2^64) with (bits - 1).
  - apply N.mod_small. assert ((bits - 1) / 64 <= bits - 1) by (apply N.div_le_upper_bound; lia). lia.
  - replace (bits + 2^64 - 1) with ((bits - 1) + 1 * 2^64) by lia.
    rewrite N.mod_add by lia. symmetry; apply N.mod_small; lia.
Qed.

Lemma items_count_covers bits i : bits < 2^64 -> i < bits -> i / 64 < items_count bits.
Proof.
  intros Hb Hi. rewrite items_count_spec by assumption.
  destruct (N.ltb_spec 0 bits); [|lia].
  assert (i / 64 <= (bits - 1) / 64) by (apply N.div_le_mono; lia). lia.
Qed.

(* ---- bit vector ---- *)
Definition bv_wf (v : bitvec) : Prop :=
  bv_bits v < 2^64 /\ length (bv_words v) = N.to_nat (items_count (bv_bits v)).

Lemma bv_get_spec v i : bv_get v i = N.testbit (nthN (bv_words v) (i / 64)) (i mod 64).
Proof. unfold bv_get. rewrite offset_and_mask_spec. apply land_pow2_testbit. Qed.

Lemma bv_new_wf bits : bits < 2^64 -> bv_wf (bv_new bits).
Proof. intros H; split; cbn; [assumption|apply repeat_length]. Qed.

Lemma bv_set_wf v i : bv_wf v -> bv_wf (bv_set v i).
Proof.
  intros [H1 H2]. unfold bv_set. rewrite offset_and_mask_spec. split; cbn; [assumption|].
  rewrite updN_length; assumption.
Qed.

Lemma bv_set_bits v i : bv_bits (bv_set v i) = bv_bits v.
Proof. unfold bv_set. rewrite offset_and_mask_spec. reflexivity. Qed.

Lemma bv_get_set_same v i : bv_wf v -> i < bv_bits v -> bv_get (bv_set v i) i = true.
Proof.
  intros [Hb Hl] Hi. rewrite bv_get_spec. unfold bv_set. rewrite offset_and_mask_spec. cbn [bv_words].
  unfold nthN. rewrite nth_updN_same.
  - rewrite N.lor_spec, N.pow2_bits_true. apply orb_true_r.
  - rewrite Hl. pose proof (items_count_covers _ _ Hb Hi). lia.
Qed.

Lemma bv_get_set_mono v j i : bv_get v i = true -> bv_get (bv_set v j) i = true.
Proof.
  rewrite !bv_get_spec. unfold bv_set. rewrite offset_and_mask_spec. cbn [bv_words]. unfold nthN.
  intros H. destruct (Nat.eq_dec (N.to_nat (j / 64)) (N.to_nat (i / 64))) as [E|E].
  - rewrite E. destruct (Nat.lt_ge_cases (N.to_nat (i / 64)) (length (bv_words v))) as [Hl|Hl].
    + rewrite nth_updN_same by assumption. rewrite N.lor_spec, H. reflexivity.
    + rewrite nth_overflow in H by assumption. rewrite N.bits_0 in H. discriminate.
  - rewrite nth_updN_other by assumption. exact H.
Qed.

Lemma or_words_nth a b i : length a = length b ->
  nth i (or_words a b) 0 = N.lor (nth i a 0) (nth i b 0).
Proof.
  revert b i; induction a as [|x a IH]; intros [|y b] i H; try discriminate.
  - destruct i; reflexivity.
  - destruct i; cbn; [reflexivity|]. apply IH. cbn in H; lia.
Qed.

Lemma bv_or_get a b v i : bv_wf a -> bv_wf b -> bv_or a b = Some v ->
  bv_get v i = bv_get a i || bv_get b i.
Proof.
  intros [Ha1 Ha2] [Hb1 Hb2]. unfold bv_or. destruct (N.eqb_spec (bv_bits a) (bv_bits b)) as [E|]; [|discriminate].
  intros [= <-]. rewrite !bv_get_spec. cbn [bv_words]. unfold nthN.
  rewrite or_words_nth by congruence. apply N.lor_spec.
Qed.

(* ---- Bloom: no false negatives, for every hash family ---- *)
Section Hash.
Context {key : Type}.
Variable hash : N -> key -> N.

Definition bloom_wf (b : bloom) : Prop :=
  match bl_inner b with Some v => bv_wf v /\ bv_bits v = bl_bits b | None => bl_bits b < 2^64 end.

Definition bits_set (v : bitvec) (ids : list N) (k : key) : Prop :=
  forall i, In i ids -> bv_get v (hash i k mod bv_bits v) = true.

Lemma fold_set_wf ids v (f : N -> N) : bv_wf v -> bv_wf (fold_left (fun v i => bv_set v (f i)) ids v).
Proof. revert v; induction ids as [|i r IH]; intros v H; cbn [fold_left]; [assumption|]. apply IH, bv_set_wf, H. Qed.

Lemma fold_set_bits ids v (f : N -> N) : bv_bits (fold_left (fun v i => bv_set v (f i)) ids v) = bv_bits v.
Proof. revert v; induction ids as [|i r IH]; intros v; cbn [fold_left]; [reflexivity|]. rewrite IH. apply bv_set_bits. Qed.

Lemma fold_set_mono ids v (f : N -> N) j : bv_get v j = true ->
  bv_get (fold_left (fun v i => bv_set v (f i)) ids v) j = true.
Proof. revert v; induction ids as [|i r IH]; intros v H; cbn [fold_left]; [assumption|]. apply IH, bv_get_set_mono, H. Qed.

Lemma fold_set_sets ids v (f : N -> N) i : bv_wf v -> In i ids -> f i < bv_bits v ->
  bv_get (fold_left (fun v i => bv_set v (f i)) ids v) (f i) = true.
Proof.
  revert v; induction ids as [|j r IH]; intros v Hwf Hin Hlt; [contradiction|]. cbn [fold_left].
  destruct Hin as [->|Hin].
  - apply fold_set_mono, bv_get_set_same; assumption.
  - apply IH; [apply bv_set_wf; assumption|assumption|rewrite bv_set_bits; assumption].
Qed.

Lemma bloom_add_wf b k : bloom_wf b -> bloom_wf (bloom_add hash b k).
Proof.
  unfold bloom_wf, bloom_add. destruct (bl_inner b) as [v|] eqn:E; [|rewrite E; auto].
  intros [Hwf Hb]. destruct (bv_bits v =? 0); [rewrite E; auto|]. cbn.
  split; [apply (fold_set_wf _ _ (fun i => hash i k mod bv_bits v)); assumption
        |rewrite (fold_set_bits _ _ (fun i => hash i k mod bv_bits v)); assumption].
Qed.

(* a key that was added is never reported NotContains by the in-memory probe *)
Definition mem_maybe (b : bloom) (k : key) : Prop :=
  bloom_contains_in_memory hash b k <> Some NotContains.

Definition all_set (b : bloom) (k : key) : Prop :=
  match bl_inner b with
  | Some v => bv_bits v = 0 \/ bits_set v (hasher_ids b) k
  | None => True
  end.

Lemma all_set_maybe b k : all_set b k -> mem_maybe b k.
Proof.
  unfold all_set, mem_maybe, bloom_contains_in_memory. destruct (bl_inner b) as [v|]; [|discriminate].
  intros [H0|Hs].
  - rewrite H0. cbn. discriminate.
  - destruct (bv_bits v =? 0); [discriminate|].
    replace (forallb _ _) with true; [discriminate|]. symmetry. apply forallb_forall. exact Hs.
Qed.

Lemma bloom_add_sets b k : bloom_wf b -> all_set (bloom_add hash b k) k.
Proof.
  unfold bloom_wf, all_set, bloom_add. destruct (bl_inner b) as [v|] eqn:E; [|rewrite E; exact (fun _ => I)].
  intros [Hwf Hb]. destruct (N.eqb_spec (bv_bits v) 0) as [H0|H0]; [rewrite E; left; assumption|].
  cbn. right. intros i Hi. rewrite (fold_set_bits _ _ (fun i => hash i k mod bv_bits v)).
  apply (fold_set_sets (hasher_ids b) v (fun i => hash i k mod bv_bits v) i Hwf Hi).
  apply N.mod_lt; assumption.
Qed.

Lemma bloom_add_preserves b k k' : all_set b k -> all_set (bloom_add hash b k') k.
Proof.
  unfold all_set, bloom_add. destruct (bl_inner b) as [v|] eqn:E; [|rewrite E; auto].
  destruct (N.eqb_spec (bv_bits v) 0) as [H0|H0]; [rewrite E; auto|]. cbn.
  intros [H|H]; [contradiction|]. right. intros i Hi.
  rewrite (fold_set_bits _ _ (fun i => hash i k' mod bv_bits v)).
  apply (fold_set_mono _ _ (fun i => hash i k' mod bv_bits v)), H, Hi.
Qed.

Theorem bloom_no_false_negative b ks k :
  bloom_wf b -> In k ks -> mem_maybe (fold_left (bloom_add hash) ks b) k.
Proof.
  intros Hwf Hin. apply all_set_maybe. revert b Hwf Hin.
  induction ks as [|k' r IH]; intros b Hwf Hin; [contradiction|]. cbn.
  destruct Hin as [->|Hin].
  - clear IH. assert (H : all_set (bloom_add hash b k) k) by (apply bloom_add_sets; assumption).
    revert H. generalize (bloom_add hash b k). induction r as [|x r IH]; intros b' H; cbn; [assumption|].
    apply IH, bloom_add_preserves, H.
  - apply IH; [apply bloom_add_wf; assumption|assumption].
Qed.

(* contains_fast, used by the hierarchy and check_filter_fast, is conservative *)
Corollary bloom_fast_no_false_negative b ks k :
  bloom_wf b -> In k ks -> bloom_contains_fast hash (fold_left (bloom_add hash) ks b) k = NeedAdditionalCheck.
Proof.
  intros Hwf Hin. pose proof (bloom_no_false_negative b ks k Hwf Hin) as H.
  unfold mem_maybe, bloom_contains_fast in *. destruct (bloom_contains_in_memory _ _ _) as [[|]|]; congruence.
Qed.

(* merge: the union of what both sides answer "maybe" for *)
Lemma bloom_merge_all_set a b m k : bloom_wf a -> bloom_wf b -> bloom_merge a b = Some m ->
  all_set a k \/ all_set b k -> all_set m k.
Proof.
  unfold bloom_wf, bloom_merge, all_set.
  destruct (N.eqb_spec (bl_hashers a) (bl_hashers b)) as [Eh|]; [|discriminate]. cbn [negb].
  destruct (bl_inner a) as [va|]; [|discriminate]. destruct (bl_inner b) as [vb|]; [|discriminate].
  intros [Hwa Hba] [Hwb Hbb]. destruct (N.eqb_spec (bv_bits va) (bv_bits vb)) as [Eb|]; [|discriminate].
  destruct (bv_or va vb) as [v|] eqn:Eor; [|discriminate]. intros [= <-]. cbn.
  assert (Hbits : bv_bits v = bv_bits va).
  { unfold bv_or in Eor. destruct (bv_bits va =? bv_bits vb); [|discriminate]. injection Eor as <-. reflexivity. }
  unfold bits_set, hasher_ids in *. cbn [bl_hashers].
  intros [[H|H]|[H|H]]; try (left; congruence); right; intros i Hi;
    rewrite (bv_or_get va vb v _ Hwa Hwb Eor), Hbits.
  - rewrite (H i Hi). reflexivity.
  - rewrite Eb. rewrite Eh in Hi. rewrite (H i Hi). apply orb_true_r.
Qed.

(* ---- the off-loaded probe reads exactly the bits the in-memory probe reads ---- *)
Definition file_of (bs : bytes) : N -> option N := fun i => nth_error bs (N.to_nat i).

Lemma flat_le64_length ws : length (flat_map le64 ws) = (8 * length ws)%nat.
Proof.
  induction ws as [|w r IH]; cbn [flat_map length]; [reflexivity|].
  rewrite app_length, IH. unfold le64. rewrite le_bytes_length. lia.
Qed.

Lemma flat_le64_nth ws i d : (i < 8 * length ws)%nat ->
  nth i (flat_map le64 ws) d = nth (i mod 8) (le64 (nth (i / 8) ws 0)) d.
Proof.
  revert i; induction ws as [|w r IH]; intros i Hi; cbn [length] in Hi; [lia|].
  cbn [flat_map]. destruct (Nat.lt_ge_cases i 8) as [Hlt|Hge].
  - rewrite app_nth1 by (unfold le64; rewrite le_bytes_length; lia).
    rewrite Nat.div_small, Nat.mod_small by lia. reflexivity.
  - rewrite app_nth2 by (unfold le64; rewrite le_bytes_length; lia).
    unfold le64 at 1. rewrite le_bytes_length. rewrite IH by lia.
    replace i with ((i - 8) + 1 * 8)%nat at 3 4 by lia.
    rewrite Nat.div_add, Nat.mod_add by lia. replace ((i - 8) / 8 + 1)%nat with (S ((i - 8) / 8)) by lia.
    reflexivity.
Qed.

Lemma nth_error_skip2 {A} (a b c d : list A) i : (i < length c)%nat ->
  nth_error (a ++ b ++ c ++ d) (length a + (length b + i)) = nth_error c i.
Proof.
  intros H. rewrite nth_error_app2 by lia.
  replace (length a + (length b + i) - length a)%nat with (length b + i)%nat by lia.
  rewrite nth_error_app2 by lia. replace (length b + i - length b)%nat with i by lia.
  apply nth_error_app1; assumption.
Qed.

Lemma bv_to_raw_nz v : bv_bits v <> 0 -> bv_to_raw v = bv_words v.
Proof. intros H. unfold bv_to_raw. destruct (N.eqb_spec (bv_bits v) 0); [contradiction|reflexivity]. Qed.

Lemma raw_byte_bit b v raw idx :
  bl_inner b = Some v -> bv_wf v -> idx < bv_bits v -> bloom_to_raw b = Some raw ->
  exists byte, file_of raw (buffer_start_position b + idx / 8) = Some byte /\
               N.testbit byte (idx mod 8) = bv_get v idx.
Proof.
  intros Hin [Hb Hl] Hidx. unfold bloom_to_raw. rewrite Hin. intros Hraw.
  apply (f_equal (fun o => match o with Some x => x | None => [] end)) in Hraw. subst raw.
  rewrite bv_to_raw_nz by lia.
  set (ws := bv_words v) in *.
  pose proof (items_count_covers _ _ Hb Hidx) as Hcov.
  assert (Hbyte : (N.to_nat (idx / 8) < 8 * length ws)%nat).
  { rewrite Hl. assert (idx / 8 < 8 * (idx / 64 + 1)).
    { pose proof (N.div_mod idx 64 ltac:(lia)). pose proof (N.mod_lt idx 64 ltac:(lia)).
      apply N.div_lt_upper_bound; lia. }
    lia. }
  exists (nth (N.to_nat (idx / 8)) (flat_map le64 ws) 0). split.
  - unfold file_of, buffer_start_position.
    assert (Hfl : length (flat_map le64 ws) = (8 * length ws)%nat)
      by apply flat_le64_length.
    set (lenb := le64 (N.of_nat (length ws))).
    replace (N.to_nat (N.of_nat (length (bl_cfg b)) + 8 + idx / 8))
      with (length (bl_cfg b) + (length lenb + N.to_nat (idx / 8)))%nat
      by (unfold lenb, le64; rewrite le_bytes_length; lia).
    rewrite nth_error_skip2 by lia.
    apply nth_error_nth'. lia.
  - rewrite flat_le64_nth by assumption. unfold le64.
    rewrite le_bytes_testbit; [|apply Nat.mod_upper_bound; lia|apply N.mod_lt; lia].
    rewrite bv_get_spec. unfold nthN. fold ws.
    replace (N.to_nat (idx / 8) / 8)%nat with (N.to_nat (idx / 64)).
    + f_equal. 
      replace (N.of_nat (N.to_nat (idx / 8) mod 8)) with ((idx / 8) mod 8).
      * pose proof (N.div_mod idx 8 ltac:(lia)). pose proof (N.div_mod (idx / 8) 8 ltac:(lia)).
        pose proof (N.mod_lt idx 8 ltac:(lia)). pose proof (N.mod_lt (idx/8) 8 ltac:(lia)).
        pose proof (N.div_mod idx 64 ltac:(lia)). pose proof (N.mod_lt idx 64 ltac:(lia)).
        assert (idx / 8 / 8 = idx / 64) by (rewrite N.div_div by lia; reflexivity). lia.
      * change 8%nat with (N.to_nat 8). rewrite <- N2Nat.inj_mod. lia.
    + change 8%nat with (N.to_nat 8). rewrite <- N2Nat.inj_div. f_equal. rewrite N.div_div by lia. reflexivity.
Qed.

Theorem file_probe_eq_memory_probe b v raw k :
  bl_inner b = Some v -> bloom_wf b -> bloom_to_raw b = Some raw -> bl_bits b <> 0 ->
  bloom_contains_in_file hash (file_of raw) (bloom_offload b) k = bloom_contains_in_memory hash b k.
Proof.
  intros Hin Hwf Hraw Hnz. unfold bloom_wf in Hwf. rewrite Hin in Hwf. destruct Hwf as [Hwf Hbits].
  unfold bloom_contains_in_file, bloom_contains_in_memory. cbn [bloom_offload bl_bits]. rewrite Hin, Hbits.
  destruct (N.eqb_spec (bl_bits b) 0) as [|_]; [contradiction|].
  change (hasher_ids (bloom_offload b)) with (hasher_ids b).
  change (buffer_start_position (bloom_offload b)) with (buffer_start_position b).
  induction (hasher_ids b) as [|i r IH]; cbn [map contains_in_file_loop forallb]; [reflexivity|].
  rewrite offset_and_mask_u8_spec.
  assert (Hlt : hash i k mod bl_bits b < bv_bits v) by (rewrite Hbits; apply N.mod_lt; assumption).
  destruct (raw_byte_bit b v raw _ Hin Hwf Hlt Hraw) as [byte [Hf Ht]].
  rewrite Hf, get_bit_u8_spec, Ht. destruct (bv_get v _); cbn [andb]; [exact IH|reflexivity].
Qed.

End Hash.
