(* The combined filter (optional Bloom + key range) of Combined.v satisfies the hypotheses of HierProofs.v, for every
   hash family and key encoding: well-formedness `cf_wf` is preserved by new / add / merge / offload, an added key is
   never answered NotContains, merge answers "maybe" whenever one of its (well-formed) arguments does, offload only
   turns answers into "maybe". Composite result: `hier_no_false_negative` (and its key-level corollary). *)
Require Import Pearl.Base.Prelude Pearl.Base.LE Pearl.Filter.Bloom Pearl.Filter.BloomProofs Pearl.Index.Bytes
               Pearl.Filter.Combined Pearl.Filter.Hier Pearl.Filter.HierProofs.

(* ---------- bit vector / bloom: well-formedness of merge, offload, new ---------- *)

Lemma or_words_length a b : length (or_words a b) = length a.
Proof.
  revert b; induction a as [|x a IH]; intros [|y b]; cbn [or_words length]; try reflexivity.
  rewrite IH. reflexivity.
Qed.

Lemma bloom_new_wf bits hashers cfg : bits < 2^64 -> bloom_wf (bloom_new bits hashers cfg).
Proof. intros Hb. unfold bloom_wf, bloom_new. cbn. split; [apply bv_new_wf; exact Hb | reflexivity]. Qed.

Lemma bloom_offload_wf b : bloom_wf b -> bloom_wf (bloom_offload b).
Proof.
  unfold bloom_wf, bloom_offload. cbn. destruct (bl_inner b) as [v|]; [|auto].
  intros [[Hlt _] Hb]. rewrite <- Hb. exact Hlt.
Qed.

Lemma bloom_merge_wf a b m : bloom_wf a -> bloom_wf b -> bloom_merge a b = Some m -> bloom_wf m.
Proof.
  unfold bloom_wf, bloom_merge.
  destruct (negb (bl_hashers a =? bl_hashers b)); [discriminate|].
  destruct (bl_inner a) as [va|]; [|discriminate]. destruct (bl_inner b) as [vb|]; [|discriminate].
  intros [[Ha1 Ha2] Hba] _. destruct (bv_bits va =? bv_bits vb); [|discriminate].
  unfold bv_or. destruct (bv_bits va =? bv_bits vb); [|discriminate].
  intros [= <-]. cbn. split; [split|]; cbn.
  - exact Ha1.
  - rewrite or_words_length. exact Ha2.
  - exact Hba.
Qed.

(* ---------- the fast probe answers "maybe" exactly when all probed bits are set ---------- *)
Section Maybe.
Context {key : Type}.
Variable hash : N -> key -> N.

(* converse of all_set_maybe *)
Lemma maybe_all_set b k : mem_maybe hash b k -> all_set hash b k.
Proof.
  unfold all_set, mem_maybe, bloom_contains_in_memory. destruct (bl_inner b) as [v|]; [|intros; exact I].
  destruct (N.eqb_spec (bv_bits v) 0) as [H0|H0]; [intros _; left; exact H0|].
  destruct (forallb (fun i => bv_get v (hash i k mod bv_bits v)) (hasher_ids b)) eqn:Ef.
  - intros _. right. intros i Hi. rewrite forallb_forall in Ef. exact (Ef i Hi).
  - intros Hc. exfalso. apply Hc. reflexivity.
Qed.

Lemma fast_all_set b k : bloom_contains_fast hash b k = NeedAdditionalCheck <-> all_set hash b k.
Proof.
  split.
  - intros Hf. apply maybe_all_set. unfold mem_maybe. unfold bloom_contains_fast in Hf.
    destruct (bloom_contains_in_memory hash b k) as [[|]|]; congruence.
  - intros Ha. apply all_set_maybe in Ha. unfold mem_maybe in Ha. unfold bloom_contains_fast.
    destruct (bloom_contains_in_memory hash b k) as [[|]|]; congruence.
Qed.

Lemma bloom_offload_all_set b k : all_set hash (bloom_offload b) k.
Proof. unfold all_set, bloom_offload. cbn. exact I. Qed.

Lemma fold_add_wf ks : forall b, bloom_wf b -> bloom_wf (fold_left (bloom_add hash) ks b).
Proof.
  induction ks as [|k r IH]; intros b Hwf; cbn [fold_left]; [exact Hwf|]. apply IH, bloom_add_wf, Hwf.
Qed.
End Maybe.

(* ---------- key range ---------- *)
Local Ltac fin := repeat split; try reflexivity; try assumption; try lia.

Lemma range_contains_iff r k :
  range_contains r k = true <-> rg_init r = true /\ rg_min r <= k /\ k <= rg_max r.
Proof.
  unfold range_contains. rewrite !andb_true_iff, !N.leb_le. tauto.
Qed.

(* RangeFilter invariant: an initialised range is non-empty. NEEDED: without it `range_add` may leave the added key
   outside (see range_add_needs_wf below: {min 5, max 2} + 3 = {min 3, max 2}). *)
Definition range_wf (r : range) : Prop := rg_init r = true -> rg_min r <= rg_max r.

Lemma range_empty_wf : range_wf range_empty.
Proof. intros H. discriminate H. Qed.

Lemma range_add_wf r k : range_wf r -> range_wf (range_add r k).
Proof.
  unfold range_wf, range_add. destruct r as [mn mx ini]. cbn [rg_init rg_min rg_max]. intros Hwf.
  destruct ini; cbn [negb rg_init rg_min rg_max]; [|intros _; lia]. specialize (Hwf eq_refl).
  destruct (N.ltb_spec k mn) as [H1|H1]; cbn [rg_init rg_min rg_max]; [intros _; lia|].
  destruct (N.ltb_spec mx k) as [H2|H2]; cbn [rg_init rg_min rg_max]; intros _; lia.
Qed.

Lemma range_merge_wf a b : range_wf a -> range_wf b -> range_wf (range_merge a b).
Proof.
  unfold range_wf, range_merge. intros Ha Hb.
  destruct (rg_init b) eqn:Eb; [|exact Ha]. specialize (Hb eq_refl).
  destruct (rg_init a) eqn:Ea; cbn [negb]; [|intros _; exact Hb]. specialize (Ha eq_refl).
  cbn [rg_init rg_min rg_max]. intros _.
  destruct (N.ltb_spec (rg_min b) (rg_min a)) as [H1|H1]; destruct (N.ltb_spec (rg_max a) (rg_max b)) as [H2|H2]; lia.
Qed.

Lemma range_add_self r k : range_wf r -> range_contains (range_add r k) k = true.
Proof.
  intros Hwf. apply range_contains_iff. unfold range_wf, range_add in *. destruct r as [mn mx ini].
  cbn [rg_init rg_min rg_max] in *.
  destruct ini; cbn [negb rg_init rg_min rg_max]; [|fin]. specialize (Hwf eq_refl).
  destruct (N.ltb_spec k mn) as [H1|H1]; cbn [rg_init rg_min rg_max]; [fin|].
  destruct (N.ltb_spec mx k) as [H2|H2]; cbn [rg_init rg_min rg_max]; fin.
Qed.

Example range_add_needs_wf :
  range_contains (range_add {| rg_min := 5; rg_max := 2; rg_init := true |} 3) 3 = false.
Proof. reflexivity. Qed.

Lemma range_add_mono r k k' : range_contains r k = true -> range_contains (range_add r k') k = true.
Proof.
  rewrite !range_contains_iff. unfold range_add. destruct r as [mn mx ini]. cbn [rg_init rg_min rg_max].
  intros [Hi [Hmn Hmx]]. subst ini. cbn [negb].
  destruct (N.ltb_spec k' mn) as [H1|H1]; cbn [rg_init rg_min rg_max]; [fin|].
  destruct (N.ltb_spec mx k') as [H2|H2]; cbn [rg_init rg_min rg_max]; fin.
Qed.

Lemma range_merge_l a b k : range_contains a k = true -> range_contains (range_merge a b) k = true.
Proof.
  rewrite !range_contains_iff. unfold range_merge. intros [Hi [Hmn Hmx]]. rewrite Hi. cbn [negb].
  destruct (rg_init b); [|fin]. cbn [rg_init rg_min rg_max].
  destruct (N.ltb_spec (rg_min b) (rg_min a)) as [H1|H1]; destruct (N.ltb_spec (rg_max a) (rg_max b)) as [H2|H2]; fin.
Qed.

Lemma range_merge_r a b k : range_contains b k = true -> range_contains (range_merge a b) k = true.
Proof.
  rewrite !range_contains_iff. unfold range_merge. intros [Hi [Hmn Hmx]]. rewrite Hi.
  destruct (rg_init a); cbn [negb]; [|fin]. cbn [rg_init rg_min rg_max].
  destruct (N.ltb_spec (rg_min b) (rg_min a)) as [H1|H1]; destruct (N.ltb_spec (rg_max a) (rg_max b)) as [H2|H2]; fin.
Qed.

Lemma fold_range_add_wf ks : forall r, range_wf r -> range_wf (fold_left range_add ks r).
Proof.
  induction ks as [|k t IH]; intros r Hwf; cbn [fold_left]; [exact Hwf|]. apply IH, range_add_wf, Hwf.
Qed.

Lemma fold_range_add_contains ks : forall r k,
  range_wf r -> In k ks -> range_contains (fold_left range_add ks r) k = true.
Proof.
  assert (Hmono : forall ks r k, range_contains r k = true -> range_contains (fold_left range_add ks r) k = true).
  { intros ks0. induction ks0 as [|k' t IH]; intros r k Hr; cbn [fold_left]; [exact Hr|].
    apply IH, range_add_mono, Hr. }
  induction ks as [|k' t IH]; intros r k Hwf Hin; [destruct Hin|]. cbn [fold_left].
  destruct Hin as [->|Hin]; [apply Hmono, range_add_self, Hwf | apply IH; [apply range_add_wf, Hwf | exact Hin]].
Qed.

(* ---------- the combined filter ---------- *)
Section CombinedProofs.
Variable hash : N -> bytes -> N.
Variable kbytes : N -> bytes.

(* well-formed combined filter: the bloom (if any) is well formed AND the range is (initialised => min <= max).
   The range half is necessary for cf_add_contains: see cf_add_contains_needs_range_wf at the end of the section. *)
Definition cf_bloom_wf (f : combined) : Prop := match cf_bloom f with Some b => bloom_wf b | None => True end.
Definition cf_wf (f : combined) : Prop := cf_bloom_wf f /\ range_wf (cf_range f).

(* the bloom half of cf_contains, propositionally *)
Definition cf_bloom_maybe (f : combined) (k : N) : Prop :=
  match cf_bloom f with Some b => all_set hash b (kbytes k) | None => True end.

Lemma cf_contains_iff f k :
  cf_contains hash kbytes f k = true <-> range_contains (cf_range f) k = true /\ cf_bloom_maybe f k.
Proof.
  unfold cf_contains, cf_bloom_maybe. rewrite andb_true_iff. destruct (cf_bloom f) as [b|]; [|tauto].
  rewrite <- fast_all_set. destruct (bloom_contains_fast hash b (kbytes k)); split; intros [H1 H2]; split; auto; discriminate.
Qed.

(* --- well-formedness is preserved --- *)

Lemma cf_new_wf bits hashers cfg : bits < 2^64 -> cf_wf (cf_new (Some (bloom_new bits hashers cfg))).
Proof. intros Hb. split; [apply bloom_new_wf, Hb | apply range_empty_wf]. Qed.

Lemma cf_new_none_wf : cf_wf (cf_new None).
Proof. split; [exact I | apply range_empty_wf]. Qed.

Lemma cf_add_wf f k : cf_wf f -> cf_wf (cf_add hash kbytes f k).
Proof.
  intros [Hb Hr]. split; [|apply range_add_wf, Hr]. revert Hb.
  unfold cf_bloom_wf, cf_add. cbn [cf_bloom]. destruct (cf_bloom f) as [b|]; cbn [option_map]; [apply bloom_add_wf | auto].
Qed.

Lemma cf_fold_add_wf ks : forall f, cf_wf f -> cf_wf (fold_left (cf_add hash kbytes) ks f).
Proof.
  induction ks as [|k r IH]; intros f Hwf; cbn [fold_left]; [exact Hwf|]. apply IH, cf_add_wf, Hwf.
Qed.

Lemma cf_merge_wf a b c : cf_wf a -> cf_wf b -> cf_merge a b = Some c -> cf_wf c.
Proof.
  intros [Hx Hra] [Hy Hrb]. pose proof (range_merge_wf _ _ Hra Hrb) as Hr. revert Hx Hy.
  unfold cf_wf, cf_bloom_wf, cf_merge. destruct (cf_bloom a) as [x|]; destruct (cf_bloom b) as [y|]; try discriminate.
  - intros Hx Hy. destruct (bloom_merge x y) as [m|] eqn:Em; [|discriminate]. intros [= <-]. cbn.
    split; [exact (bloom_merge_wf x y m Hx Hy Em) | exact Hr].
  - intros _ _ [= <-]. cbn. split; [exact I | exact Hr].
Qed.

Lemma cf_offload_wf f : cf_wf f -> cf_wf (cf_offload f).
Proof.
  intros [Hb Hr]. split; [|exact Hr]. revert Hb.
  unfold cf_bloom_wf, cf_offload. cbn [cf_bloom]. destruct (cf_bloom f) as [b|]; cbn [option_map]; [apply bloom_offload_wf | auto].
Qed.

(* --- no false negative of add --- *)

Lemma cf_fold_add_range ks : forall f, cf_range (fold_left (cf_add hash kbytes) ks f) = fold_left range_add ks (cf_range f).
Proof. induction ks as [|k r IH]; intros f; cbn [fold_left]; [reflexivity|]. rewrite IH. reflexivity. Qed.

Lemma cf_fold_add_bloom ks : forall f,
  cf_bloom (fold_left (cf_add hash kbytes) ks f) =
  option_map (fun b => fold_left (bloom_add hash) (map kbytes ks) b) (cf_bloom f).
Proof.
  induction ks as [|k r IH]; intros f; cbn [fold_left map]; [destruct (cf_bloom f); reflexivity|].
  rewrite IH. unfold cf_add. cbn [cf_bloom]. destruct (cf_bloom f); reflexivity.
Qed.

Theorem cf_add_contains f ks k :
  cf_wf f -> In k ks -> cf_contains hash kbytes (fold_left (cf_add hash kbytes) ks f) k = true.
Proof.
  intros [Hwf Hrwf] Hin. apply cf_contains_iff. split.
  - rewrite cf_fold_add_range. apply fold_range_add_contains; [exact Hrwf | exact Hin].
  - unfold cf_bloom_maybe. rewrite cf_fold_add_bloom. unfold cf_bloom_wf in Hwf.
    destruct (cf_bloom f) as [b|]; cbn [option_map]; [|exact I].
    apply fast_all_set. apply bloom_fast_no_false_negative; [exact Hwf | apply in_map, Hin].
Qed.

(* --- merge and offload are sound --- *)

Theorem cf_merge_sound a b c k :
  cf_wf a -> cf_wf b -> cf_merge a b = Some c ->
  cf_contains hash kbytes a k = true \/ cf_contains hash kbytes b k = true -> cf_contains hash kbytes c k = true.
Proof.
  intros [Hwa _] [Hwb _] Hm Hor. rewrite !cf_contains_iff in *.
  assert (Hr : cf_range c = range_merge (cf_range a) (cf_range b)).
  { unfold cf_merge in Hm. destruct (cf_bloom a); destruct (cf_bloom b); try discriminate.
    - destruct (bloom_merge b0 b1); [|discriminate]. injection Hm as <-. reflexivity.
    - injection Hm as <-. reflexivity. }
  split.
  - rewrite Hr. destruct Hor as [[H _]|[H _]]; [apply range_merge_l | apply range_merge_r]; exact H.
  - unfold cf_bloom_maybe, cf_bloom_wf, cf_merge in *.
    destruct (cf_bloom a) as [x|]; destruct (cf_bloom b) as [y|]; try discriminate.
    + destruct (bloom_merge x y) as [m|] eqn:Em; [|discriminate]. injection Hm as <-. cbn [cf_bloom].
      apply (bloom_merge_all_set hash x y m (kbytes k) Hwa Hwb Em). destruct Hor as [[_ H]|[_ H]]; auto.
    + injection Hm as <-. exact I.
Qed.

Theorem cf_offload_sound f k : cf_contains hash kbytes f k = true -> cf_contains hash kbytes (cf_offload f) k = true.
Proof.
  rewrite !cf_contains_iff. intros [Hr _]. split; [exact Hr|].
  unfold cf_bloom_maybe, cf_offload. cbn [cf_bloom]. destruct (cf_bloom f) as [b|]; cbn [option_map]; [|exact I].
  apply bloom_offload_all_set.
Qed.

(* the range half of cf_wf cannot be dropped: a bloom-less filter with an inverted range loses the key it is given *)
Example cf_add_contains_needs_range_wf :
  let f := {| cf_bloom := None; cf_range := {| rg_min := 5; rg_max := 2; rg_init := true |} |} in
  cf_bloom_wf f /\ In 3 [3] /\ cf_contains hash kbytes (fold_left (cf_add hash kbytes) [3] f) 3 = false.
Proof. cbn zeta. split; [exact I|]. split; [left; reflexivity | reflexivity]. Qed.

(* ---------- the hierarchy over combined filters ---------- *)

(* `mem` (memory_allocated of a filter) only steers the early returns of offload_buffer(needed, level): arbitrary *)
Variable mem : combined -> N.

Definition cf_run (group : nat) (ops : list (hop combined)) : hier combined :=
  run_h combined cf_merge cf_offload mem group ops.

(* After any sequence of push / pop / remove / offload-all / offload_buffer(needed, level) whose pushed filters are
   well formed: a child that is still
   present and whose filter, as pushed, answers "maybe" for k is produced by iter_possible_childs for k. *)
Theorem hier_no_false_negative : forall group (ops : list (hop combined)) c f k,
  (0 < group)%nat -> Forall cf_wf (pushed combined ops) ->
  nth_error (pushed combined ops) c = Some f -> present combined (cf_run group ops) c = true ->
  cf_contains hash kbytes f k = true ->
  In c (iter_possible N combined (cf_contains hash kbytes) (cf_run group ops) k).
Proof.
  intros group ops c f k Hg Hwf Hp Hpres Hk. unfold cf_run.
  apply (iter_complete N combined (cf_contains hash kbytes) cf_merge cf_offload mem cf_wf) with (f := f); try assumption.
  - intros a b m k0. apply cf_merge_sound.
  - exact cf_merge_wf.
  - intros g k0 _. apply cf_offload_sound.
  - exact cf_offload_wf.
Qed.

(* key-level: the child was pushed with a filter built by adding keys ks (among them k) to a well-formed filter *)
Corollary hier_no_false_negative_keys : forall group (ops : list (hop combined)) c f0 ks k,
  (0 < group)%nat -> Forall cf_wf (pushed combined ops) ->
  nth_error (pushed combined ops) c = Some (fold_left (cf_add hash kbytes) ks f0) ->
  cf_wf f0 -> In k ks -> present combined (cf_run group ops) c = true ->
  In c (iter_possible N combined (cf_contains hash kbytes) (cf_run group ops) k).
Proof.
  intros group ops c f0 ks k Hg Hwf Hp Hwf0 Hin Hpres.
  eapply hier_no_false_negative; [exact Hg | exact Hwf | exact Hp | exact Hpres|].
  apply cf_add_contains; assumption.
Qed.

End CombinedProofs.

Print Assumptions cf_new_wf.
Print Assumptions cf_add_wf.
Print Assumptions cf_merge_wf.
Print Assumptions cf_offload_wf.
Print Assumptions cf_add_contains.
Print Assumptions cf_merge_sound.
Print Assumptions cf_offload_sound.
Print Assumptions hier_no_false_negative.
Print Assumptions hier_no_false_negative_keys.

Require Import Pearl.Base.AHash Pearl.Blob.Bytes.
(* ---------- the extracted instance (bloom_hash = the aHash fallback model, keys = big-endian K bytes) ---------- *)
Definition ch_run (K : N) (group : nat) (ops : list (hop combined)) : chier := fold_left (ch_step K) ops (ch_new group).

Lemma ch_run_eq K group ops : ch_run K group ops = cf_run cf_mem group ops.
Proof. reflexivity. Qed.

(* both the iterator (check_filter_fast, read paths) and the asynchronous check_filter are conservative *)
Theorem ch_no_false_negative : forall K group (ops : list (hop combined)) c f0 ks k,
  (0 < group)%nat -> Forall cf_wf (pushed combined ops) ->
  nth_error (pushed combined ops) c = Some (fold_left (cf_add bloom_hash (ckey_bytes K)) ks f0) ->
  cf_wf f0 -> In k ks -> present combined (ch_run K group ops) c = true ->
  In c (ch_iter K (ch_run K group ops) k) /\ ch_check K (ch_run K group ops) k = true.
Proof.
  intros K group ops c f0 ks k Hg Hwf Hp Hwf0 Hin Hpres.
  assert (Hit : In c (ch_iter K (ch_run K group ops) k)).
  { rewrite ch_run_eq in *. unfold ch_iter. eapply hier_no_false_negative_keys; eauto. }
  split; [exact Hit|].
  unfold ch_check. apply existsb_exists. exists c. split; [exact Hit|].
  unfold present in Hpres.
  destruct (nth_error (h_children combined (ch_run K group ops)) c) as [[g|]|] eqn:Eg; try discriminate.
  rewrite ch_run_eq in Eg. unfold cf_run in Eg.
  eapply (child_filter_sound N combined (cf_contains bloom_hash (ckey_bytes K)) cf_merge cf_offload cf_mem cf_wf);
    [| exact cf_merge_wf | | exact cf_offload_wf | exact Hwf | exact Hp | exact Eg |].
  - intros a b m k0. apply cf_merge_sound.
  - intros g0 k0 _. apply cf_offload_sound.
  - apply cf_add_contains; assumption.
Qed.

(* non-vacuity: a two-child history over 100-bit blooms, a removal and a bounded offload *)
Example ch_nonvacuous :
  let f0 := cf_new (Some (bloom_new 100 2 (repeat 0 40))) in
  let mk ks := fold_left (cf_add bloom_hash (ckey_bytes 4)) ks f0 in
  let ops := [HPush _ (mk [1; 7]); HPush _ (mk [9]); HPush _ (mk [7; 300]); HRemove _ 0; HOffloadN _ 16 1] in
  ch_iter 4 (ch_run 4 2 ops) 7 = [1; 2]%nat /\ ch_iter 4 (ch_run 4 2 ops) 300 = [2]%nat /\ ch_iter 4 (ch_run 4 2 ops) 5 = [] /\
  ch_check 4 (ch_run 4 2 ops) 300 = true.
Proof. vm_compute. repeat split. Qed.

Print Assumptions ch_no_false_negative.
