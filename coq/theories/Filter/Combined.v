(* Model of src/filter/combined.rs + range.rs: CombinedFilter = (Option<Bloom>, RangeFilter), keys are N
   (big-endian value of the key bytes, so that the order is the byte order) with their byte strings for hashing. *)
Require Import Pearl.Base.Prelude Pearl.Base.LE Pearl.Filter.Bloom Pearl.Index.Bytes.

Section Combined.
Variable hash : N -> bytes -> N.
Variable kbytes : N -> bytes.      (* the key's bytes (be_bytes K) *)

Record combined := { cf_bloom : option bloom; cf_range : range }.

Definition cf_new (b : option bloom) : combined := {| cf_bloom := b; cf_range := range_empty |}.

Definition cf_add (f : combined) (k : N) : combined :=
  {| cf_bloom := option_map (fun b => bloom_add hash b (kbytes k)) (cf_bloom f); cf_range := range_add (cf_range f) k |}.

(* contains_fast: range first, then the bloom filter (None / off-loaded / zero bits => "maybe") *)
Definition cf_contains (f : combined) (k : N) : bool :=
  range_contains (cf_range f) k &&
  match cf_bloom f with
  | Some b => match bloom_contains_fast hash b (kbytes k) with NeedAdditionalCheck => true | NotContains => false end
  | None => true
  end.

(* RangeFilterInner::merge_with *)
Definition range_merge (a b : range) : range :=
  if rg_init b then
    if negb (rg_init a) then b
    else {| rg_min := if rg_min b <? rg_min a then rg_min b else rg_min a;
            rg_max := if rg_max a <? rg_max b then rg_max b else rg_max a; rg_init := true |}
  else a.

(* checked_add_assign: range merge always succeeds; blooms: both Some => Bloom merge, both None => ok, else fail *)
Definition cf_merge (a b : combined) : option combined :=
  let r := range_merge (cf_range a) (cf_range b) in
  match cf_bloom a, cf_bloom b with
  | Some x, Some y => match bloom_merge x y with Some m => Some {| cf_bloom := Some m; cf_range := r |} | None => None end
  | None, None => Some {| cf_bloom := None; cf_range := r |}
  | _, _ => None
  end.

Definition cf_offload (f : combined) : combined :=
  {| cf_bloom := option_map bloom_offload (cf_bloom f); cf_range := cf_range f |}.

(* memory_allocated: the range filter counts 0, the bloom its u64 buffer *)
Definition cf_mem (f : combined) : N :=
  match cf_bloom f with
  | Some b => match bl_inner b with Some v => 8 * N.of_nat (length (bv_words v)) | None => 0 end
  | None => 0
  end.

End Combined.

(* ---------- the hierarchy over combined filters, as the storage instantiates it ---------- *)
Require Import Pearl.Filter.Hier Pearl.Base.AHash Pearl.Blob.Bytes.
Definition ckey_bytes (K : N) (k : N) : bytes := be_bytes (N.to_nat K) k.
Definition chier := hier combined.
Definition ch_new (group : nat) : chier := h_new combined group.
Definition ch_step (K : N) (h : chier) (o : hop combined) : chier := h_step combined cf_merge cf_offload cf_mem h o.
Definition ch_offload (h : chier) (needed : N) (level : nat) : chier * N := h_offload combined cf_offload cf_mem h needed level.
Definition ch_iter (K : N) (h : chier) (k : N) : list nat := iter_possible N combined (cf_contains bloom_hash (ckey_bytes K)) h k.
Definition ch_mem (h : chier) : N := h_mem combined cf_mem h.
(* check_filter: the possible children are asked with their own (possibly off-loaded) filter *)
Definition ch_check (K : N) (h : chier) (k : N) : bool :=
  existsb (fun c => match nth_error (h_children combined h) c with
                    | Some (Some f) => cf_contains bloom_hash (ckey_bytes K) f k
                    | _ => false end) (ch_iter K h k).

