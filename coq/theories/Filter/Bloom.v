(* Model of src/filter/atomic_bitvec.rs and src/filter/bloom.rs.
   The bit-index arithmetic is NOT written here: it is `Generated.Pure`, re-translated from the Rust
   source on every run. The hash family is a parameter: `hash i k` is the 64-bit value of the i-th
   hasher on key k (Base/AHash.v instantiates it with the aHash fallback algorithm). *)
Require Import Pearl.Base.Prelude Pearl.Base.LE Pearl.Generated.Pure.

Inductive filter_result := NeedAdditionalCheck | NotContains.

(* impl Add for FilterResult *)
Definition fr_add (a b : filter_result) : filter_result :=
  match a, b with NotContains, NotContains => NotContains | _, _ => NeedAdditionalCheck end.

(* ---------- AtomicBitVec ---------- *)
Record bitvec := { bv_words : list N; bv_bits : N }.

Definition bv_new (bits : N) : bitvec :=
  {| bv_words := repeat 0 (N.to_nat (items_count bits)); bv_bits := bits |}.

Definition bv_get (v : bitvec) (i : N) : bool :=
  let '(offset, mask) := offset_and_mask i in
  negb (N.land (nthN (bv_words v) offset) mask =? 0).

Definition bv_set (v : bitvec) (i : N) : bitvec :=
  let '(offset, mask) := offset_and_mask i in
  {| bv_words := updN (bv_words v) (N.to_nat offset) (fun w => N.lor w mask); bv_bits := bv_bits v |}.

Fixpoint or_words (a b : list N) : list N :=
  match a, b with
  | x :: a', y :: b' => N.lor x y :: or_words a' b'
  | _, _ => a
  end.

(* or_with: None on bits_count mismatch *)
Definition bv_or (a b : bitvec) : option bitvec :=
  if bv_bits a =? bv_bits b then Some {| bv_words := or_words (bv_words a) (bv_words b); bv_bits := bv_bits a |}
  else None.

(* to_raw_vec *)
Definition bv_to_raw (v : bitvec) : list N := if bv_bits v =? 0 then [] else bv_words v.

(* from_raw_slice *)
Definition bv_from_raw (raw : list N) (bits : N) : option bitvec :=
  let n := N.to_nat (items_count bits) in
  if (length raw <? n)%nat then None else Some {| bv_words := firstn n raw; bv_bits := bits |}.

(* ---------- Bloom ---------- *)
(* bl_inner = None means off-loaded. bl_cfg is the opaque 40-byte serialised Config. *)
Record bloom := { bl_inner : option bitvec; bl_bits : N; bl_hashers : N; bl_cfg : bytes }.

Section Hash.
Context {key : Type}.
Variable hash : N -> key -> N.    (* hasher index -> key -> u64 *)

Definition hasher_ids (b : bloom) : list N := map N.of_nat (seq 0 (N.to_nat (bl_hashers b))).

Definition bloom_new (bits hashers : N) (cfg : bytes) : bloom :=
  {| bl_inner := Some (bv_new bits); bl_bits := bits; bl_hashers := hashers; bl_cfg := cfg |}.

(* Bloom::add : Ok(()) / Err when off-loaded (state unchanged either way when nothing can be set) *)
Definition bloom_add (b : bloom) (k : key) : bloom :=
  match bl_inner b with
  | None => b
  | Some v =>
    let len := bv_bits v in
    if len =? 0 then b else
    {| bl_inner := Some (fold_left (fun v i => bv_set v (hash i k mod len)) (hasher_ids b) v);
       bl_bits := bl_bits b; bl_hashers := bl_hashers b; bl_cfg := bl_cfg b |}
  end.

(* Bloom::contains_in_memory *)
Definition bloom_contains_in_memory (b : bloom) (k : key) : option filter_result :=
  match bl_inner b with
  | None => None
  | Some v =>
    let len := bv_bits v in
    if len =? 0 then None else
    if forallb (fun i => bv_get v (hash i k mod len)) (hasher_ids b) then Some NeedAdditionalCheck
    else Some NotContains
  end.

(* contains_fast = contains_in_memory(..).unwrap_or_default() *)
Definition bloom_contains_fast (b : bloom) (k : key) : filter_result :=
  match bloom_contains_in_memory b k with Some r => r | None => NeedAdditionalCheck end.

(* Bloom::to_raw : bincode(Save { config, buf: Vec<u64>, bits_count }) ; None when off-loaded *)
Definition bloom_to_raw (b : bloom) : option bytes :=
  match bl_inner b with
  | None => None
  | Some v =>
    let raw := bv_to_raw v in
    Some (bl_cfg b ++ le64 (N.of_nat (length raw)) ++ flat_map le64 raw ++ le64 (bv_bits v))
  end.

(* buffer_start_position = serialized_size(config) + 8 *)
Definition buffer_start_position (b : bloom) : N := N.of_nat (length (bl_cfg b)) + 8.

(* Bloom::contains_in_file with the provider reading byte `i` of `file` (None = I/O error) *)
Fixpoint contains_in_file_loop (file : N -> option N) (start bits : N) (idxs : list N) : option filter_result :=
  match idxs with
  | [] => Some NeedAdditionalCheck
  | index :: r =>
    let '(offset, bit_mask) := offset_and_mask_u8 index in
    match file (start + offset) with
    | None => None
    | Some byte => if get_bit_u8 byte bit_mask then contains_in_file_loop file start bits r else Some NotContains
    end
  end.

Definition bloom_contains_in_file (file : N -> option N) (b : bloom) (k : key) : option filter_result :=
  if bl_bits b =? 0 then Some NeedAdditionalCheck
  else contains_in_file_loop file (buffer_start_position b) (bl_bits b)
         (map (fun i => hash i k mod bl_bits b) (hasher_ids b)).

(* FilterTrait::contains for Bloom: memory if possible, else file; errors => default *)
Definition bloom_contains (file : N -> option N) (b : bloom) (k : key) : filter_result :=
  match bloom_contains_in_memory b k with
  | Some r => r
  | None => match bloom_contains_in_file file b k with Some r => r | None => NeedAdditionalCheck end
  end.

(* Bloom::checked_add_assign *)
Definition bloom_merge (a b : bloom) : option bloom :=
  if negb (bl_hashers a =? bl_hashers b) then None else
  match bl_inner a, bl_inner b with
  | Some va, Some vb =>
    if bv_bits va =? bv_bits vb then
      match bv_or va vb with
      | Some v => Some {| bl_inner := Some v; bl_bits := bl_bits a; bl_hashers := bl_hashers a; bl_cfg := bl_cfg a |}
      | None => None
      end
    else None
  | _, _ => None
  end.

Definition bloom_offload (b : bloom) : bloom :=
  {| bl_inner := None; bl_bits := bl_bits b; bl_hashers := bl_hashers b; bl_cfg := bl_cfg b |}.

Definition bloom_clear (b : bloom) : bloom :=
  {| bl_inner := Some (bv_new (bl_bits b)); bl_bits := bl_bits b; bl_hashers := bl_hashers b; bl_cfg := bl_cfg b |}.

End Hash.
