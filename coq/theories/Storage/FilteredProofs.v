(* The filtered read path of Filtered.v returns what the filterless model returns, after EVERY history.

   Main results (end of file, all closed under the global context):
     filtered_read_is_read        : get_latest_entry_filtered      h s k meta = get_latest_entry s k meta
     filtered_slot_read_is_read   : get_latest_entry_filtered_slot h s k meta = get_latest_entry s k meta
                                    (closed blobs asked through the -- possibly off-loaded -- filter the hierarchy stores)
     filtered_read_is_spec        : ... = spec_read (abs s) k   (meta = None)
     track_no_fallback            : outside session boundaries (open / close / drop) the hierarchy is only ever left
                                    alone, pushed to, or popped: the slots of the storage and of the hierarchy never
                                    drift apart, and the `TRebuild` fallback of `classify` is dead code
   for (s, h) = freach K bloom0 cfg group evs, evs any list of storage operations interleaved with offload_buffer calls.

   Proof outline:
     1. a blob without a record of key k answers NotFound (its index is the index of its records), and NotFound is
        neutral for ReadResult::latest; so a read that consults a SUBLIST of the slots, in the same order, and skips
        blobs by any check that never rejects a key the blob holds, is the full read -- provided every blob holding the
        key is in the sublist (filtered_transparent);
     2. the iterator of the hierarchy yields a sublist of the slot ids in increasing order (iter_sublist + leaves_exact);
     3. invariant `Tracked`: the hierarchy is ch_run-reachable by hops whose pushed filters are well formed, slot c of
        the storage holds a blob whose keys all belong to the key list the filter pushed at c was built from, and the
        occupancy patterns coincide;
     4. every storage step changes the closed slots in one of three ways (`cchange`): slots keep their occupancy and
        their key sets do not grow (a closed blob only ever receives deletion markers of keys it already holds:
        blob_delete_keys); one slot is appended; the last occupied slot is vacated. `classify` recognises which. *)
Require Import Pearl.Base.Prelude Pearl.Base.LE Pearl.Base.AHash Pearl.Blob.Bytes Pearl.Filter.Bloom Pearl.Filter.BloomProofs
               Pearl.Filter.Hier Pearl.Filter.HierProofs Pearl.Filter.Combined Pearl.Filter.CombinedProofs.
Require Import Pearl.Storage.Model Pearl.Storage.Spec Pearl.Storage.Inv Pearl.Storage.IndexProofs Pearl.Storage.ReadProofs
               Pearl.Storage.InvProofs Pearl.Storage.Theorems Pearl.Storage.Filtered.
Local Open Scope nat_scope.

(* ---------- sublists ---------- *)
Inductive sublist {A : Type} : list A -> list A -> Prop :=
| sl_nil : sublist [] []
| sl_take x l1 l2 : sublist l1 l2 -> sublist (x :: l1) (x :: l2)
| sl_skip x l1 l2 : sublist l1 l2 -> sublist l1 (x :: l2).

Lemma sublist_nil_l {A} (l : list A) : sublist [] l.
Proof. induction l as [|x l IH]; [constructor | apply sl_skip, IH]. Qed.

Lemma sublist_refl {A} (l : list A) : sublist l l.
Proof. induction l as [|x l IH]; [constructor | apply sl_take, IH]. Qed.

Lemma sublist_filter {A} (p : A -> bool) (l : list A) : sublist (filter p l) l.
Proof.
  induction l as [|x l IH]; [constructor|]. cbn [filter]. destruct (p x); [apply sl_take | apply sl_skip]; exact IH.
Qed.

Lemma sublist_app {A} (a a' b b' : list A) : sublist a a' -> sublist b b' -> sublist (a ++ b) (a' ++ b').
Proof.
  intros Ha Hb. induction Ha as [|x l1 l2 Ha IH|x l1 l2 Ha IH]; cbn [app].
  - exact Hb.
  - apply sl_take, IH.
  - apply sl_skip, IH.
Qed.

Lemma sublist_in {A} (a b : list A) x : sublist a b -> In x a -> In x b.
Proof.
  intros Hs. induction Hs as [|y l1 l2 Hs IH|y l1 l2 Hs IH]; intros Hin.
  - destruct Hin.
  - destruct Hin as [->|Hin]; [left; reflexivity | right; apply IH, Hin].
  - right. apply IH, Hin.
Qed.

Lemma sublist_flat_map {A B} (g f : A -> list B) (l : list A) :
  (forall x, sublist (g x) (f x)) -> sublist (flat_map g l) (concat (map f l)).
Proof.
  intros Hgf. induction l as [|x l IH]; [constructor|]. cbn [flat_map map concat]. apply sublist_app; [apply Hgf | exact IH].
Qed.

Lemma fold_left_rev_fr {A B} (f : B -> A -> B) (l : list A) (a : B) :
  fold_left f (rev l) a = fold_right (fun x acc => f acc x) a l.
Proof.
  induction l as [|x l IH]; [reflexivity|]. cbn [rev fold_right]. rewrite fold_left_app. cbn [fold_left]. rewrite IH. reflexivity.
Qed.

Lemma Forall2_nth_error_l {A B} (R : A -> B -> Prop) l l' c x :
  Forall2 R l l' -> nth_error l c = Some x -> exists y, nth_error l' c = Some y /\ R x y.
Proof.
  intros HF. revert c. induction HF as [|x0 y0 l l' HR HF IH]; intros c Hc.
  - destruct c; discriminate Hc.
  - destruct c as [|c]; cbn in *.
    + injection Hc as <-. exists y0. split; [reflexivity | exact HR].
    + apply IH. exact Hc.
Qed.

(* ---------- 1. reads ---------- *)
Lemma rr_latest_notfound (acc : rr rec) : rr_latest r_ts acc NotFound = acc.
Proof. reflexivity. Qed.

Section Proofs.
Variable K : N.
Variable bloom0 : option bloom.

Notation kadd := (cf_add bloom_hash (ckey_bytes K)).
Notation kcontains := (cf_contains bloom_hash (ckey_bytes K)).

Lemma of_key_nokey k rs : ~ In k (map r_key rs) -> of_key k rs = [].
Proof.
  intros Hn. induction rs as [|r rs IH]; [reflexivity|]. rewrite of_key_cons.
  destruct (N.eqb_spec (r_key r) k) as [E|E].
  - exfalso. apply Hn. left. exact E.
  - apply IH. intros Hin. apply Hn. right. exact Hin.
Qed.

(* a blob that holds no record of the key answers NotFound, with or without meta *)
Lemma blob_latest_nokey b k meta :
  idx_ok b -> ~ In k (blob_keys b) -> blob_get_latest (b_idx b) k meta = NotFound.
Proof.
  intros Hok Hn. unfold idx_ok in Hok.
  assert (Hg : imap_get (b_idx b) k = None).
  { rewrite Hok, imap_get_index_of, of_key_nokey by exact Hn. reflexivity. }
  destruct meta as [mt|]; cbn [blob_get_latest].
  - unfold blob_get_with_meta, idx_get_all_dm. rewrite Hg. reflexivity.
  - unfold idx_get_latest. rewrite Hg. reflexivity.
Qed.

(* conversely: a live answer means the blob holds the key *)
Lemma idx_found_key b k h : idx_ok b -> idx_get_latest (b_idx b) k = Found h -> In k (blob_keys b).
Proof.
  intros Hok Hf. destruct (in_dec N.eq_dec k (blob_keys b)) as [Hin|Hn]; [exact Hin|].
  pose proof (blob_latest_nokey b k None Hok Hn) as E. cbn [blob_get_latest] in E. rewrite E in Hf. discriminate Hf.
Qed.

Section Transparent.
Variable chk : option nat -> blob -> N -> bool.
Variables (k : N) (meta : option N).
Variable look : nat -> option (option blob).

Let get (i : option nat) (b : blob) : rr rec := if chk i b k then blob_get_latest (b_idx b) k meta else NotFound.
Let SF (c : nat) (acc : rr rec) : rr rec :=
  match look c with Some (Some b) => rr_latest r_ts acc (get (Some c) b) | _ => acc end.
Let SB (b : blob) (acc : rr rec) : rr rec := rr_latest r_ts acc (blob_get_latest (b_idx b) k meta).

Lemma sublist_nil_r (L : list nat) : sublist L [] -> L = [].
Proof. intros H. inversion H. reflexivity. Qed.

Lemma fold_cover a : forall (c : list (option blob)) i L,
  (forall j o, nth_error c j = Some o -> look (i + j) = Some o) ->
  (forall b, In (Some b) c -> idx_ok b) ->
  sublist L (seq i (length c)) ->
  (forall j b, nth_error c j = Some (Some b) -> In k (blob_keys b) -> In (i + j) L /\ chk (Some (i + j)) b k = true) ->
  fold_right SF a L = fold_right SB a (cb c).
Proof.
  induction c as [|o c IH]; intros i L Hlook Hok Hsub Hcov.
  - cbn [length seq] in Hsub. apply sublist_nil_r in Hsub. subst L. reflexivity.
  - cbn [length seq] in Hsub.
    assert (Hlook' : forall j o', nth_error c j = Some o' -> look (S i + j) = Some o').
    { intros j o' Hj. replace (S i + j) with (i + S j) by lia. apply Hlook. exact Hj. }
    assert (Hok' : forall b, In (Some b) c -> idx_ok b).
    { intros b Hb. apply Hok. right. exact Hb. }
    assert (Hcov' : forall L', (forall x, In x L -> x = i \/ In x L') ->
              forall j b, nth_error c j = Some (Some b) -> In k (blob_keys b) ->
                          In (S i + j) L' /\ chk (Some (S i + j)) b k = true).
    { intros L' HL j b Hj Hk. replace (S i + j) with (i + S j) by lia. destruct (Hcov (S j) b Hj Hk) as [H1 H2].
      split; [|exact H2]. destruct (HL _ H1) as [E|E]; [lia | exact E]. }
    pose proof (Hlook 0 o eq_refl) as Hl0. rewrite Nat.add_0_r in Hl0.
    inversion Hsub as [|x l1 l2 Hs1 E1 E2|x l1 l2 Hs1 E1 E2]; subst.
    + (* slot i is consulted *)
      cbn [fold_right]. rewrite (IH (S i) l1 Hlook' Hok' Hs1).
      2:{ apply Hcov'. intros x [<-|Hx]; [left; reflexivity | right; exact Hx]. }
      unfold SF at 1. rewrite Hl0. destruct o as [b|]; [|reflexivity].
      rewrite cb_cons_some. cbn [fold_right]. unfold SB, get.
      destruct (in_dec N.eq_dec k (blob_keys b)) as [Hin|Hn].
      * destruct (Hcov 0 b eq_refl Hin) as [_ Hc]. rewrite Nat.add_0_r in Hc. rewrite Hc. reflexivity.
      * rewrite (blob_latest_nokey b k meta) by (try exact Hn; apply Hok; left; reflexivity).
        destruct (chk (Some i) b k); reflexivity.
    + (* slot i is skipped: it cannot hold the key *)
      rewrite (IH (S i) L Hlook' Hok' Hs1).
      2:{ apply Hcov'. intros x Hx. right. exact Hx. }
      destruct o as [b|]; [|reflexivity].
      rewrite cb_cons_some. cbn [fold_right]. unfold SB.
      destruct (in_dec N.eq_dec k (blob_keys b)) as [Hin|Hn].
      * exfalso. destruct (Hcov 0 b eq_refl Hin) as [Hc _]. rewrite Nat.add_0_r in Hc.
        apply (sublist_in _ _ _ Hs1) in Hc. apply in_seq in Hc. lia.
      * rewrite (blob_latest_nokey b k meta) by (try exact Hn; apply Hok; left; reflexivity). reflexivity.
Qed.
End Transparent.

(* transparency under coverage *)
Lemma filtered_transparent chk h s k meta :
  (forall b, In (Some b) (s_closed s) -> idx_ok b) ->
  (forall b, s_active s = Some b -> idx_ok b) ->
  sublist (ch_iter K h k) (seq 0 (length (s_closed s))) ->
  (forall b, s_active s = Some b -> In k (blob_keys b) -> chk None b k = true) ->
  (forall c b, nth_error (s_closed s) c = Some (Some b) -> In k (blob_keys b) ->
               In c (ch_iter K h k) /\ chk (Some c) b k = true) ->
  get_latest_entry_filtered_with K chk h s k meta = get_latest_entry s k meta.
Proof.
  intros Hokc Hoka Hsub Hca Hcc. unfold get_latest_entry_filtered_with, get_latest_entry.
  rewrite !fold_left_rev_fr.
  assert (Ha : match s_active s with
               | Some b => rr_latest r_ts NotFound (if chk None b k then blob_get_latest (b_idx b) k meta else NotFound)
               | None => NotFound end =
               match s_active s with
               | Some b => rr_latest r_ts NotFound (blob_get_latest (b_idx b) k meta)
               | None => NotFound end).
  { destruct (s_active s) as [b|] eqn:Ea; [|reflexivity].
    destruct (in_dec N.eq_dec k (blob_keys b)) as [Hin|Hn].
    - rewrite (Hca b eq_refl Hin). reflexivity.
    - rewrite (blob_latest_nokey b k meta (Hoka b eq_refl) Hn). destruct (chk None b k); reflexivity. }
  rewrite Ha. rewrite closed_blobs_cb.
  apply (fold_cover chk k meta (nth_error (s_closed s)) _ (s_closed s) 0 (ch_iter K h k)).
  - intros j o Hj. exact Hj.
  - exact Hokc.
  - exact Hsub.
  - intros j b Hj Hk. exact (Hcc j b Hj Hk).
Qed.

(* ---------- 2. the iterator yields a sublist of the slot ids ---------- *)
Lemma iter_sublist (h : chier) k :
  sublist (ch_iter K h k) (concat (map (hn_leaves combined) (h_nodes combined h))).
Proof.
  unfold ch_iter, iter_possible. apply sublist_flat_map. intros n.
  destruct (node_passes N combined kcontains h n k); [apply sublist_filter | apply sublist_nil_l].
Qed.

(* ---------- 3. the invariant relating the tracked hierarchy to the closed slots ---------- *)
Definition isSome {A} (o : option A) : bool := match o with Some _ => true | None => false end.

Lemma occ_isSome c : occ c = map isSome c.
Proof. reflexivity. Qed.

(* well-formed initial filter; holds of `None` and of every `Some (bloom_new bits hashers cfg)` with bits < 2^64 *)
Definition bloom0_wf : Prop := cf_wf (cf_new bloom0).

(* the blob in slot c holds only keys among those the filter pushed at c was built from *)
Definition slot_rel (o : option blob) (f : combined) : Prop :=
  match o with
  | Some b => exists ks, f = fold_left kadd ks (cf_new bloom0) /\ incl (blob_keys b) ks
  | None => True
  end.

Definition Tracked (group : nat) (c : list (option blob)) (h : chier) : Prop :=
  exists hops, h = ch_run K group hops /\ Forall cf_wf (pushed combined hops) /\
               Forall2 slot_rel c (pushed combined hops) /\ map isSome (h_children combined h) = occ c.

Lemma pushed_app (a b : list (hop combined)) : pushed combined (a ++ b) = pushed combined a ++ pushed combined b.
Proof.
  induction a as [|o a IH]; [reflexivity|]. cbn [app]. rewrite !pushed_cons, IH, app_assoc. reflexivity.
Qed.

Lemma ch_run_snoc group hops o : ch_run K group (hops ++ [o]) = ch_step K (ch_run K group hops) o.
Proof. unfold ch_run. rewrite fold_left_app. reflexivity. Qed.

Lemma children_push (h : chier) f :
  h_children combined (ch_step K h (HPush combined f)) = h_children combined h ++ [Some f].
Proof.
  unfold ch_step. cbn [h_step]. unfold h_push.
  destruct (length (h_children combined h) <? h_group combined h); reflexivity.
Qed.

Lemma isSome_ostep (o o' : option combined) : ostep combined cf_offload o o' -> isSome o = isSome o'.
Proof. intros [->| ->]; [reflexivity|]. destruct o; reflexivity. Qed.

Lemma children_off (h : chier) x :
  map isSome (h_children combined (ch_step K h (hoff_hop x))) = map isSome (h_children combined h).
Proof.
  destruct x as [|needed level]; unfold ch_step; cbn [hoff_hop h_step].
  - unfold h_offload_nodes. cbn [h_children]. rewrite map_map. apply map_ext. intros [g|]; reflexivity.
  - unfold h_offload.
    destruct (off_children combined cf_offload cf_mem (h_nodes combined h) (1 <=? level) needed (h_children combined h) 0 0%N [])
      as [[[ch fr1] ps] st1] eqn:Ec.
    pose proof (off_children_ostep _ _ _ _ _ _ _ _ _ _ _ _ _ _ Ec) as Hc2.
    assert (Hm : map isSome ch = map isSome (h_children combined h)).
    { symmetry. apply (Forall2_map_eq (ostep combined cf_offload) isSome isSome _ _ isSome_ostep Hc2). }
    destruct (st1 || (level <? 1)); [exact Hm|].
    destruct (off_nodes combined cf_offload cf_mem needed (h_nodes combined h) 0 ps fr1) as [[[nodes fr2] visited] st2].
    destruct (h_wrapped combined h); [destruct (st2 || negb visited || N.leb needed fr2)|]; exact Hm.
Qed.

Lemma Tracked_new group : Tracked group [] (ch_new group).
Proof. exists []. repeat split; constructor. Qed.

(* offload_buffer, at any time *)
Lemma Tracked_off group c h x : Tracked group c h -> Tracked group c (ch_step K h (hoff_hop x)).
Proof.
  intros (hops & -> & Hwf & Hrel & Hocc). exists (hops ++ [hoff_hop x]).
  rewrite ch_run_snoc, pushed_app. destruct x; cbn [hoff_hop pushed]; rewrite app_nil_r;
    (split; [reflexivity|]; split; [exact Hwf|]; split; [exact Hrel|]).
  - rewrite (children_off _ OffAll). exact Hocc.
  - rewrite (children_off _ (OffN needed level)). exact Hocc.
Qed.

(* slots keep their occupancy, key sets do not grow *)
Definition slot_le (o o' : option blob) : Prop :=
  match o, o' with
  | None, None => True
  | Some b, Some b' => incl (blob_keys b') (blob_keys b)
  | _, _ => False
  end.
Definition slots_le (c c' : list (option blob)) : Prop := Forall2 slot_le c c'.

Lemma slot_le_refl o : slot_le o o.
Proof. destruct o; cbn; [apply incl_refl | exact I]. Qed.

Lemma slots_le_refl c : slots_le c c.
Proof. apply Forall2_refl, slot_le_refl. Qed.

Lemma slot_le_trans o1 o2 o3 : slot_le o1 o2 -> slot_le o2 o3 -> slot_le o1 o3.
Proof.
  destruct o1, o2, o3; cbn; try tauto. intros H1 H2. eapply incl_tran; eassumption.
Qed.

Lemma slots_le_trans c1 c2 c3 : slots_le c1 c2 -> slots_le c2 c3 -> slots_le c1 c3.
Proof.
  intros H12. revert c3. induction H12 as [|x y l l' Hxy H12 IH]; intros c3 H23; inversion H23; subst; constructor.
  - eapply slot_le_trans; eassumption.
  - apply IH. assumption.
Qed.

Lemma slots_le_occ c c' : slots_le c c' -> occ c' = occ c.
Proof.
  intros H. induction H as [|x y l l' Hxy H IH]; [reflexivity|]. unfold occ in *. cbn [map]. rewrite IH.
  destruct x, y; cbn in Hxy; try contradiction; reflexivity.
Qed.

Lemma slots_le_map (f : blob -> blob) c :
  (forall b, b_recs (f b) = b_recs b) ->
  slots_le c (map (fun o => match o with Some b => Some (f b) | None => None end) c).
Proof.
  intros Hf. induction c as [|[b|] c IH]; cbn [map]; constructor; try exact IH.
  - cbn. unfold blob_keys. rewrite Hf. apply incl_refl.
  - exact I.
Qed.

Lemma slots_le_map_incl (f : blob -> blob) c :
  (forall b, incl (b_recs (f b)) (b_recs b)) ->
  slots_le c (map (fun o => match o with Some b => Some (f b) | None => None end) c).
Proof.
  intros Hf. induction c as [|[b|] c IH]; cbn [map]; constructor; try exact IH.
  - cbn. unfold blob_keys. intros k Hk. apply in_map_iff in Hk. destruct Hk as (r & <- & Hr).
    apply in_map. apply (Hf b r Hr).
  - exact I.
Qed.

Lemma slot_rel_le o o' f : slot_le o o' -> slot_rel o f -> slot_rel o' f.
Proof.
  destruct o as [b|], o' as [b'|]; cbn; try tauto.
  intros Hle (ks & Hf & Hin). exists ks. split; [exact Hf | eapply incl_tran; eassumption].
Qed.

Lemma Tracked_le group c c' h : slots_le c c' -> Tracked group c h -> Tracked group c' h.
Proof.
  intros Hle (hops & -> & Hwf & Hrel & Hocc). exists hops. split; [reflexivity|]. split; [exact Hwf|]. split.
  - clear Hocc Hwf. revert Hrel. generalize (pushed combined hops) as P.
    induction Hle as [|x y l l' Hxy Hle IH]; intros P HP; inversion HP; subst; constructor.
    + eapply slot_rel_le; eassumption.
    + apply IH. assumption.
  - rewrite (slots_le_occ _ _ Hle). exact Hocc.
Qed.

Lemma blob_filter_wf b : bloom0_wf -> cf_wf (blob_filter K bloom0 b).
Proof. intros Hwf. unfold blob_filter. apply cf_fold_add_wf. exact Hwf. Qed.

Lemma slot_rel_blob b : slot_rel (Some b) (blob_filter K bloom0 b).
Proof. exists (blob_keys b). split; [reflexivity | apply incl_refl]. Qed.

(* close_active_blob / update_active_blob: push *)
Lemma Tracked_push group c h b :
  bloom0_wf -> Tracked group c h ->
  Tracked group (c ++ [Some b]) (ch_step K h (HPush combined (blob_filter K bloom0 b))).
Proof.
  intros H0 (hops & -> & Hwf & Hrel & Hocc). exists (hops ++ [HPush combined (blob_filter K bloom0 b)]).
  rewrite ch_run_snoc, pushed_app. cbn [pushed]. split; [reflexivity|]. split; [|split].
  - apply Forall_app. split; [exact Hwf|]. constructor; [apply blob_filter_wf, H0 | constructor].
  - apply Forall2_app; [exact Hrel|]. constructor; [apply slot_rel_blob | constructor].
  - rewrite children_push, map_app, Hocc. unfold occ. rewrite map_app. reflexivity.
Qed.

(* restore_active_blob: pop. The last occupied slot of the hierarchy is the last occupied slot of the storage *)
Lemma pop_pattern : forall (c : list (option blob)) (l : list (option combined)) i,
  map isSome l = occ c ->
  match pop_last c with
  | Some (b, c1) => exists j, last_some_idx combined l i = Some (i + j) /\ map isSome (vacate combined l j) = occ c1
  | None => last_some_idx combined l i = None
  end.
Proof.
  induction c as [|x r IH]; intros l i Hm.
  - apply map_eq_nil in Hm. subst l. reflexivity.
  - destruct l as [|y t]; [discriminate Hm|]. cbn [map occ] in Hm. injection Hm as Hy Ht.
    specialize (IH t (S i) Ht). cbn [pop_last last_some_idx].
    destruct (pop_last r) as [[b r']|].
    + destruct IH as (j & Hj & Hv). exists (S j). rewrite Hj. split; [f_equal; lia|].
      cbn [vacate map occ]. rewrite Hv, Hy. reflexivity.
    + rewrite IH. destruct x as [b|]; destruct y as [g|]; try discriminate Hy.
      * exists 0. split; [f_equal; lia|]. cbn [vacate map occ]. rewrite Ht. reflexivity.
      * reflexivity.
Qed.

Lemma slot_rel_pop : forall (c : list (option blob)) b c1 (P : list combined),
  pop_last c = Some (b, c1) -> Forall2 slot_rel c P -> Forall2 slot_rel c1 P.
Proof.
  induction c as [|x r IH]; intros b c1 P Hp HF; cbn [pop_last] in Hp; [discriminate Hp|].
  inversion HF as [|x0 f0 r0 P0 Hx Hr]; subst.
  destruct (pop_last r) as [[b1 r1]|] eqn:Er.
  - injection Hp as <- <-. constructor; [exact Hx | eapply IH; [reflexivity | exact Hr]].
  - destruct x as [bx|]; [|discriminate Hp]. injection Hp as <- <-. constructor; [exact I | exact Hr].
Qed.

Lemma Tracked_pop group c h b c1 :
  pop_last c = Some (b, c1) -> Tracked group c h -> Tracked group c1 (ch_step K h (HPop combined)).
Proof.
  intros Hp (hops & -> & Hwf & Hrel & Hocc). exists (hops ++ [HPop combined]).
  rewrite ch_run_snoc, pushed_app. cbn [pushed]. rewrite app_nil_r.
  split; [reflexivity|]. split; [exact Hwf|]. split; [eapply slot_rel_pop; eassumption|].
  pose proof (pop_pattern c (h_children combined (ch_run K group hops)) 0 Hocc) as Hpat. rewrite Hp in Hpat.
  destruct Hpat as (j & Hj & Hv). unfold ch_step. cbn [h_step]. unfold h_pop. rewrite Hj. cbn [h_remove h_children].
  exact Hv.
Qed.

(* Storage::init: a fresh hierarchy *)
Lemma rebuild_pushed_wf c : forall i, bloom0_wf -> Forall cf_wf (pushed combined (rebuild_hops K bloom0 c i)).
Proof.
  induction c as [|[b|] r IH]; intros i H0; cbn [rebuild_hops pushed]; constructor; try apply IH; try exact H0.
  apply blob_filter_wf, H0.
Qed.

Lemma rebuild_pushed_rel c : forall i, Forall2 slot_rel c (pushed combined (rebuild_hops K bloom0 c i)).
Proof.
  induction c as [|[b|] r IH]; intros i; cbn [rebuild_hops pushed]; constructor; try apply IH.
  - apply slot_rel_blob.
  - exact I.
Qed.

Lemma vacate_snoc (l : list (option combined)) x : vacate combined (l ++ [x]) (length l) = l ++ [None].
Proof. induction l as [|y l IH]; [reflexivity|]. cbn [app length vacate]. rewrite IH. reflexivity. Qed.

Lemma rebuild_children c : forall h : chier,
  map isSome (h_children combined (fold_left (ch_step K) (rebuild_hops K bloom0 c (length (h_children combined h))) h))
  = map isSome (h_children combined h) ++ occ c.
Proof.
  induction c as [|[b|] r IH]; intros h; cbn [rebuild_hops fold_left occ map].
  - rewrite app_nil_r. reflexivity.
  - set (h2 := ch_step K h (HPush combined (blob_filter K bloom0 b))).
    assert (Hc : h_children combined h2 = h_children combined h ++ [Some (blob_filter K bloom0 b)]) by apply children_push.
    replace (S (length (h_children combined h))) with (length (h_children combined h2))
      by (rewrite Hc, app_length; cbn [length]; lia).
    rewrite IH, Hc, map_app, <- app_assoc. reflexivity.
  - set (h1 := ch_step K h (HPush combined (cf_new bloom0))).
    set (h2 := ch_step K h1 (HRemove combined (length (h_children combined h)))).
    assert (Hc : h_children combined h2 = h_children combined h ++ [None]).
    { unfold h2, ch_step at 1. cbn [h_step h_remove h_children]. unfold h1. rewrite children_push. apply vacate_snoc. }
    replace (S (length (h_children combined h))) with (length (h_children combined h2))
      by (rewrite Hc, app_length; cbn [length]; lia).
    rewrite IH, Hc, map_app, <- app_assoc. reflexivity.
Qed.

Lemma Tracked_rebuild group c : bloom0_wf -> Tracked group c (rebuild K bloom0 group c).
Proof.
  intros H0. exists (rebuild_hops K bloom0 c 0). split; [reflexivity|].
  split; [apply rebuild_pushed_wf, H0|]. split; [apply rebuild_pushed_rel|].
  unfold rebuild. exact (rebuild_children c (ch_new group)).
Qed.

(* ---------- what the invariant gives the read ---------- *)
Lemma tracked_sublist group c h k : Tracked group c h -> sublist (ch_iter K h k) (seq 0 (length c)).
Proof.
  intros (hops & -> & _ & Hrel & _). rewrite (Forall2_len _ _ _ Hrel).
  destruct (leaves_exact combined cf_merge cf_offload cf_mem group hops) as [Hlv _].
  rewrite <- Hlv. apply iter_sublist.
Qed.

Lemma tracked_cover group c h j b k :
  0 < group -> bloom0_wf -> Tracked group c h -> nth_error c j = Some (Some b) -> In k (blob_keys b) ->
  In j (ch_iter K h k) /\ slot_check K bloom0 h (Some j) b k = true.
Proof.
  intros Hg H0 (hops & -> & Hwf & Hrel & Hocc) Hj Hk.
  destruct (Forall2_nth_error_l _ _ _ _ _ Hrel Hj) as (f & Hf & ks & -> & Hin).
  assert (Hch : exists g, nth_error (h_children combined (ch_run K group hops)) j = Some (Some g)).
  { assert (E : nth_error (map isSome (h_children combined (ch_run K group hops))) j = Some true).
    { rewrite Hocc. unfold occ. rewrite nth_error_map, Hj. reflexivity. }
    rewrite nth_error_map in E. destruct (nth_error (h_children combined (ch_run K group hops)) j) as [[g|]|]; try discriminate E.
    exists g. reflexivity. }
  destruct Hch as [g Hg'].
  assert (Hks : In k ks) by (apply Hin, Hk).
  split.
  - unfold ch_iter. rewrite ch_run_eq. eapply hier_no_false_negative_keys; try eassumption.
    unfold present. rewrite <- ch_run_eq with (K := K). rewrite Hg'. reflexivity.
  - cbn [slot_check]. rewrite Hg'. rewrite ch_run_eq in Hg'. unfold cf_run in Hg'.
    eapply (child_filter_sound N combined kcontains cf_merge cf_offload cf_mem cf_wf);
      [| exact cf_merge_wf | | exact cf_offload_wf | exact Hwf | exact Hf | exact Hg' |].
    + intros a b0 m k0. apply cf_merge_sound.
    + intros g0 k0 _. apply cf_offload_sound.
    + apply cf_add_contains; assumption.
Qed.

Lemma blob_check_sound b k : bloom0_wf -> In k (blob_keys b) -> blob_check K bloom0 b k = true.
Proof. intros H0 Hk. unfold blob_check, blob_filter. apply cf_add_contains; assumption. Qed.

End Proofs.

(* ---------- 4. what a storage step does to the closed slots ---------- *)
Inductive cchange (c c' : list (option blob)) : Prop :=
| CSame : slots_le c c' -> cchange c c'
| CPush b c1 : c' = c1 ++ [Some b] -> slots_le c c1 -> cchange c c'
| CPop b c1 : pop_last c = Some (b, c1) -> slots_le c1 c' -> cchange c c'.

Lemma cchange_refl c : cchange c c.
Proof. apply CSame, slots_le_refl. Qed.

Lemma cchange_le c c' c'' : cchange c c' -> slots_le c' c'' -> cchange c c''.
Proof.
  intros [H|b c1 E H|b c1 E H] Hle.
  - apply CSame. eapply slots_le_trans; eassumption.
  - subst c'. apply Forall2_app_inv_l in Hle. destruct Hle as (l1 & l2 & H1 & H2 & ->).
    inversion H2 as [|x y r r' Hxy Hr]; subst. inversion Hr; subst.
    destruct y as [b'|]; [|contradiction Hxy].
    apply (CPush _ _ b' l1); [reflexivity | eapply slots_le_trans; eassumption].
  - apply (CPop _ _ b c1); [exact E | eapply slots_le_trans; eassumption].
Qed.

Section Steps.
Variable K : N.
Variable cfg : config.

Lemma closed_request_dump s : s_closed (request_dump s) = s_closed s.
Proof. unfold request_dump. destruct (s_alive s); reflexivity. Qed.

Lemma closed_ensure_active s : s_closed (ensure_active s) = s_closed s.
Proof. unfold ensure_active. destruct (s_active s); reflexivity. Qed.

Lemma cc_close_active s : cchange (s_closed s) (s_closed (fst (close_active s))).
Proof.
  unfold close_active. destruct (s_active s) as [a|]; cbn [fst]; [|apply cchange_refl].
  apply (CPush _ _ a (s_closed s)); [reflexivity | apply slots_le_refl].
Qed.

Lemma cc_create_active s : cchange (s_closed s) (s_closed (fst (create_active s))).
Proof.
  unfold create_active. destruct (s_active s) as [a|]; cbn [fst]; [apply cchange_refl|].
  rewrite closed_ensure_active. apply cchange_refl.
Qed.

Lemma cc_restore_active s : cchange (s_closed s) (s_closed (fst (restore_active K s))).
Proof.
  unfold restore_active. destruct (s_active s) as [a|]; cbn [fst]; [apply cchange_refl|].
  destruct (pop_last (s_closed s)) as [[b c]|] eqn:P; cbn [fst]; [|apply cchange_refl].
  apply (CPop _ _ b c); [exact P | apply slots_le_refl].
Qed.

Lemma cc_worker s f :
  (forall s, cchange (s_closed s) (s_closed (fst (f s)))) -> cchange (s_closed s) (s_closed (worker s f)).
Proof. intros Hf. unfold worker. destruct (s_alive s); [apply Hf | apply cchange_refl]. Qed.

Lemma cc_replace_active s : cchange (s_closed s) (s_closed (replace_active s)).
Proof.
  unfold replace_active. cbn [s_closed]. destruct (s_active s) as [a|]; [|apply cchange_refl].
  apply (CPush _ _ a (s_closed s)); [reflexivity | apply slots_le_refl].
Qed.

Lemma cc_maybe_rotate s : cchange (s_closed s) (s_closed (maybe_rotate K cfg s)).
Proof.
  unfold maybe_rotate. destruct (s_active s) as [a|]; [|apply cchange_refl].
  destruct (blob_full K cfg a && s_aged s && s_alive s); [|apply cchange_refl].
  rewrite closed_request_dump. apply cc_replace_active.
Qed.

(* the background dump rewrites index files only *)
Lemma quiesce_le s : slots_le (s_closed s) (s_closed (quiesce K s)).
Proof.
  unfold quiesce. destruct (s_alive s && s_dump_req s); [|apply slots_le_refl].
  cbn [upd_dump_req s_closed dump_all_closed upd_closed]. apply (slots_le_map (blob_dump K)). apply blob_dump_recs.
Qed.

Lemma blob_append_recs b r : b_recs (fst (blob_append b r)) = b_recs b ++ [r].
Proof. unfold blob_append. destruct (b_ondisk b); reflexivity. Qed.

(* a closed blob only ever receives a deletion marker for a key it already holds (only_if_presented = true):
   its key SET never grows *)
Lemma blob_delete_keys b mk b' d ok :
  idx_ok b -> blob_delete K b mk true = (b', d, ok) -> incl (blob_keys b') (blob_keys b).
Proof.
  intros Hok. unfold blob_delete. cbn [negb orb].
  destruct (idx_get_latest (b_idx b) (r_key mk)) as [h|ts|] eqn:E.
  - pose proof (idx_found_key b (r_key mk) h Hok E) as Hin.
    pose proof (blob_append_recs (blob_load_index K b) mk) as Hr.
    destruct (blob_append (blob_load_index K b) mk) as [b2 ok2]. cbn [fst] in Hr.
    intros [= <- _ _]. unfold blob_keys at 1. rewrite Hr, blob_load_index_recs, map_app.
    intros x Hx. apply in_app_or in Hx. destruct Hx as [Hx|[<-|[]]]; [exact Hx | exact Hin].
  - intros [= <- _ _]. apply incl_refl.
  - intros [= <- _ _]. apply incl_refl.
Qed.

Lemma delete_in_closed_le l mk : forall l' n f,
  (forall b, In (Some b) l -> idx_ok b) -> delete_in_closed K l mk = (l', n, f) -> slots_le l l'.
Proof.
  induction l as [|[x|] l IH]; intros l' n f Hok E; cbn [delete_in_closed] in E.
  - injection E as <- _ _. constructor.
  - destruct (delete_in_closed K l mk) as [[r' n1] f1] eqn:D.
    destruct (blob_delete K x mk true) as [[b' d] ok] eqn:B.
    injection E as <- _ _. constructor.
    + cbn. eapply blob_delete_keys; [|exact B]. apply Hok. left. reflexivity.
    + eapply IH; [|reflexivity]. intros b Hb. apply Hok. right. exact Hb.
  - destruct (delete_in_closed K l mk) as [[r' n1] f1] eqn:D.
    injection E as <- _ _. constructor; [exact I|].
    eapply IH; [|reflexivity]. intros b Hb. apply Hok. right. exact Hb.
Qed.

Lemma do_write_cc s k ts meta msize dlen dseed :
  cchange (s_closed s) (s_closed (fst (do_write K cfg s k ts meta msize dlen dseed))).
Proof.
  unfold do_write. rewrite <- (closed_ensure_active s). set (s1 := ensure_active s). clearbody s1.
  destruct (negb (c_dup cfg) && is_found (get_latest_entry s1 k meta)); cbn [fst]; [apply cchange_refl|].
  destruct (s_active s1) as [a|]; cbn [fst]; [|apply cchange_refl].
  destruct (blob_append a (mk_rec k ts false meta msize dlen dseed)) as [b' ok].
  destruct ok; cbn [fst].
  - exact (cc_maybe_rotate (upd_active s1 (Some b'))).
  - apply cchange_refl.
Qed.

Lemma do_delete_cc s k ts meta msize oip :
  BlobsOk K s -> cchange (s_closed s) (s_closed (fst (do_delete K s k ts meta msize oip))).
Proof.
  intros [Hc _]. unfold do_delete.
  assert (H1 : s_closed (if oip then s else ensure_active s) = s_closed s).
  { destruct oip; [reflexivity | apply closed_ensure_active]. }
  set (s1 := if oip then s else ensure_active s) in *. clearbody s1.
  assert (Hc1 : forall b, In (Some b) (s_closed s1) -> idx_ok b).
  { rewrite H1. intros b Hb. apply (Hc b Hb). }
  rewrite <- H1. clear H1 Hc.
  set (mk := mk_rec k ts true meta msize 0 0).
  destruct (s_active s1) as [a|].
  - destruct (blob_delete K a mk oip) as [[b' d] ok] eqn:B.
    destruct (blob_delete_spec K _ _ _ _ _ _ B) as (Hk & _ & _). subst ok. cbn [negb].
    change (s_closed (upd_active s1 (Some b'))) with (s_closed s1).
    destruct (delete_in_closed K (s_closed s1) mk) as [[c' nc] f] eqn:D.
    pose proof (delete_in_closed_le _ _ _ _ _ Hc1 D) as Hle.
    destruct (0 <? nc)%N; cbn [fst]; rewrite ?closed_request_dump; apply CSame; exact Hle.
  - cbn [negb].
    destruct (delete_in_closed K (s_closed s1) mk) as [[c' nc] f] eqn:D.
    pose proof (delete_in_closed_le _ _ _ _ _ Hc1 D) as Hle.
    destruct (0 <? nc)%N; cbn [fst]; rewrite ?closed_request_dump; apply CSame; exact Hle.
Qed.

(* within a session every operation leaves the slots alone (key sets not growing), appends one, or vacates the last *)
Theorem step_cc s o :
  BlobsOk K s -> restarts o s = false -> cchange (s_closed s) (s_closed (fst (step K cfg s o))).
Proof.
  intros H Hr. unfold step. destruct (needs_open o && negb (s_open s)) eqn:En; [apply cchange_refl|].
  destruct o; cbn [fst]; try apply cchange_refl.
  - apply do_write_cc.
  - apply do_delete_cc, H.
  - pose proof (cc_close_active s) as H1. destruct (close_active s) as [s' e]. cbn [fst] in *.
    rewrite closed_request_dump. exact H1.
  - pose proof (cc_create_active s) as H1. destruct (create_active s) as [s' e]. exact H1.
  - pose proof (cc_restore_active s) as H1. destruct (restore_active K s) as [s' e]. exact H1.
  - rewrite closed_request_dump. apply cc_worker, cc_close_active.
  - apply cc_worker, cc_create_active.
  - apply cc_worker, cc_restore_active.
  - rewrite closed_request_dump. destruct (s_alive s && eval_pred pred s); [apply cc_replace_active | apply cchange_refl].
  - rewrite closed_request_dump. apply cchange_refl.
  - apply CSame, quiesce_le.
  - cbn [restarts] in Hr. cbn [needs_open andb] in En. rewrite Hr in En. discriminate En.
  - cbn [restarts] in Hr. cbn [needs_open andb] in En. rewrite Hr in En. discriminate En.
  - cbn [restarts] in Hr. apply negb_false_iff in Hr. rewrite Hr. apply cchange_refl.
  - apply CSame. cbn [upd_closed s_closed].
    apply (slots_le_map (fun b => if (b_id b =? id)%N then rm_index b else b)).
    intros b. destruct (b_id b =? id)%N; reflexivity.
  - (* a blob file cut by a crash between two sessions: its key set does not grow (the hierarchy is rebuilt at the
       next open anyway) *)
    apply CSame. rewrite closed_do_cut. destruct keep as [j|]; [|apply slots_le_refl].
    destruct (s_open s); [apply slots_le_refl|]. apply (slots_le_map_incl (cut_blob K id j)).
    intros b r Hin. unfold cut_blob in Hin. destruct ((b_id b =? id)%N && cut_applies K j b); [|exact Hin].
    cbn [cut_recs b_recs] in Hin. rewrite <- (firstn_skipn j (b_recs b)). apply in_or_app. left. exact Hin.
Qed.

Lemma fst_step_q s o : fst (step_q K cfg s o) = quiesce K (fst (step K cfg s o)).
Proof. unfold step_q. destruct (step K cfg s o); reflexivity. Qed.

Theorem step_q_cc s o :
  BlobsOk K s -> restarts o s = false -> cchange (s_closed s) (s_closed (fst (step_q K cfg s o))).
Proof.
  intros H Hr. rewrite fst_step_q. exact (cchange_le _ _ _ (step_cc s o H Hr) (quiesce_le _)).
Qed.

End Steps.

(* ---------- 5. `classify` recognises the three changes ---------- *)
Lemma bools_eqb_iff a : forall b, bools_eqb a b = true <-> a = b.
Proof.
  induction a as [|x a IH]; intros [|y b]; cbn [bools_eqb]; try (split; [discriminate | discriminate]); [tauto|].
  rewrite andb_true_iff, IH. split.
  - intros [Hx ->]. apply eqb_prop in Hx. subst y. reflexivity.
  - intros [= -> ->]. split; [apply eqb_reflx | reflexivity].
Qed.

Lemma occ_length c : length (occ c) = length c.
Proof. apply map_length. Qed.

Lemma occ_app c1 c2 : occ (c1 ++ c2) = occ c1 ++ occ c2.
Proof. apply map_app. Qed.

Lemma pop_last_occ : forall c b c1, pop_last c = Some (b, c1) -> length c1 = length c /\ occ c1 <> occ c.
Proof.
  induction c as [|x r IH]; intros b c1 Hp; cbn [pop_last] in Hp; [discriminate Hp|].
  destruct (pop_last r) as [[b1 r1]|] eqn:Er.
  - injection Hp as <- <-. destruct (IH _ _ eq_refl) as [Hl Hn]. split; [cbn [length]; rewrite Hl; reflexivity|].
    unfold occ in *. cbn [map]. intros [= E]. exact (Hn E).
  - destruct x as [bx|]; [|discriminate Hp]. injection Hp as <- <-. split; [reflexivity|]. discriminate.
Qed.

Lemma classify_same c c' : slots_le c c' -> classify c c' = TSame.
Proof.
  intros H. unfold classify. rewrite (proj2 (bools_eqb_iff _ _) (slots_le_occ _ _ H)). reflexivity.
Qed.

Lemma classify_push c c1 b : slots_le c c1 -> classify c (c1 ++ [Some b]) = TPush b.
Proof.
  intros H. unfold classify. pose proof (slots_le_occ _ _ H) as Ho.
  destruct (bools_eqb (occ (c1 ++ [Some b])) (occ c)) eqn:E1.
  - apply bools_eqb_iff in E1. apply (f_equal (@length bool)) in E1.
    rewrite occ_app, app_length, <- Ho in E1. cbn [occ map length] in E1. lia.
  - assert (E2 : occ (c1 ++ [Some b]) = occ c ++ [true]) by (rewrite occ_app, Ho; reflexivity).
    rewrite (proj2 (bools_eqb_iff _ _) E2), last_last. reflexivity.
Qed.

Lemma classify_pop c b c1 c' : pop_last c = Some (b, c1) -> slots_le c1 c' -> classify c c' = TPop.
Proof.
  intros Hp H. unfold classify. pose proof (slots_le_occ _ _ H) as Ho. destruct (pop_last_occ _ _ _ Hp) as [Hl Hn].
  destruct (bools_eqb (occ c') (occ c)) eqn:E1.
  - apply bools_eqb_iff in E1. exfalso. apply Hn. rewrite <- Ho. exact E1.
  - destruct (bools_eqb (occ c') (occ c ++ [true])) eqn:E2.
    + apply bools_eqb_iff in E2. apply (f_equal (@length bool)) in E2.
      rewrite Ho, app_length, !occ_length in E2. cbn [length] in E2. lia.
    + rewrite Hp, (proj2 (bools_eqb_iff _ _) Ho). reflexivity.
Qed.

(* ---------- 6. every history ---------- *)
Section Main.
Variable K : N.
Variable bloom0 : option bloom.
Variable cfg : config.
Variable group : nat.

(* the design's condition on the initial bloom filter implies bloom0_wf *)
Lemma bloom0_wf_cases :
  bloom0 = None \/ (exists bits hashers c, (bits < 2^64)%N /\ bloom0 = Some (bloom_new bits hashers c)) ->
  bloom0_wf bloom0.
Proof.
  intros [->|(bits & hashers & c & Hb & ->)]; unfold bloom0_wf; [apply cf_new_none_wf | apply cf_new_wf, Hb].
Qed.

(* `track` performs on the hierarchy what the step performed on the slots *)
Lemma track_Tracked s o h :
  bloom0_wf bloom0 -> BlobsOk K s -> Tracked K bloom0 group (s_closed s) h ->
  Tracked K bloom0 group (s_closed (fst (step_q K cfg s o))) (track K bloom0 group o s (fst (step_q K cfg s o)) h).
Proof.
  intros H0 HB HT. unfold track, track_kind. destruct (restarts o s) eqn:Er; [apply Tracked_rebuild, H0|].
  destruct (step_q_cc K cfg s o HB Er) as [Hle|b c1 E Hle|b c1 E Hle].
  - rewrite (classify_same _ _ Hle). eapply Tracked_le; eassumption.
  - rewrite E, (classify_push _ _ b Hle). apply Tracked_push; [exact H0|]. eapply Tracked_le; eassumption.
  - rewrite (classify_pop _ _ _ _ E Hle). eapply Tracked_le; [exact Hle|]. eapply Tracked_pop; eassumption.
Qed.

Lemma freach_snoc evs e : freach K bloom0 cfg group (evs ++ [e]) = fstep K bloom0 cfg group (freach K bloom0 cfg group evs) e.
Proof. unfold freach. rewrite fold_left_app. reflexivity. Qed.

Lemma ops_of_snoc evs e : ops_of (evs ++ [e]) = ops_of evs ++ match e with EOp o => [o] | EOff _ => [] end.
Proof. unfold ops_of. rewrite flat_map_app. cbn [flat_map]. rewrite app_nil_r. reflexivity. Qed.

(* the storage component is the storage of the filterless model after the same operations *)
Lemma freach_storage evs : fst (freach K bloom0 cfg group evs) = reach K cfg (ops_of evs).
Proof.
  induction evs as [|e evs IH] using rev_ind; [reflexivity|].
  rewrite freach_snoc, ops_of_snoc. destruct e as [o|x]; cbn [fstep fst].
  - rewrite reach_snoc, IH. reflexivity.
  - rewrite app_nil_r. exact IH.
Qed.

Lemma freach_Tracked evs :
  bloom0_wf bloom0 ->
  Tracked K bloom0 group (s_closed (fst (freach K bloom0 cfg group evs))) (snd (freach K bloom0 cfg group evs)).
Proof.
  intros H0. induction evs as [|e evs IH] using rev_ind; [apply Tracked_new|].
  rewrite freach_snoc. destruct e as [o|x]; cbn [fstep fst snd].
  - apply track_Tracked; [exact H0 | | exact IH]. rewrite freach_storage. apply reach_Inv.
  - apply Tracked_off, IH.
Qed.

(* general form: any blob-level check that never rejects a key the blob holds *)
Theorem filtered_read_with_is_read chk evs k meta :
  0 < group -> bloom0_wf bloom0 ->
  let s := fst (freach K bloom0 cfg group evs) in
  let h := snd (freach K bloom0 cfg group evs) in
  (forall b, s_active s = Some b -> In k (blob_keys b) -> chk None b k = true) ->
  (forall c b, nth_error (s_closed s) c = Some (Some b) -> In k (blob_keys b) -> In c (ch_iter K h k) ->
               chk (Some c) b k = true) ->
  get_latest_entry_filtered_with K chk h s k meta = get_latest_entry s k meta.
Proof.
  intros Hg H0 s h Hca Hcc.
  assert (HI : Inv K s) by (unfold s; rewrite freach_storage; apply reach_Inv).
  destruct HI as [[HBc HBa] _]. pose proof (freach_Tracked evs H0) as HT. fold s h in HT.
  apply filtered_transparent.
  - intros b Hb. apply (HBc b Hb).
  - intros b Hb. apply (HBa b Hb).
  - eapply tracked_sublist; exact HT.
  - exact Hca.
  - intros c b Hc Hk. destruct (tracked_cover K bloom0 group _ _ c b k Hg H0 HT Hc Hk) as [Hin _].
    split; [exact Hin | apply Hcc; assumption].
Qed.

(* MAIN THEOREM: after every history of storage operations interleaved with offload_buffer calls, the read path that
   consults only the blobs the hierarchy yields for the key, each through its own filter, returns what the filterless
   read returns *)
Theorem filtered_read_is_read evs k meta :
  0 < group -> bloom0_wf bloom0 ->
  let s := fst (freach K bloom0 cfg group evs) in
  let h := snd (freach K bloom0 cfg group evs) in
  get_latest_entry_filtered K bloom0 h s k meta = get_latest_entry s k meta.
Proof.
  intros Hg H0 s h. unfold get_latest_entry_filtered. apply filtered_read_with_is_read; try assumption.
  - intros b _ Hk. apply blob_check_sound; assumption.
  - intros c b _ Hk _. apply blob_check_sound; assumption.
Qed.

(* the same with every closed blob asked through the filter stored in its slot of the hierarchy, which offload_buffer
   may have stripped of its bloom buffer *)
Theorem filtered_slot_read_is_read evs k meta :
  0 < group -> bloom0_wf bloom0 ->
  let s := fst (freach K bloom0 cfg group evs) in
  let h := snd (freach K bloom0 cfg group evs) in
  get_latest_entry_filtered_slot K bloom0 h s k meta = get_latest_entry s k meta.
Proof.
  intros Hg H0 s h. unfold get_latest_entry_filtered_slot. apply filtered_read_with_is_read; try assumption.
  - intros b _ Hk. apply blob_check_sound; assumption.
  - intros c b Hc Hk _. pose proof (freach_Tracked evs H0) as HT.
    exact (proj2 (tracked_cover K bloom0 group _ _ c b k Hg H0 HT Hc Hk)).
Qed.

(* hence the filtered read answers as the specification does *)
Corollary filtered_read_is_spec evs k :
  0 < group -> bloom0_wf bloom0 ->
  let s := fst (freach K bloom0 cfg group evs) in
  let h := snd (freach K bloom0 cfg group evs) in
  get_latest_entry_filtered K bloom0 h s k None = spec_read (abs s) k.
Proof.
  intros Hg H0 s h. unfold s, h. rewrite (filtered_read_is_read evs k None Hg H0).
  rewrite freach_storage. apply reach_read_latest.
Qed.

(* the slots of the storage and of the hierarchy never drift apart: outside session boundaries the step is recognised as
   one of "untouched / push / pop" -- the TRebuild fallback of `classify` is never taken -- and in every reached state
   the two occupancy patterns coincide *)
Theorem track_no_fallback evs o :
  let s := fst (freach K bloom0 cfg group evs) in
  restarts o s = false -> track_kind o s (fst (step_q K cfg s o)) <> TRebuild.
Proof.
  intros s Hr. unfold track_kind. rewrite Hr.
  assert (HB : BlobsOk K s) by (unfold s; rewrite freach_storage; apply reach_Inv).
  destruct (step_q_cc K cfg s o HB Hr) as [Hle|b c1 E Hle|b c1 E Hle].
  - rewrite (classify_same _ _ Hle). discriminate.
  - rewrite E, (classify_push _ _ b Hle). discriminate.
  - rewrite (classify_pop _ _ _ _ E Hle). discriminate.
Qed.

Theorem slots_correspond evs :
  bloom0_wf bloom0 ->
  let s := fst (freach K bloom0 cfg group evs) in
  let h := snd (freach K bloom0 cfg group evs) in
  length (h_children combined h) = length (s_closed s) /\
  forall c, present combined h c = match nth_error (s_closed s) c with Some (Some _) => true | _ => false end.
Proof.
  intros H0 s h. destruct (freach_Tracked evs H0) as (hops & Hh & _ & _ & Hocc). fold s h in Hh, Hocc. split.
  - rewrite <- (map_length isSome), Hocc. apply occ_length.
  - intros c. unfold present. apply (f_equal (fun l => nth_error l c)) in Hocc. unfold occ in Hocc.
    rewrite !nth_error_map in Hocc.
    destruct (nth_error (h_children combined h) c) as [[g|]|]; destruct (nth_error (s_closed s) c) as [[b|]|];
      cbn in Hocc; try discriminate Hocc; reflexivity.
Qed.

(* ---------- Storage::check_filters / BloomProvider::check_filter never answer "definitely absent" for a key held
   by some blob of the storage ---------- *)
Lemma blob_probe_sound b k : bloom0_wf bloom0 -> In k (blob_keys b) -> blob_probe K bloom0 b k = true.
Proof.
  intros H0 Hk. unfold blob_probe. destruct (b_ondisk b).
  - apply blob_check_sound; assumption.
  - apply existsb_exists. exists k. split; [exact Hk | apply N.eqb_refl].
Qed.

Theorem cf_answer_no_false_negative (s : storage) b k :
  bloom0_wf bloom0 -> (s_active s = Some b \/ In b (closed_blobs s)) -> In k (blob_keys b) ->
  cf_answer K bloom0 s k = true.
Proof.
  intros H0 [Ha|Hc] Hk; unfold cf_answer.
  - rewrite Ha, blob_probe_sound by assumption. reflexivity.
  - apply orb_true_iff. right. apply existsb_exists. exists b. split; [exact Hc | apply blob_probe_sound; assumption].
Qed.

Lemma in_closed_blobs_slot (c : list (option blob)) b :
  In b (flat_map (fun o => match o with Some x => [x] | None => [] end) c) -> exists j, nth_error c j = Some (Some b).
Proof.
  induction c as [|o r IH]; cbn [flat_map]; intros H; [contradiction|].
  apply in_app_or in H. destruct H as [H|H].
  - destruct o as [x|]; [|contradiction]. destruct H as [->|[]]. exists 0%nat. reflexivity.
  - destruct (IH H) as [j Hj]. exists (S j). exact Hj.
Qed.

Theorem cfs_answer_no_false_negative evs b k :
  0 < group -> bloom0_wf bloom0 ->
  let s := fst (freach K bloom0 cfg group evs) in
  let h := snd (freach K bloom0 cfg group evs) in
  (s_active s = Some b \/ In b (closed_blobs s)) -> In k (blob_keys b) ->
  cfs_answer K bloom0 h s k = true.
Proof.
  intros Hg H0 s h [Ha|Hc] Hk; unfold cfs_answer.
  - rewrite Ha, blob_probe_sound by assumption. reflexivity.
  - apply orb_true_iff. right. unfold closed_blobs in Hc. destruct (in_closed_blobs_slot _ _ Hc) as [j Hj].
    apply existsb_exists. exists j. split.
    + eapply (tracked_cover K bloom0 group (s_closed s) h j b k); try eassumption. apply freach_Tracked. exact H0.
    + rewrite Hj. apply blob_probe_sound; assumption.
Qed.

End Main.

Print Assumptions filtered_read_with_is_read.
Print Assumptions filtered_read_is_read.
Print Assumptions filtered_slot_read_is_read.
Print Assumptions filtered_read_is_spec.
Print Assumptions track_no_fallback.
Print Assumptions slots_correspond.
Print Assumptions step_q_cc.
Print Assumptions blob_delete_keys.
Print Assumptions cf_answer_no_false_negative.
Print Assumptions cfs_answer_no_false_negative.

(* ---------- non-vacuity ---------- *)
(* K = 4, 100-bit blooms, group = 2. Four blobs are closed (keys {1}, {2}, {3,1}, {4}), the last one is restored (pop:
   slot 3 is vacated, its merged filter stays in node 1), offload_buffer(16, 1) drops the bloom buffer of slot 0 and
   returns early, then key 2 is deleted (a marker lands in closed blob 1, which already held key 2).
   For key 3 the iterator yields slot 2 only (node 0, range [1,2], is skipped): ONE blob is opened where the filterless
   read opens three; for key 2, slots 0 and 1 are yielded and blob 0 rejects by its own filter; for key 4 the stale node
   filter yields slot 2 and the blob rejects; key 7 opens nothing. All reads agree with the filterless model.
   After close + lazy open the hierarchy is rebuilt over four occupied slots and the reads still agree. *)
Module Sanity.
  Local Open Scope N_scope.
  Definition ex_cfg : config := {| c_dup := true; c_maxrec := 1000; c_maxsize := 1000000 |}.
  Definition ex_bloom : option bloom := Some (bloom_new 100 2 (repeat 0 40)).
  Definition ex_evs : list fev :=
    [EOp (OOpen false); EOp (OWrite 1 10 None 0 5 1); EOp OCloseActive; EOp (OWrite 2 11 None 0 5 1); EOp OCloseActive;
     EOp (OWrite 3 12 None 0 5 1); EOp (OWrite 1 13 None 0 5 2); EOp OCloseActive; EOp (OWrite 4 14 None 0 5 1);
     EOp OCloseActive; EOp ORestoreActive; EOff (OffN 16 1); EOp (ODelete 2 20 None 0 true)].
  Definition ex_s := fst (freach 4 ex_bloom ex_cfg 2 ex_evs).
  Definition ex_h := snd (freach 4 ex_bloom ex_cfg 2 ex_evs).
  Definition ex_keys : list N := [1; 2; 3; 4; 7].

  Example ex_bloom_wf : bloom0_wf ex_bloom.
  Proof. apply cf_new_wf. reflexivity. Qed.

  Example filtered_nonvacuous :
    occ (s_closed ex_s) = [true; true; true; false] /\
    map blob_keys (closed_blobs ex_s) = [[1]; [2; 2]; [3; 1]] /\
    option_map blob_keys (s_active ex_s) = Some [4] /\
    map (fun k => (ch_iter 4 ex_h k, consulted 4 ex_bloom ex_h ex_s k)) ex_keys =
      [([0; 1; 2], [0; 2]); ([0; 1], [1]); ([2], [2]); ([2], []); ([], [])]%nat /\
    map (fun k => get_latest_entry_filtered 4 ex_bloom ex_h ex_s k None) ex_keys =
      map (fun k => get_latest_entry ex_s k None) ex_keys /\
    map (fun k => get_latest_entry_filtered_slot 4 ex_bloom ex_h ex_s k (Some 0)) ex_keys =
      map (fun k => get_latest_entry ex_s k (Some 0)) ex_keys /\
    get_latest_entry ex_s 2 None = Deleted 20 /\
    rr_ts r_ts (get_latest_entry ex_s 3 None) = Some 12 /\
    get_latest_entry ex_s 7 None = NotFound.
  Proof. vm_compute. repeat split. Qed.

  (* restart: the hierarchy is rebuilt over the blobs found in the directory *)
  Definition ex_evs2 : list fev := ex_evs ++ [EOp OClose; EOp (OOpen true); EOff OffAll].
  Definition ex_s2 := fst (freach 4 ex_bloom ex_cfg 2 ex_evs2).
  Definition ex_h2 := snd (freach 4 ex_bloom ex_cfg 2 ex_evs2).
  Example filtered_nonvacuous_restart :
    occ (s_closed ex_s2) = [true; true; true; true] /\
    map (fun k => ch_iter 4 ex_h2 k) ex_keys = [[0; 1; 2; 3]; [0; 1; 2; 3]; [2; 3]; [2; 3]; []]%nat /\
    map (fun k => consulted 4 ex_bloom ex_h2 ex_s2 k) ex_keys = [[0; 2]; [1]; [2]; [3]; []]%nat /\
    map (fun k => get_latest_entry_filtered 4 ex_bloom ex_h2 ex_s2 k None) ex_keys =
      map (fun k => get_latest_entry ex_s2 k None) ex_keys.
  Proof. vm_compute. repeat split. Qed.
End Sanity.

(* ====================================================================================================================
   The ALL-VERSIONS read path (Storage::read_all_with_deletion_marker / read_all) goes through the same hierarchy
   iterator. Results (all closed under the global context), for (s, h) = freach K bloom0 cfg group evs:
     filtered_read_all_dm_is_read_all_dm : read_all_dm_filtered K bloom0 h s k = read_all_dm s k
     filtered_read_all_is_read_all       : read_all_filtered    K bloom0 h s k = read_all s k
     filtered_read_all_is_spec           : ... = spec_all_dm (abs s) k  /\  ... = spec_all (abs s) k
     iter_read_all_dm_is_read_all_dm / iter_read_all_is_read_all : the same for the path as the Rust text has it (the
                                           hierarchy iterator only; blobs are not asked through their own filter)
     filtered_slot_read_all_dm_is_read_all_dm : closed blobs asked through the filter stored in their slot
   Proof: a blob that holds no record of the key contributes [] ; `ra_merge` (count of non-empty contributions, marker
   presence, concatenation) depends only on the NON-EMPTY contributions in their order; the iterator yields an
   increasing sublist of the slot ids, so the non-empty contributions come in the same order (all_cover). *)
Require Import Pearl.Storage.ReadAllProofs.

(* ---------- ra_merge sees only the non-empty contributions ---------- *)
Lemma ra_filter_idem (pb : list (list rec)) : filter ra_nonempty (filter ra_nonempty pb) = filter ra_nonempty pb.
Proof.
  induction pb as [|l pb IH]; [reflexivity|]. cbn [filter]. destruct (ra_nonempty l) eqn:E; [|exact IH].
  cbn [filter]. rewrite E, IH. reflexivity.
Qed.

Lemma ra_existsb_nonempty (pb : list (list rec)) :
  existsb (fun l => match last_del_ts l with Some _ => true | None => false end) (filter ra_nonempty pb) =
  existsb (fun l => match last_del_ts l with Some _ => true | None => false end) pb.
Proof.
  induction pb as [|l pb IH]; [reflexivity|]. cbn [filter existsb]. destruct l as [|x l]; cbn [ra_nonempty].
  - exact IH.
  - cbn [existsb]. rewrite IH. reflexivity.
Qed.

Lemma ra_concat_nonempty (pb : list (list rec)) : concat (filter ra_nonempty pb) = concat pb.
Proof.
  induction pb as [|l pb IH]; [reflexivity|]. cbn [filter concat]. destruct l as [|x l]; cbn [ra_nonempty].
  - exact IH.
  - cbn [concat]. rewrite IH. reflexivity.
Qed.

Lemma ra_merge_nonempty (pb : list (list rec)) : ra_merge pb = ra_merge (filter ra_nonempty pb).
Proof.
  unfold ra_merge. change (fun l : list rec => match l with [] => false | _ :: _ => true end) with ra_nonempty.
  rewrite ra_filter_idem, ra_existsb_nonempty, ra_concat_nonempty. reflexivity.
Qed.

Lemma ra_merge_ext (pb pb' : list (list rec)) :
  filter ra_nonempty pb = filter ra_nonempty pb' -> ra_merge pb = ra_merge pb'.
Proof. intros E. rewrite (ra_merge_nonempty pb), (ra_merge_nonempty pb'), E. reflexivity. Qed.

(* a blob that holds no record of the key contributes the empty list *)
Lemma idx_get_all_dm_nokey b k : idx_ok b -> ~ In k (blob_keys b) -> idx_get_all_dm (b_idx b) k = [].
Proof.
  intros Hok Hn. unfold idx_ok in Hok. unfold idx_get_all_dm.
  rewrite Hok, imap_get_index_of, of_key_nokey by exact Hn. reflexivity.
Qed.

Section CoverAll.
Variable chk : option nat -> blob -> N -> bool.
Variable k : N.
Variable look : nat -> option (option blob).

Let F (c : nat) : list (list rec) :=
  match look c with
  | Some (Some b) => if chk (Some c) b k then [idx_get_all_dm (b_idx b) k] else []
  | _ => []
  end.
Let G (b : blob) : list rec := idx_get_all_dm (b_idx b) k.

(* the non-empty contributions of the consulted slots, newest first, are those of all closed blobs, newest first *)
Lemma all_cover : forall (c : list (option blob)) i L,
  (forall j o, nth_error c j = Some o -> look (i + j) = Some o) ->
  (forall b, In (Some b) c -> idx_ok b) ->
  sublist L (seq i (length c)) ->
  (forall j b, nth_error c j = Some (Some b) -> In k (blob_keys b) -> In (i + j) L /\ chk (Some (i + j)) b k = true) ->
  filter ra_nonempty (flat_map F (rev L)) = filter ra_nonempty (map G (rev (cb c))).
Proof.
  induction c as [|o c IH]; intros i L Hlook Hok Hsub Hcov.
  - cbn [length seq] in Hsub. apply sublist_nil_r in Hsub. subst L. reflexivity.
  - cbn [length seq] in Hsub.
    assert (Hlook' : forall j o', nth_error c j = Some o' -> look (S i + j) = Some o').
    { intros j o' Hj. replace (S i + j) with (i + S j) by lia. apply Hlook. exact Hj. }
    assert (Hok' : forall b, In (Some b) c -> idx_ok b).
    { intros b Hb. apply Hok. right. exact Hb. }
    assert (Hcov' : forall L', (forall x, In x L -> x = i \/ In x L') ->
              forall j b, nth_error c j = Some (Some b) -> In k (blob_keys b) ->
                          In (S i + j) L' /\ chk (Some (S i + j)) b k = true).
    { intros L' HL j b Hj Hk. replace (S i + j) with (i + S j) by lia. destruct (Hcov (S j) b Hj Hk) as [H1 H2].
      split; [|exact H2]. destruct (HL _ H1) as [E|E]; [lia | exact E]. }
    pose proof (Hlook 0 o eq_refl) as Hl0. rewrite Nat.add_0_r in Hl0.
    assert (Hsplit : map G (rev (cb (o :: c))) = map G (rev (cb c)) ++ match o with Some b => [G b] | None => [] end).
    { destruct o as [b|].
      - rewrite cb_cons_some. cbn [rev]. rewrite map_app. reflexivity.
      - rewrite cb_cons_none, app_nil_r. reflexivity. }
    rewrite Hsplit, filter_app.
    inversion Hsub as [|x l1 l2 Hs1 E1 E2|x l1 l2 Hs1 E1 E2]; subst.
    + (* slot i is consulted *)
      cbn [rev]. rewrite flat_map_app, filter_app. rewrite (IH (S i) l1 Hlook' Hok' Hs1).
      2:{ apply Hcov'. intros x [<-|Hx]; [left; reflexivity | right; exact Hx]. }
      f_equal. cbn [flat_map]. rewrite app_nil_r. unfold F. rewrite Hl0. destruct o as [b|]; [|reflexivity].
      destruct (in_dec N.eq_dec k (blob_keys b)) as [Hin|Hn].
      * destruct (Hcov 0 b eq_refl Hin) as [_ Hc]. rewrite Nat.add_0_r in Hc. rewrite Hc. reflexivity.
      * unfold G. rewrite (idx_get_all_dm_nokey b k) by (try exact Hn; apply Hok; left; reflexivity).
        destruct (chk (Some i) b k); reflexivity.
    + (* slot i is skipped: it cannot hold the key, its contribution is empty *)
      rewrite (IH (S i) L Hlook' Hok' Hs1).
      2:{ apply Hcov'. intros x Hx. right. exact Hx. }
      assert (Hemp : filter ra_nonempty (match o with Some b => [G b] | None => [] end) = []).
      { destruct o as [b|]; [|reflexivity].
        destruct (in_dec N.eq_dec k (blob_keys b)) as [Hin|Hn].
        - exfalso. destruct (Hcov 0 b eq_refl Hin) as [Hc _]. rewrite Nat.add_0_r in Hc.
          apply (sublist_in _ _ _ Hs1) in Hc. apply in_seq in Hc. lia.
        - unfold G. rewrite (idx_get_all_dm_nokey b k) by (try exact Hn; apply Hok; left; reflexivity). reflexivity. }
      rewrite Hemp, app_nil_r. reflexivity.
Qed.
End CoverAll.

Section ProofsAll.
Variable K : N.

(* transparency under coverage, all-versions path *)
Lemma filtered_all_transparent chk (h : chier) s k :
  (forall b, In (Some b) (s_closed s) -> idx_ok b) ->
  (forall b, s_active s = Some b -> idx_ok b) ->
  sublist (ch_iter K h k) (seq 0 (length (s_closed s))) ->
  (forall b, s_active s = Some b -> In k (blob_keys b) -> chk None b k = true) ->
  (forall c b, nth_error (s_closed s) c = Some (Some b) -> In k (blob_keys b) ->
               In c (ch_iter K h k) /\ chk (Some c) b k = true) ->
  read_all_dm_filtered_with K chk h s k = read_all_dm s k.
Proof.
  intros Hokc Hoka Hsub Hca Hcc. rewrite read_all_dm_merge. unfold read_all_dm_filtered_with, per_blob_filtered_with.
  apply ra_merge_ext. rewrite !filter_app. f_equal.
  - destruct (s_active s) as [b|] eqn:Ea; [|reflexivity].
    destruct (in_dec N.eq_dec k (blob_keys b)) as [Hin|Hn].
    + rewrite (Hca b eq_refl Hin). reflexivity.
    + rewrite (idx_get_all_dm_nokey b k (Hoka b eq_refl) Hn). destruct (chk None b k); reflexivity.
  - rewrite closed_blobs_cb.
    apply (all_cover chk k (nth_error (s_closed s)) (s_closed s) 0 (ch_iter K h k)).
    + intros j o Hj. exact Hj.
    + exact Hokc.
    + exact Hsub.
    + intros j b Hj Hk. exact (Hcc j b Hj Hk).
Qed.
End ProofsAll.

Section MainAll.
Variable K : N.
Variable bloom0 : option bloom.
Variable cfg : config.
Variable group : nat.

(* general form: any blob-level check that never rejects a key the blob holds *)
Theorem filtered_read_all_dm_with_is_read_all_dm chk evs k :
  0 < group -> bloom0_wf bloom0 ->
  let s := fst (freach K bloom0 cfg group evs) in
  let h := snd (freach K bloom0 cfg group evs) in
  (forall b, s_active s = Some b -> In k (blob_keys b) -> chk None b k = true) ->
  (forall c b, nth_error (s_closed s) c = Some (Some b) -> In k (blob_keys b) -> In c (ch_iter K h k) ->
               chk (Some c) b k = true) ->
  read_all_dm_filtered_with K chk h s k = read_all_dm s k.
Proof.
  intros Hg H0 s h Hca Hcc.
  assert (HI : Inv K s) by (unfold s; rewrite freach_storage; apply reach_Inv).
  destruct HI as [[HBc HBa] _]. pose proof (freach_Tracked K bloom0 cfg group evs H0) as HT. fold s h in HT.
  apply filtered_all_transparent.
  - intros b Hb. apply (HBc b Hb).
  - intros b Hb. apply (HBa b Hb).
  - eapply tracked_sublist; exact HT.
  - exact Hca.
  - intros c b Hc Hk. destruct (tracked_cover K bloom0 group _ _ c b k Hg H0 HT Hc Hk) as [Hin _].
    split; [exact Hin | apply Hcc; assumption].
Qed.

(* MAIN THEOREMS: after every history of storage operations interleaved with offload_buffer calls, the all-versions read
   that opens only the blobs the hierarchy yields for the key, each through its own filter, returns the list the
   filterless read_all_with_deletion_marker / read_all return: the group filters never hide a version *)
Theorem filtered_read_all_dm_is_read_all_dm evs k :
  0 < group -> bloom0_wf bloom0 ->
  let s := fst (freach K bloom0 cfg group evs) in
  let h := snd (freach K bloom0 cfg group evs) in
  read_all_dm_filtered K bloom0 h s k = read_all_dm s k.
Proof.
  intros Hg H0 s h. unfold read_all_dm_filtered. apply filtered_read_all_dm_with_is_read_all_dm; try assumption.
  - intros b _ Hk. apply blob_check_sound; assumption.
  - intros c b _ Hk _. apply blob_check_sound; assumption.
Qed.

Theorem filtered_read_all_is_read_all evs k :
  0 < group -> bloom0_wf bloom0 ->
  let s := fst (freach K bloom0 cfg group evs) in
  let h := snd (freach K bloom0 cfg group evs) in
  read_all_filtered K bloom0 h s k = read_all s k.
Proof.
  intros Hg H0 s h. unfold read_all_filtered, read_all, s, h.
  rewrite (filtered_read_all_dm_is_read_all_dm evs k Hg H0). reflexivity.
Qed.

(* closed blobs asked through the filter the hierarchy stores for their slot *)
Theorem filtered_slot_read_all_dm_is_read_all_dm evs k :
  0 < group -> bloom0_wf bloom0 ->
  let s := fst (freach K bloom0 cfg group evs) in
  let h := snd (freach K bloom0 cfg group evs) in
  read_all_dm_filtered_slot K bloom0 h s k = read_all_dm s k.
Proof.
  intros Hg H0 s h. unfold read_all_dm_filtered_slot. apply filtered_read_all_dm_with_is_read_all_dm; try assumption.
  - intros b _ Hk. apply blob_check_sound; assumption.
  - intros c b Hc Hk _. pose proof (freach_Tracked K bloom0 cfg group evs H0) as HT.
    exact (proj2 (tracked_cover K bloom0 group _ _ c b k Hg H0 HT Hc Hk)).
Qed.

(* the path as the Rust text has it: the hierarchy iterator is the only filtering *)
Theorem iter_read_all_dm_is_read_all_dm evs k :
  0 < group -> bloom0_wf bloom0 ->
  let s := fst (freach K bloom0 cfg group evs) in
  let h := snd (freach K bloom0 cfg group evs) in
  read_all_dm_iter K h s k = read_all_dm s k.
Proof.
  intros Hg H0 s h. unfold read_all_dm_iter. apply (filtered_read_all_dm_with_is_read_all_dm _ evs k Hg H0); reflexivity.
Qed.

Theorem iter_read_all_is_read_all evs k :
  0 < group -> bloom0_wf bloom0 ->
  let s := fst (freach K bloom0 cfg group evs) in
  let h := snd (freach K bloom0 cfg group evs) in
  read_all_iter K h s k = read_all s k.
Proof.
  intros Hg H0 s h. unfold read_all_iter, read_all, s, h.
  rewrite (iter_read_all_dm_is_read_all_dm evs k Hg H0). reflexivity.
Qed.

(* hence the filtered all-versions reads answer as the specification does: every record of the key in rank order
   (timestamp descending, then blob recency, then append recency) cut after the first deletion marker *)
Theorem filtered_read_all_is_spec evs k :
  0 < group -> bloom0_wf bloom0 ->
  let s := fst (freach K bloom0 cfg group evs) in
  let h := snd (freach K bloom0 cfg group evs) in
  read_all_dm_filtered K bloom0 h s k = spec_all_dm (abs s) k /\
  read_all_filtered K bloom0 h s k = spec_all (abs s) k.
Proof.
  intros Hg H0 s h. unfold s, h.
  rewrite (filtered_read_all_dm_is_read_all_dm evs k Hg H0), (filtered_read_all_is_read_all evs k Hg H0).
  rewrite freach_storage. split; [apply read_all_dm_spec | apply read_all_spec]; apply reach_IdxInv.
Qed.

Theorem iter_read_all_is_spec evs k :
  0 < group -> bloom0_wf bloom0 ->
  let s := fst (freach K bloom0 cfg group evs) in
  let h := snd (freach K bloom0 cfg group evs) in
  read_all_dm_iter K h s k = spec_all_dm (abs s) k /\ read_all_iter K h s k = spec_all (abs s) k.
Proof.
  intros Hg H0 s h. unfold s, h.
  rewrite (iter_read_all_dm_is_read_all_dm evs k Hg H0), (iter_read_all_is_read_all evs k Hg H0).
  rewrite freach_storage. split; [apply read_all_dm_spec | apply read_all_spec]; apply reach_IdxInv.
Qed.

End MainAll.

Print Assumptions filtered_read_all_dm_with_is_read_all_dm.
Print Assumptions filtered_read_all_dm_is_read_all_dm.
Print Assumptions filtered_read_all_is_read_all.
Print Assumptions filtered_slot_read_all_dm_is_read_all_dm.
Print Assumptions iter_read_all_dm_is_read_all_dm.
Print Assumptions iter_read_all_is_read_all.
Print Assumptions filtered_read_all_is_spec.
Print Assumptions iter_read_all_is_spec.
