(* C01: Storage::get_latest_entry (read / contains) returns the top-ranked record of the key. *)
Require Import Pearl.Base.Prelude Pearl.Storage.Model Pearl.Storage.Spec Pearl.Storage.IndexProofs Pearl.Storage.Inv.

Definition IdxInv (s : storage) : Prop := Forall idx_ok (blobs_in_order s).

Lemma rr_ts_to_rr o : rr_ts r_ts (to_rr o) = option_map r_ts o.
Proof. destruct o as [r|]; [|reflexivity]. cbn. destruct (r_del r); reflexivity. Qed.

Lemma rr_latest_to_rr self other :
  rr_latest r_ts (to_rr self) (to_rr other) = to_rr (combine other self).
Proof.
  unfold rr_latest. rewrite !rr_ts_to_rr.
  destruct self as [s|], other as [o|]; cbn [option_map opt_gt combine]; try reflexivity.
  rewrite N.ltb_antisym. destruct (r_ts o <=? r_ts s); reflexivity.
Qed.

Section K.
Variable k : N.
Definition pb (b : blob) : option rec := top_ranked (of_key k (b_recs b)).

Lemma blob_latest_ok b : idx_ok b -> blob_get_latest (b_idx b) k None = to_rr (pb b).
Proof. intros H. cbn [blob_get_latest]. rewrite H. apply idx_get_latest_index_of. Qed.

Lemma fold_latest bs : Forall idx_ok bs -> forall acc,
  fold_left (fun a b => rr_latest r_ts a (blob_get_latest (b_idx b) k None)) bs (to_rr acc)
  = to_rr (fold_left (fun a b => combine (pb b) a) bs acc).
Proof.
  induction 1 as [|b bs Hb Hbs IH]; intros acc; cbn [fold_left]; [reflexivity|].
  rewrite blob_latest_ok by assumption. rewrite rr_latest_to_rr. apply IH.
Qed.

Lemma top_ranked_blobs bs : forall tail,
  top_ranked (of_key k (flat_map b_recs bs ++ tail))
  = fold_left (fun a b => combine (pb b) a) (rev bs) (top_ranked (of_key k tail)).
Proof.
  induction bs as [|b bs IH]; intros tail; cbn [flat_map rev fold_left]; [reflexivity|].
  rewrite <- app_assoc, of_key_app, top_ranked_app, IH.
  rewrite fold_left_app. cbn [fold_left]. reflexivity.
Qed.

Theorem read_latest s : IdxInv s -> get_latest_entry s k None = spec_read (abs s) k.
Proof.
  unfold IdxInv, blobs_in_order, abs, spec_read, get_latest_entry. intros H.
  apply Forall_app in H. destruct H as [Hc Ha].
  assert (Hrev : Forall idx_ok (rev (closed_blobs s))) by (apply Forall_rev; assumption).
  unfold blobs_in_order. rewrite flat_map_app, top_ranked_blobs.
  destruct (s_active s) as [a|].
  - inversion Ha as [|? ? Hab _]; subst. rewrite blob_latest_ok by assumption.
    change (@NotFound rec) with (to_rr None). rewrite rr_latest_to_rr. cbn [combine flat_map].
    rewrite app_nil_r.
    replace (match pb a with Some yb => Some yb | None => None end) with (pb a) by (destruct (pb a); reflexivity).
    rewrite fold_latest by assumption. reflexivity.
  - change (@NotFound rec) with (to_rr None). rewrite fold_latest by assumption. reflexivity.
Qed.

End K.

Lemma in_closed_blobs s b : In b (closed_blobs s) <-> In (Some b) (s_closed s).
Proof.
  unfold closed_blobs. rewrite in_flat_map. split.
  - intros [o [Ho Hb]]. destruct o as [b'|]; [|contradiction]. destruct Hb as [->|[]]. assumption.
  - intros H. exists (Some b). split; [assumption|left; reflexivity].
Qed.

Lemma BlobsOk_IdxInv K s : BlobsOk K s -> IdxInv s.
Proof.
  intros [Hc Ha]. unfold IdxInv, blobs_in_order. apply Forall_app. split.
  - apply Forall_forall. intros b Hb. apply in_closed_blobs in Hb. apply (Hc b Hb).
  - destruct (s_active s) as [a|]; [|constructor]. constructor; [|constructor]. apply (Ha a eq_refl).
Qed.
