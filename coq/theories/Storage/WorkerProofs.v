(* C13: the background maintenance worker of the L3 storage model (Model.v).
   - the worker survives every operation except the end of the session; in particular a background request
     that cannot apply is logged and changes nothing (before commit 62103db of the code it killed the
     worker: finding F1);
   - hence after every history an open storage has a live worker;
   - with a live worker a write that fills the (aged) active blob rotates to a fresh blob;
   - requested index dumps are complete at the quiescence point;
   - close returns and leaves only files.
   Model.v is not modified; all statements are about the model as written. *)
Require Import Pearl.Base.Prelude Pearl.Storage.Model Pearl.Storage.Spec Pearl.Storage.Inv Pearl.Storage.InvProofs
               Pearl.Storage.Theorems.

(* ---------- s_alive through the helpers ---------- *)
Lemma alive_upd_active s a : s_alive (upd_active s a) = s_alive s. Proof. reflexivity. Qed.
Lemma alive_upd_closed s c : s_alive (upd_closed s c) = s_alive s. Proof. reflexivity. Qed.
Lemma alive_upd_dump_req s d : s_alive (upd_dump_req s d) = s_alive s. Proof. reflexivity. Qed.
Lemma alive_upd_aged s a : s_alive (upd_aged s a) = s_alive s. Proof. reflexivity. Qed.
Lemma alive_upd_f2 s f : s_alive (upd_f2 s f) = s_alive s. Proof. reflexivity. Qed.
Lemma alive_push_closed s b : s_alive (push_closed s b) = s_alive s. Proof. reflexivity. Qed.

Lemma alive_request_dump s : s_alive (request_dump s) = s_alive s.
Proof. unfold request_dump. destruct (s_alive s) eqn:E; [exact E | exact E]. Qed.

Lemma alive_ensure_active s : s_alive (ensure_active s) = s_alive s.
Proof. unfold ensure_active. destruct (s_active s); reflexivity. Qed.

Lemma alive_replace_active s : s_alive (replace_active s) = s_alive s.
Proof. reflexivity. Qed.

Lemma alive_close_active s : s_alive (fst (close_active s)) = s_alive s.
Proof. unfold close_active. destruct (s_active s); reflexivity. Qed.

Lemma alive_create_active s : s_alive (fst (create_active s)) = s_alive s.
Proof. unfold create_active. destruct (s_active s); [reflexivity | apply alive_ensure_active]. Qed.

Lemma alive_restore_active K s : s_alive (fst (restore_active K s)) = s_alive s.
Proof.
  unfold restore_active. destruct (s_active s); [reflexivity|].
  destruct (pop_last (s_closed s)) as [[b c]|]; reflexivity.
Qed.

(* the worker lives on whether the request it processed succeeded or not *)
Lemma alive_worker s f :
  (forall s, s_alive (fst (f s)) = s_alive s) -> s_alive (worker s f) = s_alive s.
Proof.
  intros Hf. unfold worker. destruct (s_alive s) eqn:Ha; [|exact Ha].
  rewrite Hf. exact Ha.
Qed.

Lemma worker_dead s f : s_alive s = false -> worker s f = s.
Proof. intros H. unfold worker. rewrite H. reflexivity. Qed.

Section K.
Variable K : N.
Variable cfg : config.

Lemma alive_maybe_rotate s : s_alive (maybe_rotate K cfg s) = s_alive s.
Proof.
  unfold maybe_rotate. destruct (s_active s); [|reflexivity].
  destruct (blob_full K cfg b && s_aged s && s_alive s); [|reflexivity].
  rewrite alive_request_dump. reflexivity.
Qed.

Lemma alive_dump_all_closed s : s_alive (dump_all_closed K s) = s_alive s.
Proof. reflexivity. Qed.

Lemma alive_quiesce s : s_alive (quiesce K s) = s_alive s.
Proof. unfold quiesce. destruct (s_alive s && s_dump_req s); reflexivity. Qed.

Lemma alive_do_write s k ts meta msize dlen dseed :
  s_alive (fst (do_write K cfg s k ts meta msize dlen dseed)) = s_alive s.
Proof.
  unfold do_write.
  destruct (negb (c_dup cfg) && is_found (get_latest_entry (ensure_active s) k meta)).
  { cbn [fst]. apply alive_ensure_active. }
  destruct (s_active (ensure_active s)) as [b|] eqn:Ea.
  2:{ cbn [fst]. apply alive_ensure_active. }
  destruct (blob_append b _) as [b' ok]. destruct ok; cbn [fst].
  - rewrite alive_maybe_rotate, alive_upd_active. apply alive_ensure_active.
  - rewrite alive_upd_f2, alive_upd_active. apply alive_ensure_active.
Qed.

Lemma alive_do_delete s k ts meta msize oip :
  s_alive (fst (do_delete K s k ts meta msize oip)) = s_alive s.
Proof.
  unfold do_delete.
  set (s0 := if oip then s else ensure_active s).
  assert (H0 : s_alive s0 = s_alive s).
  { subst s0. destruct oip; [reflexivity | apply alive_ensure_active]. }
  destruct (s_active s0) as [b|].
  - destruct (blob_delete K b _ oip) as [[b' deleted] ok].
    destruct ok; cbn [negb].
    + destruct (delete_in_closed K _ _) as [[c' n] f].
      destruct (0 <? n); cbn [fst];
        rewrite ?alive_request_dump, alive_upd_f2, alive_upd_closed, alive_upd_active; exact H0.
    + cbn [fst]. rewrite alive_upd_f2, alive_upd_active. exact H0.
  - cbn [negb].
    destruct (delete_in_closed K _ _) as [[c' n] f].
    destruct (0 <? n); cbn [fst];
      rewrite ?alive_request_dump, alive_upd_f2, alive_upd_closed; exact H0.
Qed.

(* ---------- 1. survival ---------- *)

(* the background requests that cannot apply in the current state *)
Definition inapplicable (s : storage) (o : op) : Prop :=
  match o with
  | OBgClose => s_active s = None
  | OBgCreate => s_active s <> None
  | OBgRestore => s_active s <> None \/ pop_last (s_closed s) = None
  | _ => False
  end.
Definition ends_session (o : op) : Prop := o = OClose \/ o = ODrop.

Lemma step_q_fst s o : fst (step_q K cfg s o) = quiesce K (fst (step K cfg s o)).
Proof. unfold step_q. destruct (step K cfg s o). reflexivity. Qed.

Lemma step_q_snd s o : snd (step_q K cfg s o) = snd (step K cfg s o).
Proof. unfold step_q. destruct (step K cfg s o). reflexivity. Qed.

Lemma step_open s o : s_open s = true ->
  step K cfg s o =
  match o with
  | OWrite k ts meta msize dlen dseed => do_write K cfg s k ts meta msize dlen dseed
  | ODelete k ts meta msize oip => do_delete K s k ts meta msize oip
  | ORead k => (s, RRead (get_latest_entry s k None))
  | OReadWith k m => (s, RRead (get_latest_entry s k (Some m)))
  | OContains k => (s, RRead (get_latest_entry s k None))
  | OReadAll k => (s, RList (read_all s k))
  | OReadAllDm k => (s, RList (read_all_dm s k))
  | OCloseActive =>
    let '(s', e) := close_active s in
    (request_dump s', match e with Some e => RErr e | None => RUnit end)
  | OCreateActive => let '(s', e) := create_active s in (s', match e with Some e => RErr e | None => RUnit end)
  | ORestoreActive => let '(s', e) := restore_active K s in (s', match e with Some e => RErr e | None => RUnit end)
  | OBgClose => (request_dump (worker s close_active), RUnit)
  | OBgCreate => (worker s create_active, RUnit)
  | OBgRestore => (worker s (restore_active K), RUnit)
  | OForceUpdate p =>
    let s' := if s_alive s && eval_pred p s then replace_active s else s in (request_dump s', RUnit)
  | OFreeExcess => (request_dump s, RUnit)
  | OQuiesce => let s' := quiesce K s in (s', RAlive (s_alive s'))
  | OSleep => (upd_aged s true, RUnit)
  | OCounts => (s, counts s)
  | OClose => (closed_state (do_close K s) s, RUnit)
  | ODrop => (closed_state (closed_blobs s ++ match s_active s with Some b => [b] | None => [] end) s, RUnit)
  | OOpen lazy => (s, RErr EAlreadyOpen)
  | ORmIndex id =>
    let present := existsb (fun b => (b_id b =? id) && match b_idxfile b with Some _ => true | None => false end) (closed_blobs s) in
    (upd_closed s (map (fun o => match o with
                                 | Some b => Some (if b_id b =? id then rm_index b else b)
                                 | None => None end) (s_closed s)), RNum (if present then 1 else 0))
  | OCut id keep => (s, RUnit)
  end.
Proof.
  intros Ho. unfold step. rewrite Ho. cbn [negb]. rewrite andb_false_r.
  destruct o; try reflexivity. unfold do_cut. rewrite Ho. reflexivity.
Qed.

(* the worker survives every operation except the end of the session *)
Theorem alive_preserved : forall s o,
  s_open s = true -> s_alive s = true -> ~ ends_session o ->
  s_alive (fst (step_q K cfg s o)) = true.
Proof.
  intros s o Ho Ha Hend.
  rewrite step_q_fst, alive_quiesce, (step_open s o Ho).
  destruct o; cbn [fst]; try exact Ha.
  - rewrite alive_do_write. exact Ha.
  - rewrite alive_do_delete. exact Ha.
  - pose proof (alive_close_active s) as H. destruct (close_active s) as [s' e]. cbn [fst] in *.
    rewrite alive_request_dump. congruence.
  - pose proof (alive_create_active s) as H. destruct (create_active s) as [s' e]. cbn [fst] in *. congruence.
  - pose proof (alive_restore_active K s) as H. destruct (restore_active K s) as [s' e]. cbn [fst] in *. congruence.
  - (* OBgClose *) rewrite alive_request_dump, (alive_worker s close_active alive_close_active). exact Ha.
  - (* OBgCreate *) rewrite (alive_worker s create_active alive_create_active). exact Ha.
  - (* OBgRestore *) rewrite (alive_worker s (restore_active K) (alive_restore_active K)). exact Ha.
  - (* OForceUpdate *)
    rewrite alive_request_dump. destruct (s_alive s && eval_pred pred s); exact Ha.
  - rewrite alive_request_dump. exact Ha.
  - rewrite alive_quiesce. exact Ha.
  - exfalso. apply Hend. left. reflexivity.
  - exfalso. apply Hend. right. reflexivity.
Qed.

(* a background request made when it cannot apply changes nothing: the state before the implicit quiesce is the
   state it was made in, except that a close request still asks for the index dumps (as every close request
   does, TryDumpBlobIndexes being sent whatever the outcome) *)
Lemma inapplicable_step : forall s o,
  s_open s = true -> inapplicable s o ->
  fst (step K cfg s o) = match o with OBgClose => request_dump s | _ => s end.
Proof.
  intros s o Ho Hin. rewrite (step_open s o Ho).
  destruct o; cbn [inapplicable] in Hin; try contradiction; cbn [fst]; unfold worker.
  - unfold close_active. rewrite Hin. destruct (s_alive s); reflexivity.
  - unfold create_active. destruct (s_active s); [|congruence]. destruct (s_alive s); reflexivity.
  - unfold restore_active. destruct (s_active s); [destruct (s_alive s); reflexivity|].
    destruct Hin as [Hin|Hin]; [congruence|]. rewrite Hin. destruct (s_alive s); reflexivity.
Qed.

(* finding F1 repaired: each of the three requests, made when it cannot apply, leaves the worker alive and
   the log as it was *)
Theorem inapplicable_harmless : forall s o,
  s_open s = true -> s_alive s = true -> inapplicable s o ->
  s_alive (fst (step_q K cfg s o)) = true /\ abs (fst (step_q K cfg s o)) = abs s.
Proof.
  intros s o Ho Ha Hin. split.
  - apply alive_preserved; [exact Ho|exact Ha|].
    intros [E|E]; subst o; exact Hin.
  - rewrite step_q_fst, (quiesce_abs K), (inapplicable_step s o Ho Hin).
    destruct o; try reflexivity. apply abs_request_dump.
Qed.

(* and every read answers as before *)
Theorem inapplicable_reads : forall s o k meta,
  s_open s = true -> inapplicable s o ->
  get_latest_entry (fst (step K cfg s o)) k meta = get_latest_entry s k meta.
Proof.
  intros s o k meta Ho Hin. rewrite (inapplicable_step s o Ho Hin).
  destruct o; try reflexivity. unfold request_dump. destruct (s_alive s); reflexivity.
Qed.

(* the inapplicable requests themselves report success to the caller (the failure is only logged) *)
Theorem inapplicable_silent : forall s o,
  s_open s = true -> inapplicable s o -> snd (step_q K cfg s o) = RUnit.
Proof.
  intros s o Ho Hin. rewrite step_q_snd, (step_open s o Ho).
  destruct o; cbn [inapplicable] in Hin; try contradiction; reflexivity.
Qed.

(* a dead worker stays dead until the session ends (only OOpen revives it, and OOpen is refused while a
   session is open); since the repair of F1 no open storage with a dead worker is reachable
   (alive_after_every_history), so this speaks about no state a history leads to *)
Theorem dead_stays_dead : forall s o,
  s_open s = true -> s_alive s = false -> s_alive (fst (step_q K cfg s o)) = false.
Proof.
  intros s o Ho Ha.
  rewrite step_q_fst, alive_quiesce, (step_open s o Ho).
  destruct o; cbn [fst]; try exact Ha; try reflexivity.
  - rewrite alive_do_write. exact Ha.
  - rewrite alive_do_delete. exact Ha.
  - pose proof (alive_close_active s) as H. destruct (close_active s) as [s' e]. cbn [fst] in *.
    rewrite alive_request_dump. congruence.
  - pose proof (alive_create_active s) as H. destruct (create_active s) as [s' e]. cbn [fst] in *. congruence.
  - pose proof (alive_restore_active K s) as H. destruct (restore_active K s) as [s' e]. cbn [fst] in *. congruence.
  - rewrite alive_request_dump, worker_dead; exact Ha.
  - rewrite worker_dead; exact Ha.
  - rewrite worker_dead; exact Ha.
  - rewrite alive_request_dump, Ha. exact Ha.
  - rewrite alive_request_dump. exact Ha.
  - rewrite alive_quiesce. exact Ha.
Qed.

Lemma alive_do_open files bad quar c lazy f2 : s_alive (do_open K files bad quar c lazy f2) = true.
Proof.
  unfold do_open. destruct files as [|f fs]; [reflexivity|].
  destruct lazy; [reflexivity|].
  destruct (rev (sort_by_id (map (blob_from_file K) (filter (fun b => negb (is_bad bad b)) (f :: fs))))); reflexivity.
Qed.

(* a storage that was just opened has a live worker *)
Theorem open_alive : forall s lazy, s_open s = false -> s_alive (fst (step_q K cfg s (OOpen lazy))) = true.
Proof.
  intros s lazy Ho. rewrite step_q_fst, alive_quiesce.
  unfold step. cbn [needs_open andb]. rewrite Ho. cbn [fst]. apply alive_do_open.
Qed.

(* ---------- 1b. after every history ---------- *)

Lemma open_quiesce s : s_open (quiesce K s) = s_open s.
Proof. unfold quiesce. destruct (s_alive s && s_dump_req s); reflexivity. Qed.

(* a closed storage stays closed under everything but OOpen *)
Lemma step_closed s o : s_open s = false -> (forall lazy, o <> OOpen lazy) -> s_open (fst (step K cfg s o)) = false.
Proof.
  intros Ho Hne. unfold step. rewrite Ho.
  destruct o; cbn [needs_open negb andb fst]; try exact Ho.
  - exfalso. apply (Hne lazy). reflexivity.
  - rewrite open_do_cut. exact Ho.
Qed.

(* the worker is started by open (do_open) and stopped only by close / drop (closed_state) *)
Definition AliveWhenOpen (s : storage) : Prop := s_open s = true -> s_alive s = true.

Lemma step_q_AliveWhenOpen s o : AliveWhenOpen s -> AliveWhenOpen (fst (step_q K cfg s o)).
Proof.
  intros Hs Ho'. destruct (s_open s) eqn:Ho.
  - assert (Hend : ~ ends_session o).
    { intros [E|E]; subst o; rewrite step_q_fst, open_quiesce, (step_open s _ Ho) in Ho'; discriminate Ho'. }
    apply alive_preserved; [exact Ho|apply Hs, Ho|exact Hend].
  - destruct o; try (rewrite step_q_fst, open_quiesce, step_closed in Ho' by (exact Ho || discriminate); discriminate Ho').
    apply open_alive, Ho.
Qed.

Lemma run_AliveWhenOpen : forall ops s, AliveWhenOpen s -> AliveWhenOpen (fst (run K cfg s ops)).
Proof.
  induction ops as [|o r IH]; intros s Hs; [exact Hs|].
  cbn [run]. pose proof (step_q_AliveWhenOpen s o Hs) as H1.
  destruct (step_q K cfg s o) as [s' x]. cbn [fst] in H1. specialize (IH s' H1).
  destruct (run K cfg s' r) as [s'' xs]. exact IH.
Qed.

(* after EVERY history: a storage that is open has a live worker (no side condition) *)
Theorem alive_after_every_history : forall ops,
  s_open (reach K cfg ops) = true -> s_alive (reach K cfg ops) = true.
Proof.
  intros ops. apply (run_AliveWhenOpen ops init_storage). intros H. discriminate H.
Qed.

(* ---------- 2. rotation ---------- *)

(* `b_ondisk b = false` follows from `blob_append b _ = (b', true)`; it is kept as in the
   requested statement (harmless redundancy).  `c_dup cfg = true` makes the duplicate check
   vacuous (with `c_dup = false` an existing live version of the key turns the write into a no-op). *)
Theorem rotation_happens : forall s k ts meta msize dlen dseed b b',
  s_open s = true -> s_alive s = true -> s_aged s = true -> s_active s = Some b -> b_ondisk b = false ->
  c_dup cfg = true ->
  blob_append b (mk_rec k ts false meta msize dlen dseed) = (b', true) ->
  blob_full K cfg b' = true ->
  let s' := fst (step K cfg s (OWrite k ts meta msize dlen dseed)) in
  (exists nb, s_active s' = Some nb /\ b_id nb = s_next s /\ b_recs nb = []) /\
  In (Some b') (s_closed s') /\ s_next s' = s_next s + 1.
Proof.
  intros s k ts meta msize dlen dseed b b' Ho Ha Hg Hact Hmem Hdup Happ Hfull s'.
  subst s'. rewrite (step_open s _ Ho). unfold do_write.
  assert (He : ensure_active s = s). { unfold ensure_active. rewrite Hact. reflexivity. }
  rewrite He, Hdup, Hact. cbn [negb andb]. rewrite Happ.
  unfold maybe_rotate. cbn [fst upd_active s_active s_aged s_alive].
  rewrite Hfull, Hg, Ha. cbn [andb].
  unfold request_dump. rewrite alive_replace_active. cbn [upd_active s_alive]. rewrite Ha.
  cbn [upd_dump_req replace_active upd_active s_active s_closed s_next push_closed upd_closed].
  split; [|split].
  - exists (new_blob (s_next s)). repeat split.
  - apply in_or_app. right. left. reflexivity.
  - reflexivity.
Qed.

(* the counterpart: with a dead worker the same write does not rotate (what made F1 matter; since its
   repair no history leads to an open storage with a dead worker) *)
Theorem no_rotation_when_dead : forall s k ts meta msize dlen dseed b,
  s_open s = true -> s_alive s = false -> s_active s = Some b ->
  let s' := fst (step K cfg s (OWrite k ts meta msize dlen dseed)) in
  s_next s' = s_next s /\ s_closed s' = s_closed s.
Proof.
  intros s k ts meta msize dlen dseed b Ho Ha Hact s'. subst s'.
  rewrite (step_open s _ Ho). unfold do_write.
  assert (He : ensure_active s = s). { unfold ensure_active. rewrite Hact. reflexivity. }
  rewrite He, Hact.
  destruct (negb (c_dup cfg) && is_found (get_latest_entry s k meta)); [split; reflexivity|].
  destruct (blob_append b _) as [b' ok]. destruct ok; cbn [fst]; [|split; reflexivity].
  unfold maybe_rotate. cbn [upd_active s_active s_aged s_alive]. rewrite Ha, andb_false_r.
  split; reflexivity.
Qed.

(* ---------- 3. requested dumps complete ---------- *)

Lemma blob_dump_done b : b_ondisk (blob_dump K b) = true \/ b_idx (blob_dump K b) = [].
Proof.
  unfold blob_dump. destruct (b_ondisk b) eqn:E; [left; exact E|].
  destruct (b_idx b) eqn:Ei; [right; exact Ei | left; reflexivity].
Qed.

Theorem dumps_complete : forall s,
  s_alive s = true -> s_dump_req s = true ->
  forall b, In (Some b) (s_closed (quiesce K s)) -> b_ondisk b = true \/ b_idx b = [].
Proof.
  intros s Ha Hd b Hin. unfold quiesce in Hin. rewrite Ha, Hd in Hin.
  cbn [andb upd_dump_req dump_all_closed upd_closed s_closed] in Hin.
  apply in_map_iff in Hin. destruct Hin as [[b0|] [Heq _]]; [|discriminate].
  injection Heq as <-. apply blob_dump_done.
Qed.

(* and the request is discharged *)
Theorem quiesce_discharges : forall s, s_alive s = true -> s_dump_req (quiesce K s) = false.
Proof.
  intros s Ha. unfold quiesce. rewrite Ha. cbn [andb].
  destruct (s_dump_req s) eqn:E; [reflexivity | exact E].
Qed.

(* ---------- 4. close ---------- *)

Theorem close_returns : forall s, s_open s = true ->
  snd (step_q K cfg s OClose) = RUnit /\ s_open (fst (step_q K cfg s OClose)) = false.
Proof.
  intros s Ho. rewrite step_q_snd, step_q_fst, (step_open s OClose Ho). cbn [fst snd].
  split; reflexivity.
Qed.

(* "leaves only files": no blob object, no worker, nothing pending *)
Theorem close_only_files : forall s, s_open s = true ->
  let s' := fst (step_q K cfg s OClose) in
  s_active s' = None /\ s_alive s' = false /\ s_dump_req s' = false /\
  closed_blobs s' = do_close K s.
Proof.
  intros s Ho s'. subst s'. rewrite step_q_fst, (step_open s OClose Ho). cbn [fst].
  unfold quiesce. cbn [closed_state s_alive andb s_active s_dump_req].
  repeat split. rewrite closed_blobs_cb. cbn [s_closed]. apply cb_map_Some.
Qed.

End K.

(* ---------- the former witness of F1 ---------- *)
(* open a fresh directory (an active blob exists), then a background "create active blob" request:
   it cannot apply and is ignored; afterwards exceeding the record limit (1) rotates as it does without the
   request (before commit 62103db of the code: s_alive = false, next_blob_id stayed 1 and both records sat in
   the blob 0). *)
Example F1_repaired :
  let cfg := {| c_dup := true; c_maxrec := 1; c_maxsize := 1000000 |} in
  let s := fst (run 4 cfg init_storage [OOpen false; OBgCreate; OSleep; OWrite 1 7 None 8 5 1; OSleep; OWrite 1 8 None 8 5 2]) in
  s_alive s = true /\ s_next s = 3.
Proof. vm_compute. split; reflexivity. Qed.

(* control: the same script without the inapplicable request rotates (twice: next_blob_id = 3) *)
Example F1_control :
  let cfg := {| c_dup := true; c_maxrec := 1; c_maxsize := 1000000 |} in
  let s := fst (run 4 cfg init_storage [OOpen false; OSleep; OWrite 1 7 None 8 5 1; OSleep; OWrite 1 8 None 8 5 2]) in
  s_alive s = true /\ s_next s = 3.
Proof. vm_compute. split; reflexivity. Qed.

Print Assumptions alive_preserved.
Print Assumptions inapplicable_harmless.
Print Assumptions inapplicable_reads.
Print Assumptions alive_after_every_history.
Print Assumptions inapplicable_silent.
Print Assumptions dead_stays_dead.
Print Assumptions open_alive.
Print Assumptions rotation_happens.
Print Assumptions no_rotation_when_dead.
Print Assumptions dumps_complete.
Print Assumptions quiesce_discharges.
Print Assumptions close_returns.
Print Assumptions close_only_files.
Print Assumptions F1_repaired.
Print Assumptions F1_control.
