(* L3: sequential executable model of pearl's Storage (src/storage/core.rs, src/blob/core.rs,
   src/blob/index/core.rs, src/storage/observer_worker.rs), written function by function after the
   Rust. Background activity appears as explicit state (`s_dump_req`) that `Quiesce` discharges.
   Filters are not in this layer: they only skip blobs that do not hold the key (C10). The on-disk
   B+tree is represented by the in-memory map it was built from (C09 bridges the two). *)
Require Import Pearl.Base.Prelude.

(* ---------- records ---------- *)
Record rec := mkRec {
  r_key : N; r_ts : N; r_del : bool;
  r_meta : N;        (* identifier of the metadata map; 0 = the empty map (also used when no meta is given) *)
  r_msize : N;       (* serialized size of the metadata *)
  r_dlen : N; r_dseed : N   (* payload = gen_data(seed, len); its content is opaque at this layer *)
}.

Definition imap := list (N * list rec).   (* InMemoryIndex: key -> headers in ascending timestamp order *)

Fixpoint imap_get (m : imap) (k : N) : option (list rec) :=
  match m with [] => None | (k', v) :: r => if k' =? k then Some v else imap_get r k end.

(* BTreeMap insert keeps keys ordered (the order matters only for serialisation, C09) *)
Fixpoint imap_put (m : imap) (k : N) (v : list rec) : imap :=
  match m with
  | [] => [(k, v)]
  | (k', v') :: r => if k =? k' then (k, v) :: r else if k <? k' then (k, v) :: m else (k', v') :: imap_put r k v
  end.

(* IndexStruct::push: position after every header with timestamp <= the new one.
   (For vectors longer than 4 the code starts from slice::binary_search_by's answer and then skips
   forward over `<=`; on a sorted vector this is the same position whichever equal element was hit.) *)
Fixpoint vec_insert (v : list rec) (h : rec) : list rec :=
  match v with
  | [] => [h]
  | x :: r => if r_ts x <=? r_ts h then x :: vec_insert r h else h :: v
  end.

Definition imap_push (m : imap) (h : rec) : imap :=
  match imap_get m (r_key h) with
  | Some v => imap_put m (r_key h) (vec_insert v h)
  | None => imap_put m (r_key h) [h]
  end.

Definition imap_count (m : imap) : N := fold_left (fun a kv => a + N.of_nat (length (snd kv))) m 0.

(* ---------- read results ---------- *)
Inductive rr (A : Type) := Found (a : A) | Deleted (ts : N) | NotFound.
Arguments Found {A}. Arguments Deleted {A}. Arguments NotFound {A}.

Definition rr_ts {A} (ts_of : A -> N) (r : rr A) : option N :=
  match r with Found a => Some (ts_of a) | Deleted t => Some t | NotFound => None end.

(* Option<BlobRecordTimestamp> ordering: None < Some *)
Definition opt_gt (a b : option N) : bool :=
  match a, b with
  | Some x, Some y => y <? x
  | Some _, None => true
  | None, _ => false
  end.

(* ReadResult::latest: `other` replaces `self` only when strictly newer *)
Definition rr_latest {A} (ts_of : A -> N) (self other : rr A) : rr A :=
  if opt_gt (rr_ts ts_of other) (rr_ts ts_of self) then other else self.

(* index get_latest: last of the vector *)
Definition idx_get_latest (m : imap) (k : N) : rr rec :=
  match imap_get m k with
  | Some v => match rev v with
              | h :: _ => if r_del h then Deleted (r_ts h) else Found h
              | [] => NotFound
              end
  | None => NotFound
  end.

Fixpoint cut_after_del (l : list rec) : list rec :=
  match l with [] => [] | h :: r => if r_del h then [h] else h :: cut_after_del r end.

(* index get_all_with_deletion_marker: reversed vector truncated after the first marker *)
Definition idx_get_all_dm (m : imap) (k : N) : list rec :=
  match imap_get m k with Some v => cut_after_del (rev v) | None => [] end.

Definition strip_last_del (l : list rec) : list rec :=
  match rev l with h :: r => if r_del h then rev r else l | [] => l end.

Definition last_del_ts (l : list rec) : option N :=
  match rev l with h :: _ => if r_del h then Some (r_ts h) else None | [] => None end.

(* Blob::get_entry_with_meta *)
Definition blob_get_with_meta (m : imap) (k meta : N) : rr rec :=
  let hs := idx_get_all_dm m k in
  match find (fun h => r_meta h =? meta) (strip_last_del hs) with
  | Some h => Found h
  | None => match last_del_ts hs with Some t => Deleted t | None => NotFound end
  end.

(* Blob::get_latest_entry (filters excluded) *)
Definition blob_get_latest (m : imap) (k : N) (meta : option N) : rr rec :=
  match meta with Some mt => blob_get_with_meta m k mt | None => idx_get_latest m k end.

(* ---------- blobs ---------- *)
Record blob := mkBlob {
  b_id : N;
  b_recs : list rec;            (* records in file order *)
  b_idx : imap;                 (* content of the index (in memory, or the map the index file was built from) *)
  b_ondisk : bool;              (* State::OnDisk *)
  b_idxfile : option (N * imap) (* index file on disk: (blob_size it records, map it was built from) *)
}.

Section WithK.
Variable K : N.                 (* key length *)

Definition rhs : N := 57 + K.   (* serialized record header *)
Definition rec_size (r : rec) : N := rhs + r_msize r + r_dlen r.
Definition BLOB_HEADER_SIZE : N := 20.
Definition blob_size (b : blob) : N := fold_left (fun a r => a + rec_size r) (b_recs b) BLOB_HEADER_SIZE.

Definition index_of (rs : list rec) : imap := fold_left imap_push rs [].

Definition new_blob (id : N) : blob :=
  {| b_id := id; b_recs := []; b_idx := []; b_ondisk := false; b_idxfile := None |}.

(* Blob::write / write_mut: bytes are appended first, then the header is pushed into the index;
   the push fails (ErrorKind::Index) when the index is on disk -- the bytes stay in the file. *)
Definition blob_append (b : blob) (r : rec) : blob * bool :=
  if b_ondisk b then
    ({| b_id := b_id b; b_recs := b_recs b ++ [r]; b_idx := b_idx b; b_ondisk := true; b_idxfile := b_idxfile b |}, false)
  else
    ({| b_id := b_id b; b_recs := b_recs b ++ [r]; b_idx := imap_push (b_idx b) r; b_ondisk := false; b_idxfile := b_idxfile b |}, true).

(* Blob::load_index: Index::load validates the file against the current blob size; on any error the
   index is cleared and regenerated by scanning the blob *)
Definition blob_load_index (b : blob) : blob :=
  if b_ondisk b then
    let m := match b_idxfile b with
             | Some (sz, m) => if sz =? blob_size b then m else index_of (b_recs b)
             | None => index_of (b_recs b)
             end in
    {| b_id := b_id b; b_recs := b_recs b; b_idx := m; b_ondisk := false; b_idxfile := b_idxfile b |}
  else b.

(* Blob::dump *)
Definition blob_dump (b : blob) : blob :=
  if b_ondisk b then b
  else match b_idx b with
       | [] => b                                  (* dump_in_memory returns Ok(0) on an empty map *)
       | _ => {| b_id := b_id b; b_recs := b_recs b; b_idx := b_idx b; b_ondisk := true;
                 b_idxfile := Some (blob_size b, b_idx b) |}
       end.

(* Blob::delete *)
Definition blob_delete (b : blob) (mk : rec) (oip : bool) : blob * bool (* deleted *) * bool (* ok *) :=
  let live := match idx_get_latest (b_idx b) (r_key mk) with Found _ => true | _ => false end in
  if negb oip || live then
    let b1 := blob_load_index b in            (* push_deletion_record *)
    let '(b2, ok) := blob_append b1 mk in (b2, true, ok)
  else (b, false, true).

(* ---------- storage ---------- *)
Record config := { c_dup : bool; c_maxrec : N; c_maxsize : N }.

Record storage := mkSt {
  s_active : option blob;
  s_closed : list (option blob);   (* HierarchicalFilters::children: vacated slots stay as None *)
  s_next : N;                      (* next_blob_id *)
  s_corrupted : N;
  s_alive : bool;                  (* observer worker task still running *)
  s_dump_req : bool;               (* a TryDumpBlobIndexes / deferred dump request is outstanding *)
  s_aged : bool;                   (* the active blob is older than the debounce interval *)
  s_open : bool;
  s_f2 : bool;                     (* ghost: a record was appended to a blob whose index was on disk (finding F2) *)
  s_bad : list N;                  (* between sessions: ids of blob files of the work directory that are unreadable (cut inside
                                      a record or inside the blob header); they sit in the directory until the next start *)
  s_quar : list N                  (* ids of the blob files in the corrupted directory, oldest first *)
}.

Definition closed_blobs (s : storage) : list blob :=
  flat_map (fun o => match o with Some b => [b] | None => [] end) (s_closed s).

Definition upd_active (s : storage) (a : option blob) : storage :=
  {| s_active := a; s_closed := s_closed s; s_next := s_next s; s_corrupted := s_corrupted s; s_alive := s_alive s;
     s_dump_req := s_dump_req s; s_aged := s_aged s; s_open := s_open s; s_f2 := s_f2 s;
     s_bad := s_bad s; s_quar := s_quar s |}.
Definition upd_closed (s : storage) (c : list (option blob)) : storage :=
  {| s_active := s_active s; s_closed := c; s_next := s_next s; s_corrupted := s_corrupted s; s_alive := s_alive s;
     s_dump_req := s_dump_req s; s_aged := s_aged s; s_open := s_open s; s_f2 := s_f2 s;
     s_bad := s_bad s; s_quar := s_quar s |}.
Definition upd_dump_req (s : storage) (d : bool) : storage :=
  {| s_active := s_active s; s_closed := s_closed s; s_next := s_next s; s_corrupted := s_corrupted s; s_alive := s_alive s;
     s_dump_req := d; s_aged := s_aged s; s_open := s_open s; s_f2 := s_f2 s;
     s_bad := s_bad s; s_quar := s_quar s |}.
Definition upd_alive (s : storage) (a : bool) : storage :=
  {| s_active := s_active s; s_closed := s_closed s; s_next := s_next s; s_corrupted := s_corrupted s; s_alive := a;
     s_dump_req := s_dump_req s; s_aged := s_aged s; s_open := s_open s; s_f2 := s_f2 s;
     s_bad := s_bad s; s_quar := s_quar s |}.
Definition upd_aged (s : storage) (a : bool) : storage :=
  {| s_active := s_active s; s_closed := s_closed s; s_next := s_next s; s_corrupted := s_corrupted s; s_alive := s_alive s;
     s_dump_req := s_dump_req s; s_aged := a; s_open := s_open s; s_f2 := s_f2 s;
     s_bad := s_bad s; s_quar := s_quar s |}.
Definition upd_f2 (s : storage) (f : bool) : storage :=
  {| s_active := s_active s; s_closed := s_closed s; s_next := s_next s; s_corrupted := s_corrupted s; s_alive := s_alive s;
     s_dump_req := s_dump_req s; s_aged := s_aged s; s_open := s_open s; s_f2 := s_f2 s || f;
     s_bad := s_bad s; s_quar := s_quar s |}.

(* before the first `open`: an empty directory *)
Definition init_storage : storage :=
  {| s_active := None; s_closed := []; s_next := 0; s_corrupted := 0; s_alive := false;
     s_dump_req := false; s_aged := false; s_open := false; s_f2 := false; s_bad := []; s_quar := [] |}.

(* Inner::ensure_active_blob_exists *)
Definition ensure_active (s : storage) : storage :=
  match s_active s with
  | Some _ => s
  | None =>
    {| s_active := Some (new_blob (s_next s)); s_closed := s_closed s; s_next := s_next s + 1;
       s_corrupted := s_corrupted s; s_alive := s_alive s; s_dump_req := s_dump_req s; s_aged := false;
       s_open := s_open s; s_f2 := s_f2 s; s_bad := s_bad s; s_quar := s_quar s |}
  end.

(* Storage::get_latest_entry: active blob first, then closed blobs newest to oldest, merged by `latest` *)
Definition get_latest_entry (s : storage) (k : N) (meta : option N) : rr rec :=
  let a := match s_active s with Some b => rr_latest r_ts NotFound (blob_get_latest (b_idx b) k meta) | None => NotFound end in
  fold_left (fun acc b => rr_latest r_ts acc (blob_get_latest (b_idx b) k meta)) (rev (closed_blobs s)) a.

(* stable insertion sort by timestamp, descending (slice::sort_by is stable) *)
Fixpoint ins_desc (h : rec) (l : list rec) : list rec :=
  match l with
  | [] => [h]
  | x :: r => if r_ts x <=? r_ts h then h :: l else x :: ins_desc h r
  end.
Definition sort_desc (l : list rec) : list rec := fold_right ins_desc [] l.

(* Storage::read_all_with_deletion_marker *)
Definition read_all_dm (s : storage) (k : N) : list rec :=
  let per_blob :=
    (match s_active s with Some b => [idx_get_all_dm (b_idx b) k] | None => [] end)
    ++ map (fun b => idx_get_all_dm (b_idx b) k) (rev (closed_blobs s)) in
  let affected := length (filter (fun l => match l with [] => false | _ => true end) per_blob) in
  let marker := existsb (fun l => match last_del_ts l with Some _ => true | None => false end) per_blob in
  let all := concat per_blob in
  if (1 <? affected)%nat then
    let sorted := sort_desc all in
    if marker then cut_after_del sorted else sorted
  else all.

Definition read_all (s : storage) (k : N) : list rec := strip_last_del (read_all_dm s k).

(* ---------- operations ---------- *)
Inductive err := EActiveBlobExists | EActiveBlobDoesntExist | EUninitialized | EIndex | EActiveBlobNotSet | ENoStorage | EAlreadyOpen.

Inductive op :=
| OWrite (k ts : N) (meta : option N) (msize dlen dseed : N)
| ODelete (k ts : N) (meta : option N) (msize : N) (oip : bool)
| ORead (k : N) | OReadWith (k meta : N) | OContains (k : N) | OReadAll (k : N) | OReadAllDm (k : N)
| OCloseActive | OCreateActive | ORestoreActive
| OBgClose | OBgCreate | OBgRestore
| OForceUpdate (pred : N)        (* 0 always, 1 never, 2 some, 3 nonempty *)
| OFreeExcess | OQuiesce | OSleep | OCounts
| OClose                         (* Storage::close *)
| ODrop                          (* session ends without close(): files stay as they are *)
| OOpen (lazy : bool)            (* a new Storage on the same directory: init / init_lazy *)
| ORmIndex (id : N)              (* between sessions: remove an index file *)
| OCut (id : N) (keep : option nat).
    (* between sessions: crash damage of a blob file. Some j: the file ends behind its j-th record;
       None: it ends inside a record or inside the blob header (unreadable) *)

Inductive out :=
| RUnit | RErr (e : err) | RNum (n : N)
| RRead (r : rr rec) | RList (l : list rec)
| RCounts (records : N) (detailed : list (N * N)) (active : option N) (blobs next corrupted : N) (has_active : bool)
| RAlive (b : bool).

Definition push_closed (s : storage) (b : blob) : storage := upd_closed s (s_closed s ++ [Some b]).

(* HierarchicalFilters::pop : last occupied slot is vacated *)
Fixpoint pop_last (l : list (option blob)) : option (blob * list (option blob)) :=
  match l with
  | [] => None
  | x :: r =>
    match pop_last r with
    | Some (b, r') => Some (b, x :: r')
    | None => match x with Some b => Some (b, None :: r) | None => None end
    end
  end.

(* Inner::close_active_blob *)
Definition close_active (s : storage) : storage * option err :=
  match s_active s with
  | None => (s, Some EActiveBlobDoesntExist)
  | Some b => (push_closed (upd_active s None) b, None)
  end.

(* Inner::create_active_blob *)
Definition create_active (s : storage) : storage * option err :=
  match s_active s with
  | Some _ => (s, Some EActiveBlobExists)
  | None => (ensure_active s, None)
  end.

(* Inner::restore_active_blob *)
Definition restore_active (s : storage) : storage * option err :=
  match s_active s with
  | Some _ => (s, Some EActiveBlobExists)
  | None =>
    match pop_last (s_closed s) with
    | Some (b, c) => (upd_active (upd_closed s c) (Some (blob_load_index b)), None)   (* index loaded as in pop_active *)
    | None => (s, Some EUninitialized)
    end
  end.

(* observer worker: a background request that fails (inapplicable in the current state, or an I/O error) is logged
   where it occurs; the worker carries on (before commit 62103db of the code it panicked: finding F1) *)
Definition worker (s : storage) (f : storage -> storage * option err) : storage :=
  if s_alive s then fst (f s) else s.

Definition request_dump (s : storage) : storage := if s_alive s then upd_dump_req s true else s.

(* update_active_blob: a fresh blob becomes active, the old one (if any) is pushed to the closed list *)
Definition replace_active (s : storage) : storage :=
  let nb := new_blob (s_next s) in
  let s1 := match s_active s with Some b => push_closed s b | None => s end in
  {| s_active := Some nb; s_closed := s_closed s1; s_next := s_next s + 1; s_corrupted := s_corrupted s;
     s_alive := s_alive s; s_dump_req := s_dump_req s; s_aged := false; s_open := s_open s; s_f2 := s_f2 s;
     s_bad := s_bad s; s_quar := s_quar s |}.

Definition active_count (s : storage) : option N :=
  match s_active s with Some b => Some (imap_count (b_idx b)) | None => None end.

Definition eval_pred (p : N) (s : storage) : bool :=
  match p with
  | 0 => true
  | 1 => false
  | 2 => match s_active s with Some _ => true | None => false end
  | _ => match active_count s with Some n => 0 <? n | None => false end
  end.

Variable cfg : config.

Definition blob_full (b : blob) : bool :=
  (c_maxsize cfg <=? blob_size b) || (c_maxrec cfg <=? imap_count (b_idx b)).

(* after a write: size/count check + debounce -> TryUpdateActiveBlob message (processed by the worker) *)
Definition maybe_rotate (s : storage) : storage :=
  match s_active s with
  | Some b => if blob_full b && s_aged s && s_alive s then request_dump (replace_active s) else s
  | None => s
  end.

Definition dump_all_closed (s : storage) : storage :=
  upd_closed s (map (fun o => match o with Some b => Some (blob_dump b) | None => None end) (s_closed s)).

Definition quiesce (s : storage) : storage :=
  if s_alive s && s_dump_req s then upd_dump_req (dump_all_closed s) false else s.

Definition mk_rec (k ts : N) (del : bool) (meta : option N) (msize dlen dseed : N) : rec :=
  {| r_key := k; r_ts := ts; r_del := del; r_meta := match meta with Some m => m | None => 0 end;
     r_msize := msize; r_dlen := dlen; r_dseed := dseed |}.

Definition is_found {A} (r : rr A) : bool := match r with Found _ => true | _ => false end.

(* Storage::write_with_optional_meta *)
Definition do_write (s : storage) (k ts : N) (meta : option N) (msize dlen dseed : N) : storage * out :=
  let s := ensure_active s in                                   (* try_create_active_blob, result ignored *)
  if negb (c_dup cfg) && is_found (get_latest_entry s k meta) then (s, RUnit)
  else
    match s_active s with
    | None => (s, RErr EActiveBlobNotSet)
    | Some b =>
      let '(b', ok) := blob_append b (mk_rec k ts false meta msize dlen dseed) in
      let s' := upd_active s (Some b') in
      if ok then (maybe_rotate s', RUnit) else (upd_f2 s' true, RErr EIndex)
    end.

Fixpoint delete_in_closed (l : list (option blob)) (mk : rec) : list (option blob) * N * bool (* f2 *) :=
  match l with
  | [] => ([], 0, false)
  | None :: r => let '(r', n, f) := delete_in_closed r mk in (None :: r', n, f)
  | Some b :: r =>
    let '(r', n, f) := delete_in_closed r mk in
    let '(b', deleted, ok) := blob_delete b mk true in
    (* errors are logged and counted as 0 *)
    (Some b' :: r', (if deleted && ok then n + 1 else n), f || negb ok)
  end.

(* Storage::delete_with_optional_meta *)
Definition do_delete (s : storage) (k ts : N) (meta : option N) (msize : N) (oip : bool) : storage * out :=
  let s := if oip then s else ensure_active s in
  let mk := mk_rec k ts true meta msize 0 0 in
  let '(s1, n_active, ok_active) :=
    match s_active s with
    | Some b => let '(b', deleted, ok) := blob_delete b mk oip in
                (upd_active s (Some b'), (if deleted then 1 else 0), ok)
    | None => (s, 0, true)
    end in
  if negb ok_active then (upd_f2 s1 true, RErr EIndex)
  else
    let '(c', n_closed, f) := delete_in_closed (s_closed s1) mk in
    let s2 := upd_f2 (upd_closed s1 c') f in
    let s3 := if 0 <? n_closed then request_dump s2 else s2 in
    (s3, RNum (n_active + n_closed)).

Definition counts (s : storage) : out :=
  let det_closed := map (fun b => (b_id b, imap_count (b_idx b))) (closed_blobs s) in
  let det := det_closed ++ match s_active s with
                           | Some b => [(b_id b, imap_count (b_idx b))]
                           | None => [] end in
  RCounts (fold_left (fun a p => a + snd p) det 0) det (active_count s)
          (N.of_nat (length (closed_blobs s)) + match s_active s with Some _ => 1 | None => 0 end)
          (s_next s) (s_corrupted s) (match s_active s with Some _ => true | None => false end).

(* ---- restart: Storage::close, then Storage::init / init_lazy on the same directory ---- *)

(* Blob::from_file: trust the index file iff its recorded blob size equals the file size, else
   regenerate the index by scanning the records in file order *)
Definition blob_from_file (b : blob) : blob :=
  match b_idxfile b with
  | Some (sz, m) =>
    if sz =? blob_size b then
      {| b_id := b_id b; b_recs := b_recs b; b_idx := m; b_ondisk := true; b_idxfile := b_idxfile b |}
    else
      {| b_id := b_id b; b_recs := b_recs b; b_idx := index_of (b_recs b); b_ondisk := false; b_idxfile := b_idxfile b |}
  | None =>
    {| b_id := b_id b; b_recs := b_recs b; b_idx := index_of (b_recs b); b_ondisk := false; b_idxfile := None |}
  end.

Fixpoint insert_by_id (b : blob) (l : list blob) : list blob :=
  match l with [] => [b] | x :: r => if b_id b <? b_id x then b :: l else x :: insert_by_id b r end.
Definition sort_by_id (l : list blob) : list blob := fold_right insert_by_id [] l.

Definition max_id (l : list blob) : option N :=
  fold_left (fun a b => match a with Some m => Some (N.max m (b_id b)) | None => Some (b_id b) end) l None.

Definition do_close (s : storage) : list blob :=
  (* close(): the active blob is dumped; closed blobs stay as they are; vacated slots disappear with the process *)
  closed_blobs s ++ match s_active s with Some b => [blob_dump b] | None => [] end.

(* greatest element of a list of ids *)
Definition max_ids (l : list N) : option N :=
  fold_left (fun a i => match a with Some m => Some (N.max m i) | None => Some i end) l None.

Definition next_above (l : list N) : N := match max_ids l with Some m => m + 1 | None => 0 end.

(* the blob file cannot be read back: Blob::from_file fails with a bincode error (C06) *)
Definition is_bad (bad : list N) (b : blob) : bool := existsb (N.eqb (b_id b)) bad.

(* Storage::init / init_lazy (init_ext). `bad`: the blob files of the work directory that cannot be read back; they are
   moved (renamed) to the corrupted directory. `quar`: the ids of the files already there. A blob id that a file of
   either directory ever had is never handed out again. *)
Definition do_open (files : list blob) (bad quar : list N) (corrupted : N) (lazy : bool) (f2 : bool) : storage :=
  match files with
  | [] => (* init_new: no blob file at all in the work directory *)
    let id0 := next_above quar in
    {| s_active := Some (new_blob id0); s_closed := []; s_next := id0 + 1; s_corrupted := corrupted; s_alive := true;
       s_dump_req := false; s_aged := false; s_open := true; s_f2 := f2; s_bad := []; s_quar := quar |}
  | _ =>
    let good := filter (fun b => negb (is_bad bad b)) files in
    let newq := map b_id (filter (is_bad bad) files) in
    let blobs := sort_by_id (map blob_from_file good) in
    let next := next_above (map b_id files ++ quar) in
    let '(active, rest, next') :=
      if lazy then (None, blobs, next)
      else match rev blobs with
           | last :: r => (Some (blob_load_index last), rev r, next)
           | [] => (Some (new_blob next), [], next + 1)      (* every file was unreadable: a fresh active blob *)
           end in
    {| s_active := active; s_closed := map (fun b => Some (blob_dump b)) rest; s_next := next';
       s_corrupted := corrupted + N.of_nat (length newq); s_alive := true; s_dump_req := false; s_aged := false;
       s_open := true; s_f2 := f2; s_bad := []; s_quar := quar ++ newq |}
  end.

(* a closed storage = the files left in the directory *)
Definition closed_state (files : list blob) (s : storage) : storage :=
  {| s_active := None; s_closed := map Some files; s_next := s_next s; s_corrupted := s_corrupted s; s_alive := false;
     s_dump_req := false; s_aged := false; s_open := false; s_f2 := s_f2 s; s_bad := s_bad s; s_quar := s_quar s |}.

Definition rm_index (b : blob) : blob :=
  {| b_id := b_id b; b_recs := b_recs b; b_idx := b_idx b; b_ondisk := b_ondisk b; b_idxfile := None |}.

(* ---- crash damage between two sessions ---- *)
(* OCut id (Some j): the blob file is cut at the boundary behind its j-th record (C06: opening it serves exactly the
   records in front of the cut). OCut id None: it is cut inside a record or inside the 20-byte blob header: it cannot be
   read back; it sits in the work directory (`s_bad`) until the next start moves it to the corrupted directory.

   `cut_applies`: THE DURABILITY ASSUMPTION of the crash model. A crash loses only bytes that were not synced, and
   Blob::dump syncs the blob file BEFORE it writes the index file (C12: an index file is marked complete only when every
   byte of its blob is synced): the bytes an index file describes are durable. So a boundary cut applies only when the
   blob has no index file or the size the index file records is <= the size after the cut; otherwise it is the no-op.
   A cut below that size is the loss of synced bytes -- damage of the medium, not of a crash -- and is outside this
   model; CrashProofs.cut_below_index_breaks_reads shows what it would do (a regenerated index leaves the stale index
   file on disk, and a later coincidence of sizes makes it trusted).

   The index of a file of a closed directory is not an object of any process: the cut keeps it equal to the index of
   the records, so that the invariants read the same in closed states; Blob::from_file recomputes it anyway. *)
Definition cut_recs (j : nat) (b : blob) : blob :=
  {| b_id := b_id b; b_recs := firstn j (b_recs b); b_idx := index_of (firstn j (b_recs b)); b_ondisk := b_ondisk b;
     b_idxfile := b_idxfile b |}.

Definition cut_applies (j : nat) (b : blob) : bool :=
  match b_idxfile b with Some (sz, _) => sz <=? blob_size (cut_recs j b) | None => true end.

Definition cut_blob (id : N) (j : nat) (b : blob) : blob :=
  if (b_id b =? id) && cut_applies j b then cut_recs j b else b.

Definition add_bad (id : N) (bad : list N) : list N := if existsb (N.eqb id) bad then bad else bad ++ [id].

Definition upd_bad (s : storage) (bad : list N) : storage :=
  {| s_active := s_active s; s_closed := s_closed s; s_next := s_next s; s_corrupted := s_corrupted s; s_alive := s_alive s;
     s_dump_req := s_dump_req s; s_aged := s_aged s; s_open := s_open s; s_f2 := s_f2 s;
     s_bad := bad; s_quar := s_quar s |}.

Definition do_cut (s : storage) (id : N) (keep : option nat) : storage :=
  if s_open s then s
  else match keep with
       | Some j => upd_closed s (map (fun o => match o with Some b => Some (cut_blob id j b) | None => None end) (s_closed s))
       | None => if existsb (fun b => b_id b =? id) (closed_blobs s) then upd_bad s (add_bad id (s_bad s)) else s
       end.

Definition needs_open (o : op) : bool :=
  match o with OOpen _ | ORmIndex _ | OCut _ _ | OSleep => false | _ => true end.

Definition step (s : storage) (o : op) : storage * out :=
  if needs_open o && negb (s_open s) then (s, RErr ENoStorage) else
  match o with
  | OWrite k ts meta msize dlen dseed => do_write s k ts meta msize dlen dseed
  | ODelete k ts meta msize oip => do_delete s k ts meta msize oip
  | ORead k => (s, RRead (get_latest_entry s k None))
  | OReadWith k m => (s, RRead (get_latest_entry s k (Some m)))
  | OContains k => (s, RRead (get_latest_entry s k None))
  | OReadAll k => (s, RList (read_all s k))
  | OReadAllDm k => (s, RList (read_all_dm s k))
  | OCloseActive =>
    let '(s', e) := close_active s in
    (request_dump s', match e with Some e => RErr e | None => RUnit end)
  | OCreateActive => let '(s', e) := create_active s in (s', match e with Some e => RErr e | None => RUnit end)
  | ORestoreActive => let '(s', e) := restore_active s in (s', match e with Some e => RErr e | None => RUnit end)
  | OBgClose => (request_dump (worker s close_active), RUnit)
  | OBgCreate => (worker s create_active, RUnit)
  | OBgRestore => (worker s restore_active, RUnit)
  | OForceUpdate p =>
    let s' := if s_alive s && eval_pred p s then replace_active s else s in (request_dump s', RUnit)
  | OFreeExcess => (request_dump s, RUnit)
  | OQuiesce => let s' := quiesce s in (s', RAlive (s_alive s'))
  | OSleep => (upd_aged s true, RUnit)
  | OCounts => (s, counts s)
  | OClose => (closed_state (do_close s) s, RUnit)
  | ODrop => (closed_state (closed_blobs s ++ match s_active s with Some b => [b] | None => [] end) s, RUnit)
  | OOpen lazy =>
    (* the script vocabulary opens a directory only while no session is running on it *)
    if s_open s then (s, RErr EAlreadyOpen) else (do_open (closed_blobs s) (s_bad s) (s_quar s) (s_corrupted s) lazy (s_f2 s), RUnit)
  | ORmIndex id =>
    let present := existsb (fun b => (b_id b =? id) && match b_idxfile b with Some _ => true | None => false end) (closed_blobs s) in
    (upd_closed s (map (fun o => match o with
                                 | Some b => Some (if b_id b =? id then rm_index b else b)
                                 | None => None end) (s_closed s)), RNum (if present then 1 else 0))
  | OCut id keep => (do_cut s id keep, RUnit)
  end.

(* every script operation is followed by an implicit quiesce (the harness waits for the worker) *)
Definition step_q (s : storage) (o : op) : storage * out :=
  let '(s', r) := step s o in (quiesce s', r).

Fixpoint run (s : storage) (ops : list op) : storage * list out :=
  match ops with
  | [] => (s, [])
  | o :: r => let '(s', x) := step_q s o in let '(s'', xs) := run s' r in (s'', x :: xs)
  end.

End WithK.
