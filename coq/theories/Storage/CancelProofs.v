Require Import Pearl.Base.Prelude Pearl.Storage.Model Pearl.Storage.Spec Pearl.Storage.Theorems Pearl.Storage.Cancel.

Definition c_cfg : config := {| c_dup := true; c_maxrec := 1000; c_maxsize := 1000000 |}.
Definition c_rec : rec := mk_rec 2 7 false None 8 5 9001.
Definition c_state : storage := cancel_write_midway (reach 4 c_cfg [OOpen false; OWrite 1 7 None 8 5 1]) c_rec.

(* in the session the cancelled write is invisible ("not at all") *)
Lemma cancelled_write_invisible_in_session : get_latest_entry c_state 2 None = NotFound.
Proof. vm_compute. reflexivity. Qed.

(* if the session ends WITHOUT close, the next start regenerates the index and the write is there ("entirely") *)
Lemma cancelled_write_visible_after_drop_and_open :
  get_latest_entry (fst (run 4 c_cfg c_state [ODrop; OOpen false])) 2 None = Found c_rec.
Proof. vm_compute. reflexivity. Qed.

(* REFUTATION of "all or nothing at the latest from the next start" (finding F18): after a regular close the
   dumped index lacks the record but records a blob size that covers it, so the next start trusts it: the
   write is still invisible -- and it appears once the index file is removed *)
Lemma cancelled_write_surfaces_only_after_index_removal :
  get_latest_entry (fst (run 4 c_cfg c_state [OClose; OOpen false])) 2 None = NotFound /\
  get_latest_entry (fst (run 4 c_cfg c_state [OClose; OOpen false; OClose; ORmIndex 0; OOpen false])) 2 None = Found c_rec.
Proof. vm_compute. split; reflexivity. Qed.

(* other keys are untouched by the cancellation, in every state *)
Lemma cancel_keeps_other_keys s r k :
  r_key r <> k -> of_key k (abs (cancel_write_midway s r)) = of_key k (abs s).
Proof.
  intros Hk. unfold cancel_write_midway. destruct (s_active s) as [b|] eqn:E; [|reflexivity].
  unfold abs, blobs_in_order. cbn [s_active upd_active closed_blobs s_closed]. rewrite E.
  unfold closed_blobs. cbn [s_closed upd_active].
  rewrite !flat_map_app. unfold of_key. rewrite !filter_app. f_equal.
  cbn [flat_map append_unindexed b_recs]. rewrite !app_nil_r, filter_app. cbn [filter].
  destruct (N.eqb_spec (r_key r) k) as [|_]; [contradiction|]. rewrite app_nil_r. reflexivity.
Qed.
